# coding: utf-8
"""Differential test: prints a digest of everything observable through the
existing API of the code touched by the pull request (record rotation /
slicing / copying, the module / vector / part classes of the core and of
every kit, the assembly manager, the registries).

Run as: cd /tmp/agents8/C08 && /venv/bin/python pairs_out/C08_s2/equiv.py
"""
import sys

sys.path.insert(0, "/tmp/agents8/C08")
import tests  # noqa: F401,E402

import hashlib  # noqa: E402
import importlib  # noqa: E402
import inspect  # noqa: E402
import random  # noqa: E402
import re  # noqa: E402
import warnings  # noqa: E402

from Bio import Restriction  # noqa: E402
from Bio.Seq import Seq  # noqa: E402
from Bio.SeqFeature import (  # noqa: E402
    SeqFeature,
    FeatureLocation,
    CompoundLocation,
    BeforePosition,
    AfterPosition,
    ExactPosition,
    Reference,
)
from Bio.SeqRecord import SeqRecord  # noqa: E402

from moclo.record import CircularRecord  # noqa: E402
from moclo import core, errors  # noqa: E402
from moclo.core import modules as core_modules  # noqa: E402
from moclo.core import vectors as core_vectors  # noqa: E402
from moclo.core import parts as core_parts  # noqa: E402
from moclo.core._structured import StructuredRecord  # noqa: E402
from moclo.core._assembly import AssemblyManager  # noqa: E402
from moclo.core._utils import add_as_source, cutter_check  # noqa: E402
from moclo.regex import DNARegex  # noqa: E402

warnings.simplefilter("always")

LINES = []
SECTIONS = {}
_current = [None]


def section(name):
    _current[0] = name
    SECTIONS[name] = 0


def emit(*items):
    LINES.append("{}|{}".format(_current[0], "|".join(str(i) for i in items)))
    SECTIONS[_current[0]] += 1


_ADDR = re.compile(r" at 0x[0-9a-fA-F]+")


def clean(text):
    return _ADDR.sub("", str(text)).replace("/tmp/agents8/C08", "<root>")


# --- describing things -----------------------------------------------------


def d_quals(quals):
    return sorted((str(k), clean(repr(v))) for k, v in quals.items())


def d_loc(loc):
    if loc is None:
        return "None"
    return "{}:{}".format(type(loc).__name__, repr(loc))


def d_feature(f):
    return (f.type, f.id, d_loc(f.location), d_quals(f.qualifiers))


def d_record(rec):
    if rec is None:
        return "None"
    if not isinstance(rec, SeqRecord):
        return "{}:{!r}".format(type(rec).__name__, rec)
    return (
        type(rec).__name__,
        str(rec.seq),
        rec.id,
        rec.name,
        rec.description,
        list(rec.dbxrefs),
        sorted((str(k), clean(repr(v))) for k, v in rec.annotations.items()),
        sorted((str(k), repr(v)) for k, v in rec.letter_annotations.items()),
        [d_feature(f) for f in rec.features],
    )


def attempt(func, *args, **kwargs):
    """Call and describe the outcome (value or exception) and the warnings."""
    with warnings.catch_warnings(record=True) as caught:
        warnings.simplefilter("always")
        try:
            value = func(*args, **kwargs)
            out = ("ok", value)
        except Exception as exc:  # noqa
            out = ("exc", type(exc).__name__, clean(exc))
    warns = sorted((w.category.__name__, clean(w.message)) for w in caught)
    return out, warns


def d_outcome(out):
    if out[0] == "ok":
        v = out[1]
        if isinstance(v, SeqRecord):
            return ("ok", d_record(v))
        return ("ok", clean(repr(v)))
    return out


# --- generating things -----------------------------------------------------


def randseq(rng, n, mixed=False):
    alphabet = "ACGTacgt" if mixed else "ACGT"
    return "".join(rng.choice(alphabet) for _ in range(n))


def circ_parts(start, length, strand, L):
    """Parts (GenBank style: split at the origin) for a circular interval."""
    start %= L
    if start + length <= L:
        return [FeatureLocation(start, start + length, strand)]
    first = FeatureLocation(start, L, strand)
    second = FeatureLocation(0, start + length - L, strand)
    return [first, second] if strand != -1 else [second, first]


def make_location(parts, operator="join"):
    return parts[0] if len(parts) == 1 else CompoundLocation(parts, operator)


def random_features(rng, L, n, label="f"):
    feats = []
    for i in range(n):
        kind = rng.choice(
            ["simple", "simple", "minus", "nostrand", "compound", "compound",
             "span", "pastend", "none", "whole", "source0", "sourceL", "fuzzy",
             "order", "mixed", "ref", "wholegene"]
        )
        quals = {"label": ["{}{}".format(label, i)], "note": [kind]}
        ftype = rng.choice(["CDS", "promoter", "misc_feature", "gene"])
        a = rng.randrange(L)
        ln = rng.randint(1, max(1, L // 3))
        if kind == "simple":
            loc = make_location(circ_parts(a, ln, 1, L))
        elif kind == "minus":
            loc = make_location(circ_parts(a, ln, -1, L))
        elif kind == "nostrand":
            loc = make_location(circ_parts(a, ln, None, L))
        elif kind in ("compound", "order", "mixed"):
            strand = rng.choice([1, -1])
            parts = []
            pos = a
            for j in range(rng.randint(2, 3)):
                pl = rng.randint(1, max(1, L // 8))
                s = strand if kind != "mixed" else rng.choice([1, -1])
                parts.extend(circ_parts(pos, pl, s, L))
                pos += pl + rng.randint(0, 3)
            if strand == -1:
                parts.reverse()
            loc = CompoundLocation(parts, "order" if kind == "order" else "join")
        elif kind == "span":
            ln = rng.randint(2, max(2, L // 3))
            loc = make_location(circ_parts(L - rng.randint(1, ln - 1), ln, rng.choice([1, -1]), L))
        elif kind == "pastend":
            s = rng.randrange(L // 2, L)
            loc = FeatureLocation(s, s + rng.randint(L - s, L - 1), rng.choice([1, -1]))
        elif kind == "none":
            loc = None
        elif kind == "whole":
            ftype = "source"
            loc = FeatureLocation(0, L, rng.choice([1, None]))
        elif kind == "wholegene":
            loc = FeatureLocation(0, L, 1)
        elif kind == "source0":
            ftype = "source"
            loc = FeatureLocation(0, rng.randint(1, L - 1), 1)
        elif kind == "sourceL":
            ftype = "source"
            loc = FeatureLocation(rng.randint(1, L - 1), L, 1)
        elif kind == "fuzzy":
            s = rng.randrange(0, L - 1)
            e = rng.randint(s + 1, L)
            loc = FeatureLocation(BeforePosition(s), AfterPosition(e), rng.choice([1, -1]))
        elif kind == "ref":
            s = rng.randrange(0, L - 1)
            loc = FeatureLocation(s, rng.randint(s + 1, L), 1, ref="X1234", ref_db="db")
        feats.append(SeqFeature(loc, type=ftype, id="id{}".format(i), qualifiers=quals))
    return feats


def own_rotate(seq, feats_spec, r):
    """Rotate a plain description: (seq, [(type, quals, [(start, len, strand)...])])."""
    L = len(seq)
    r %= L
    newseq = seq[-r:] + seq[:-r] if r else seq
    feats = []
    for ftype, quals, intervals in feats_spec:
        parts = []
        for (s, ln, st) in intervals:
            parts.extend(circ_parts(s + r, ln, st, L))
        feats.append(SeqFeature(make_location(parts), type=ftype, qualifiers=dict(quals)))
    return newseq, feats


# --- 1. CircularRecord -----------------------------------------------------


def check_record_ops():
    section("record")
    rng = random.Random(801)
    for n in range(120):
        L = rng.randint(6, 60)
        seq = randseq(rng, L, mixed=rng.random() < 0.3)
        feats = random_features(rng, L, rng.randint(0, 6))
        annotations = {}
        if rng.random() < 0.7:
            annotations["topology"] = rng.choice(["circular", "Circular", "CIRCULAR"])
        if rng.random() < 0.5:
            annotations["molecule_type"] = "DNA"
        if rng.random() < 0.3:
            ref = Reference()
            ref.title = "ref {}".format(n)
            annotations["references"] = [ref]
        letter = None
        if rng.random() < 0.3:
            letter = {"phred_quality": [rng.randrange(40) for _ in range(L)]}
        dbx = ["db:{}".format(n)] if rng.random() < 0.4 else None
        base = SeqRecord(
            Seq(seq), id="r{}".format(n), name="n{}".format(n), description="d",
            dbxrefs=dbx, features=feats, annotations=annotations or None,
            letter_annotations=letter,
        )
        out, w = attempt(CircularRecord, base)
        emit(n, "init", d_outcome(out), w)
        if out[0] != "ok":
            continue
        rec = out[1]
        emit(n, "init-alias", rec.features is base.features,
             any(a is b for a, b in zip(rec.features, base.features)),
             rec.annotations is base.annotations)
        before = d_record(rec)
        shifts = [0, 1, L - 1, L, L + 2, -1, -L, rng.randrange(L), rng.randrange(L), 3 * L + 1]
        for k in shifts:
            for name, op in (("rshift", lambda r, k: r >> k), ("lshift", lambda r, k: r << k)):
                out, w = attempt(op, rec, k)
                emit(n, name, k, d_outcome(out), w)
                if out[0] == "ok":
                    new = out[1]
                    emit(n, name + "-alias", k, new is rec,
                         new.annotations is rec.annotations,
                         new.dbxrefs is rec.dbxrefs,
                         [a.qualifiers is b.qualifiers for a, b in zip(new.features, rec.features)],
                         [a.location is b.location for a, b in zip(new.features, rec.features)])
        # round trips
        k = rng.randrange(1, L)
        out, w = attempt(lambda: (rec >> k) << k)
        emit(n, "roundtrip", k, d_outcome(out), w)
        out, w = attempt(lambda: ((rec >> k) >> (L - k)))
        emit(n, "fullturn", k, d_outcome(out), w)
        # slices
        for _ in range(6):
            a, b = rng.randint(-L - 2, L + 2), rng.randint(-L - 2, L + 2)
            sl = rng.choice([slice(a, b), slice(a, None), slice(None, b), slice(a, b, 2),
                             slice(None, None, -1), slice(None, None), a])
            out, w = attempt(lambda: rec[sl])
            emit(n, "getitem", sl, d_outcome(out), w)
            if out[0] == "ok" and isinstance(out[1], SeqRecord):
                emit(n, "getitem-alias", [any(f is g for g in rec.features) for f in out[1].features])
        for probe in (seq[:3], seq[-2:] + seq[:2], seq + seq[:1], seq.lower()[:4], "", Seq(seq[1:4])):
            out, w = attempt(lambda: probe in rec)
            emit(n, "contains", str(probe), d_outcome(out), w)
        out, w = attempt(rec.reverse_complement)
        emit(n, "revcomp", d_outcome(out), w)
        out, w = attempt(lambda: rec.reverse_complement(id=True, name="x", annotations=True, dbxrefs=True))
        emit(n, "revcomp2", d_outcome(out), w)
        out, w = attempt(lambda: rec + rec)
        emit(n, "add", d_outcome(out), w)
        out, w = attempt(lambda: "AC" + rec)
        emit(n, "radd", d_outcome(out), w)
        emit(n, "unchanged", before == d_record(rec))
    # constructor corner cases
    for ann in ({"topology": "linear"}, {"topology": "LINEAR"}, {"topology": 3}, {}, None):
        out, w = attempt(CircularRecord, Seq("ATGC"), "i", "n", "d", None, None, ann)
        emit("ctor", ann, d_outcome(out), w)
        out, w = attempt(CircularRecord, SeqRecord(Seq("ATGC"), annotations=ann))
        emit("ctor-rec", ann, d_outcome(out), w)
    out, w = attempt(lambda: CircularRecord(Seq("")) >> 1)
    emit("empty", d_outcome(out), w)
    out, w = attempt(lambda: CircularRecord(CircularRecord(Seq("ATGC"), id="x", features=[
        SeqFeature(FeatureLocation(1, 3, 1), type="CDS")])))
    emit("nested", d_outcome(out), w)


# --- 2. core classes with several enzymes -----------------------------------

ENZYMES = ["BpiI", "BsaI", "BsmBI", "SapI", "BbsI", "Esp3I", "BtgZI", "BsrDI",
           "BtsI", "BseRI", "AcuI", "BsgI", "MlyI", "EcoRI", "EcoRV", "BspQI",
           "NmeAIII", "BcgI", "FokI"]


def rc(s):
    return str(Seq(s).reverse_complement())


def fill(rng, template):
    out = []
    for c in template:
        if c in "^_":
            continue
        if c in "ACGT":
            out.append(c)
        else:
            choices = {"N": "ACGT", "R": "AG", "Y": "CT", "W": "AT", "S": "CG", "M": "AC",
                       "K": "GT", "B": "CGT", "D": "AGT", "H": "ACT", "V": "ACG"}[c]
            out.append(rng.choice(choices))
    return "".join(out)


def split_site(cutter):
    """Return (before, overhang length, after) of the elucidated site."""
    e = cutter.elucidate()
    i, j = sorted((e.index("^"), e.index("_")))
    return e[:i], j - i - 1, e[j + 1:]


def build_module(rng, cutter, ovh_start, ovh_end, insert, junk):
    a, n, b = split_site(cutter)
    return (
        fill(rng, a) + ovh_start + fill(rng, b) + insert
        + fill(rng, rc(b)) + ovh_end + fill(rng, rc(a)) + junk
    )


def build_vector(rng, cutter, ovh_first, ovh_last, placeholder, backbone):
    a, n, b = split_site(cutter)
    return (
        fill(rng, rc(b)) + ovh_first + fill(rng, rc(a)) + placeholder
        + fill(rng, a) + ovh_last + fill(rng, b) + backbone
    )


def spec_features(rng, L, n, label):
    spec = []
    for i in range(n):
        ftype = rng.choice(["CDS", "promoter", "misc_feature", "source", "source"])
        quals = {"label": ["{}{}".format(label, i)]}
        k = rng.choice(["simple", "minus", "two", "three", "none"])
        s = rng.randrange(L)
        ln = rng.randint(1, max(1, L // 4))
        if k == "simple":
            iv = [(s, ln, 1)]
        elif k == "minus":
            iv = [(s, ln, -1)]
        elif k == "none":
            iv = [(s, ln, None)]
        elif k == "two":
            l1 = rng.randint(1, 6)
            iv = [(s, l1, 1), (s + l1 + rng.randint(0, 4), rng.randint(1, 6), 1)]
        else:
            l1, l2 = rng.randint(1, 5), rng.randint(1, 5)
            g1 = rng.randint(1, 3)
            iv = [(s + l1 + g1 + l2 + 2, rng.randint(1, 5), -1), (s + l1 + g1, l2, -1), (s, l1, -1)]
        spec.append((ftype, quals, iv))
    return spec


def mock_classes(cutter):
    ns = {"cutter": cutter}
    return (
        type(str("MockVector"), (core.AbstractVector,), dict(ns)),
        type(str("MockModule"), (core.AbstractModule,), dict(ns)),
    )


def d_assembly(vector, mods, **kwargs):
    out, w = attempt(lambda: vector.assemble(*mods, **kwargs))
    return d_outcome(out), w


def check_core():
    section("core")
    rng = random.Random(802)
    for ename in ENZYMES:
        cutter = getattr(Restriction, ename)
        for base in (core.AbstractModule, core.AbstractVector, core.Product, core.Entry,
                     core.Cassette, core.Device, core.EntryVector, core.CassetteVector,
                     core.DeviceVector):
            cls = type(str("Mock" + base.__name__), (base,), {"cutter": cutter})
            out, w = attempt(cls.structure)
            emit(ename, base.__name__, "structure", d_outcome(out), w)
            out, w = attempt(cls, CircularRecord(Seq("ATGCATGC"), id="x"))
            emit(ename, base.__name__, "new", out[0] if out[0] == "ok" else out, w)
            emit(ename, base.__name__, "level", cls._level, [c.__name__ for c in cls.__mro__
                                                            if not c.__name__.startswith("Mock")
                                                            and c.__module__.startswith("moclo")
                                                            and c in (core.AbstractModule, core.AbstractVector, StructuredRecord)])
        out, w = attempt(cutter_check, cutter, "name")
        emit(ename, "cutter_check", d_outcome(out), w)
        if cutter.is_blunt() or cutter.is_unknown():
            continue
        try:
            a, n, b = split_site(cutter)
        except ValueError:
            emit(ename, "no-split")
            continue
        MockVector, MockModule = mock_classes(cutter)
        for trial in range(7):
            nmods = rng.randint(1, 3)
            ovhs = []
            while len(ovhs) < nmods + 1:
                o = randseq(rng, n)
                if o not in ovhs and rc(o) not in ovhs and o != rc(o):
                    ovhs.append(o)
            records = []
            mixed = trial == 3
            for m in range(nmods):
                insert = randseq(rng, rng.randint(8, 30), mixed)
                junk = randseq(rng, rng.randint(5, 25), mixed)
                s = build_module(rng, cutter, ovhs[m], ovhs[m + 1], insert, junk)
                spec = spec_features(rng, len(s), rng.randint(1, 6), "m{}_".format(m))
                rot = rng.choice([0, 0, rng.randrange(len(s)), rng.randrange(len(s))])
                s2, feats = own_rotate(s, spec, rot)
                records.append(CircularRecord(Seq(s2), id="mod{}".format(m), name="mod{}".format(m),
                                              features=feats, annotations={"topology": "circular"}))
            placeholder = randseq(rng, rng.randint(4, 20), mixed)
            backbone = randseq(rng, rng.randint(10, 40), mixed)
            s = build_vector(rng, cutter, ovhs[0], ovhs[nmods], placeholder, backbone)
            spec = spec_features(rng, len(s), rng.randint(1, 6), "v_")
            rot = rng.choice([0, rng.randrange(len(s)), rng.randrange(len(s))])
            s2, feats = own_rotate(s, spec, rot)
            vrec = CircularRecord(Seq(s2), id="vec", name="vec", features=feats)
            vector = MockVector(vrec)
            mods = [MockModule(r) for r in records]
            before = [d_record(r) for r in records + [vrec]]
            for ent in mods + [vector]:
                for meth in ("is_valid", "overhang_start", "overhang_end", "target_sequence"):
                    out, w = attempt(getattr(ent, meth))
                    emit(ename, trial, ent.record.id, meth, d_outcome(out), w)
            out, w = attempt(vector.placeholder_sequence)
            emit(ename, trial, "placeholder", d_outcome(out), w)
            emit(ename, trial, "assemble", *d_assembly(vector, mods))
            emit(ename, trial, "assemble-shuffled", *d_assembly(vector, list(reversed(mods)), id="my", name="nm"))
            emit(ename, trial, "unchanged", before == [d_record(r) for r in records + [vrec]])
            if trial == 0:
                # failing assemblies
                emit(ename, "missing", *d_assembly(vector, mods[1:] or [MockModule(vrec)]))
                emit(ename, "duplicate", *d_assembly(vector, mods + [MockModule(records[0] >> 3)]))
                extra = build_module(rng, cutter, rc(ovhs[0])[::-1] if False else randseq(rng, n), randseq(rng, n),
                                     randseq(rng, 12), randseq(rng, 9))
                emit(ename, "unused", *d_assembly(vector, mods + [MockModule(CircularRecord(Seq(extra), id="extra"))]))
                emit(ename, "vector-as-module", *d_assembly(vector, [MockModule(vrec)]))
                emit(ename, "module-as-vector", *d_assembly(MockVector(records[0]), mods))
                plain = [MockModule(SeqRecord(r.seq, id=r.id, features=list(r.features))) for r in records]
                emit(ename, "plain-modules", *d_assembly(vector, plain))
                emit(ename, "plain-vector", *d_assembly(MockVector(SeqRecord(vrec.seq, id="pv")), mods))
                linear = SeqRecord(records[0].seq, id="lin", annotations={"topology": "linear"})
                out, w = attempt(MockModule(linear).is_valid)
                emit(ename, "linear-valid", d_outcome(out), w)
                out, w = attempt(MockModule(linear).target_sequence)
                emit(ename, "linear-target", d_outcome(out), w)
                # an extra site inside the insert
                site = fill(rng, cutter.site)
                bad = build_module(rng, cutter, ovhs[0], ovhs[1], "AAAA" + site + "TTTTTTTTTTTTTTTTTTTT", "CCCCCC")
                bm = MockModule(CircularRecord(Seq(bad), id="bad"))
                out, w = attempt(bm.is_valid)
                emit(ename, "illegal-valid", d_outcome(out), w)
                out, w = attempt(bm.target_sequence)
                emit(ename, "illegal-target", d_outcome(out), w)
                same = build_vector(rng, cutter, ovhs[0], ovhs[0], placeholder, backbone)
                emit(ename, "same-overhangs", *d_assembly(MockVector(CircularRecord(Seq(same), id="same")), mods))

    # not declaring a cutter
    for base in (core.AbstractModule, core.AbstractVector, core.AbstractPart, core.Entry):
        out, w = attempt(base, CircularRecord(Seq("ATGC")))
        emit("nocutter", base.__name__, out if out[0] == "exc" else "ok", w)
    out, w = attempt(StructuredRecord, CircularRecord(Seq("ATGC")))
    emit("abstract", out if out[0] == "exc" else "ok", w)


# --- 3. citations -----------------------------------------------------------


def check_citations():
    section("citations")
    rng = random.Random(803)
    cutter = Restriction.BsaI
    MockVector, MockModule = mock_classes(cutter)
    for trial in range(12):
        ovhs = ["ACGA", "TTCC", "GGAT"]
        recs = []
        for m in range(2):
            s = build_module(rng, cutter, ovhs[m], ovhs[m + 1], randseq(rng, 20), randseq(rng, 10))
            rot = rng.randrange(len(s))
            s2, feats = own_rotate(s, spec_features(rng, len(s), 4, "c{}_".format(m)), rot)
            refs = []
            for j in range(rng.randint(0, 3)):
                r = Reference()
                r.title = "paper {}{}".format(m if trial % 2 else "", j)
                r.authors = "someone"
                refs.append(r)
            for f in feats:
                roll = rng.random()
                if refs and roll < 0.6:
                    f.qualifiers["citation"] = ["[{}]".format(rng.randint(1, len(refs)))]
                    if roll < 0.2:
                        f.qualifiers["citation"].append("[{}]".format(rng.randint(1, len(refs))))
                elif trial == 7 and roll < 0.8:
                    f.qualifiers["citation"] = ["(1)"]
                elif trial == 8 and roll < 0.8:
                    f.qualifiers["citation"] = ["[9]"]
            ann = {"topology": "circular"}
            if refs or rng.random() < 0.5:
                ann["references"] = refs
            recs.append(CircularRecord(Seq(s2), id="cm{}".format(m), features=feats, annotations=ann))
        s = build_vector(rng, cutter, ovhs[0], ovhs[2], randseq(rng, 8), randseq(rng, 30))
        s2, feats = own_rotate(s, spec_features(rng, len(s), 3, "cv_"), rng.randrange(len(s)))
        vref = Reference()
        vref.title = "paper 0"
        vref.authors = "someone"
        feats[0].qualifiers["citation"] = ["[1]"]
        vrec = CircularRecord(Seq(s2), id="cv", features=feats, annotations={"references": [vref]})
        mods = [MockModule(r) for r in recs]
        emit(trial, "assemble", *d_assembly(MockVector(vrec), mods))
        emit(trial, "after", [d_record(r) for r in recs + [vrec]])
        emit(trial, "again", *d_assembly(MockVector(vrec), mods))
        emit(trial, "after2", [d_record(r) for r in recs + [vrec]])


# --- 4. every class of every kit -------------------------------------------


def realise(rng, structure):
    """Make a sequence matching a structure pattern."""
    out = []
    i = 0
    while i < len(structure):
        c = structure[i]
        nxt = structure[i + 1] if i + 1 < len(structure) else ""
        if c in "()":
            i += 1
            continue
        if nxt == "*":
            out.append(randseq(rng, rng.randint(6, 14)).replace("G", "A").replace("C", "T"))
            i += 2
            if i < len(structure) and structure[i] == "?":
                i += 1
            continue
        out.append(fill(rng, c))
        i += 1
    return "".join(out)


def check_kits():
    section("kits")
    rng = random.Random(804)
    for kit in ("ytk", "cidar", "ecoflex", "moclo", "plant"):
        mod = importlib.import_module("moclo.kits." + kit)
        names = sorted(
            name for name, obj in vars(mod).items()
            if inspect.isclass(obj) and issubclass(obj, StructuredRecord)
        )
        for name in names:
            cls = getattr(mod, name)
            public = [c.__name__ for c in cls.__mro__
                      if c.__module__.startswith("moclo.") and not c.__name__.startswith("_")
                      and c.__name__ not in ("CutterChecked", "DigestedRecord")]
            emit(kit, name, "mro", public)
            emit(kit, name, "attrs", getattr(cls, "cutter", None), getattr(cls, "_level", "-"),
                 getattr(cls, "signature", "-"), inspect.isabstract(cls))
            for base in (core.AbstractModule, core.AbstractVector, core.AbstractPart, core.Product,
                         core.Entry, core.Cassette, core.Device, core.EntryVector,
                         core.CassetteVector, core.DeviceVector):
                emit(kit, name, "issubclass", base.__name__, issubclass(cls, base))
            out, w = attempt(cls.structure)
            emit(kit, name, "structure", d_outcome(out), w)
            if out[0] != "ok":
                out2, w2 = attempt(cls, CircularRecord(Seq("ATGC")))
                emit(kit, name, "new", out2 if out2[0] == "exc" else "ok", w2)
                continue
            for t in range(3):
                s = realise(rng, out[1]) + randseq(rng, rng.randint(10, 30)).replace("G", "A").replace("C", "T")
                spec = spec_features(rng, len(s), 5, "k")
                s2, feats = own_rotate(s, spec, 0 if t == 0 else rng.randrange(len(s)))
                if t == 2:
                    s2 = s2.lower()
                rec = CircularRecord(Seq(s2), id="{}{}".format(name, t), features=feats)
                before = d_record(rec)
                o, w2 = attempt(cls, rec)
                if o[0] != "ok":
                    emit(kit, name, t, "new", o, w2)
                    continue
                ent = o[1]
                meths = ["is_valid", "overhang_start", "overhang_end", "target_sequence"]
                if issubclass(cls, core.AbstractVector):
                    meths.append("placeholder_sequence")
                for meth in meths:
                    o, w2 = attempt(getattr(ent, meth))
                    emit(kit, name, t, meth, d_outcome(o), w2)
                emit(kit, name, t, "unchanged", before == d_record(rec))
            if hasattr(cls, "characterize"):
                o, w2 = attempt(cls.characterize, rec)
                emit(kit, name, "characterize", type(o[1]).__name__ if o[0] == "ok" else o, w2)


# --- 5. registries ------------------------------------------------------------


def check_registries():
    section("registries")
    from moclo.registry.ytk import YTKRegistry, PTKRegistry
    from moclo.registry.cidar import CIDARRegistry
    from moclo.registry.ecoflex import EcoFlexRegistry
    from moclo.registry.plant import PlantRegistry

    regs = {}
    for cls in (YTKRegistry, PTKRegistry, CIDARRegistry, EcoFlexRegistry, PlantRegistry):
        out, w = attempt(cls)
        if out[0] != "ok":
            emit(cls.__name__, out)
            continue
        reg = out[1]
        regs[cls.__name__] = reg
        for key in sorted(reg):
            item = reg[key]
            ent = item.entity
            h = hashlib.sha256()
            for meth in ("is_valid", "overhang_start", "overhang_end", "target_sequence"):
                o, w2 = attempt(getattr(ent, meth))
                h.update(repr((meth, d_outcome(o), w2)).encode())
            h.update(repr(d_record(ent.record)).encode())
            emit(cls.__name__, key, type(ent).__name__, item.resistance, h.hexdigest()[:16])

    def assemble(regname, vector, mods, rot=0):
        reg = regs.get(regname)
        if reg is None:
            return
        try:
            v = reg[vector].entity
            ms = [reg[m].entity for m in mods]
        except KeyError as ke:
            emit(regname, vector, "missing item", ke)
            return
        if rot:
            v = type(v)(v.record >> rot)
            ms = [type(m)(m.record >> (rot * (i + 2))) for i, m in enumerate(ms)]
        out, w = attempt(lambda: v.assemble(*ms))
        emit(regname, vector, mods, rot, d_outcome(out), w)
        return out[1] if out[0] == "ok" else None

    for rot in (0, 777):
        assemble("CIDARRegistry", "DVK_AE", ("J23102_AB", "BCD2_BC", "E0040m_CD", "B0015_DE"), rot)
        assemble("CIDARRegistry", "DVK_AE", ("J23102_AB", "BCD2_BC", "E0040m_CD"), rot)
        assemble("YTKRegistry", "pYTK095", ("pYTK002", "pYTK009", "pYTK033", "pYTK051", "pYTK067"), rot)
        assemble("YTKRegistry", "pYTK095", ("pYTK002", "pYTK047", "pYTK072"), rot)
        assemble("EcoFlexRegistry", "pTU1-A-RFP", ("pBP-J23100", "pBP-BBa_B0034", "pBP-eCFP", "pBP-BBa_B0015"), rot)
        assemble("EcoFlexRegistry", "pTU1-A-lacZ", ("pBP-SJM901", "pBP-pET-RBS", "pBP-eGFP", "pBP-BBa_B0012"), rot)


def main():
    check_record_ops()
    check_core()
    check_citations()
    check_kits()
    check_registries()
    digest = hashlib.sha256("\n".join(LINES).encode("utf-8")).hexdigest()
    for name in SECTIONS:
        sub = hashlib.sha256(
            "\n".join(l for l in LINES if l.startswith(name + "|")).encode("utf-8")
        ).hexdigest()
        print("{:12s} {:6d} observations  {}".format(name, SECTIONS[name], sub[:20]))
    print("DIGEST {} ({} observations)".format(digest, len(LINES)))
    if len(sys.argv) > 1:
        with open(sys.argv[1], "w") as handle:
            handle.write("\n".join(LINES))


if __name__ == "__main__":
    main()
