import sys

sys.path.insert(0, "/tmp/agentsR4/R16")
import tests  # noqa: F401,E402  (splices the kit packages into the moclo namespace)

import hashlib  # noqa: E402
import random  # noqa: E402
import re  # noqa: E402
import warnings  # noqa: E402

from Bio.Seq import Seq  # noqa: E402
from Bio.SeqRecord import SeqRecord  # noqa: E402
from Bio.SeqFeature import (  # noqa: E402
    SeqFeature,
    FeatureLocation,
    CompoundLocation,
    Reference,
)
from Bio.Restriction import BpiI, BsaI, BsmBI, BsrDI, SapI, EcoRV, AllEnzymes  # noqa: E402

from moclo import errors  # noqa: E402
from moclo.record import CircularRecord  # noqa: E402
from moclo.regex import DNARegex, SeqMatch  # noqa: E402,F401
from moclo.core.modules import AbstractModule, Entry, Product  # noqa: E402,F401
from moclo.core.vectors import AbstractVector, EntryVector  # noqa: E402,F401
from moclo.core.parts import AbstractPart  # noqa: E402

warnings.simplefilter("always")

# --- dumping ----------------------------------------------------------------

RESULTS = []


def dump_ref(ref):
    if isinstance(ref, Reference):
        return (
            "Reference",
            [repr(l) for l in ref.location],
            ref.authors,
            ref.title,
            ref.journal,
            ref.pubmed_id,
            ref.comment,
        )
    return repr(ref)


def dump_value(value):
    if isinstance(value, (list, tuple)):
        return [type(value).__name__] + [dump_value(v) for v in value]
    if isinstance(value, dict):
        return [type(value).__name__] + [(k, dump_value(v)) for k, v in value.items()]
    if isinstance(value, Reference):
        return dump_ref(value)
    if isinstance(value, Seq):
        return ("Seq", str(value))
    return repr(value)


def dump_feature(feature):
    loc = feature.location
    return (
        feature.type,
        feature.id,
        None if loc is None else (type(loc).__name__, repr(loc)),
        type(feature.qualifiers).__name__,
        [(k, dump_value(v)) for k, v in feature.qualifiers.items()],
    )


def dump_record(rec):
    if rec is None:
        return None
    if isinstance(rec, Seq):
        return ("Seq", str(rec))
    if isinstance(rec, str):
        return ("str", rec)
    return (
        type(rec).__name__,
        str(rec.seq),
        rec.id,
        rec.name,
        rec.description,
        list(rec.dbxrefs),
        [(k, dump_value(v)) for k, v in rec.annotations.items()],
        [(k, dump_value(v)) for k, v in rec.letter_annotations.items()],
        [dump_feature(f) for f in rec.features],
    )


def dump_exc(exc):
    extra = []
    for attr in ("duplicates", "remaining"):
        if hasattr(exc, attr):
            extra.append((attr, [getattr(x, "record", x) is not x and x.record.id for x in getattr(exc, attr)]))
    for attr in ("details", "start_overhang"):
        extra.append((attr, dump_value(getattr(exc, attr, None))))
    message = re.sub(r"0x[0-9a-fA-F]+", "0x?", str(exc))
    return ("EXC", type(exc).__name__, message, extra)


def attempt(label, func, dump=dump_value):
    """Run func, record its outcome (value or exception) and the warnings."""
    with warnings.catch_warnings(record=True) as caught:
        warnings.simplefilter("always")
        try:
            out = ("OK", dump(func()))
        except Exception as exc:  # noqa
            out = dump_exc(exc)
    warns = [(w.category.__name__, re.sub(r"0x[0-9a-fA-F]+", "0x?", str(w.message))) for w in caught]
    RESULTS.append((label, out, warns))
    return out


def finish():
    blob = repr(RESULTS).encode("utf-8")
    print(len(RESULTS), "results")
    print(hashlib.sha256(blob).hexdigest())


# --- sequence generation ----------------------------------------------------

SITES = ["GAAGAC", "GTCTTC", "GGTCTC", "GAGACC", "CGTCTC", "GAGACG", "GCAATG", "CATTGC", "GCTCTTC", "GAAGAGC"]


def revcomp(s):
    return str(Seq(s).reverse_complement())


def clean_dna(rng, n, extra=()):
    """Random DNA of length n without any Type IIS site used here."""
    while True:
        s = "".join(rng.choice("ACGT") for _ in range(n))
        probe = "TT" + s + "TT"
        if not any(site in probe for site in SITES):
            return s


def random_overhang(rng, k=4):
    return "".join(rng.choice("ACGT") for _ in range(k))


def distinct_overhangs(rng, count, k=4):
    """Overhangs that are pairwise different, non palindromic and not
    reverse complements of each other."""
    out = []
    while len(out) < count:
        o = random_overhang(rng, k)
        rc = revcomp(o)
        if o == rc or o in out or rc in out:
            continue
        if any(site.startswith(o) or site.endswith(o) for site in SITES):
            continue
        out.append(o)
    return out


def randcase(rng, s, mode):
    if mode == "upper":
        return s
    if mode == "lower":
        return s.lower()
    return "".join(c.lower() if rng.random() < 0.5 else c for c in s)


# site, spacer for the 5' overhang Type IIS enzymes used below
ENZYMES = {
    "BpiI": (BpiI, "GAAGAC", 2),
    "BsaI": (BsaI, "GGTCTC", 1),
    "BsmBI": (BsmBI, "CGTCTC", 1),
}


def module_seq(rng, site, spacer, ovs, target, ove, backbone):
    return (
        site
        + clean_dna(rng, spacer)
        + ovs
        + target
        + ove
        + clean_dna(rng, spacer)
        + revcomp(site)
        + backbone
    )


def vector_seq(rng, site, spacer, ov_end, placeholder, ov_start, backbone):
    # <ov_end> NN <rc site> placeholder <site> NN <ov_start> backbone
    return (
        ov_end
        + clean_dna(rng, spacer)
        + revcomp(site)
        + placeholder
        + site
        + clean_dna(rng, spacer)
        + ov_start
        + backbone
    )


def make_reference(rng, n):
    ref = Reference()
    ref.title = "title %d %d" % (n, rng.randrange(1000))
    ref.authors = "author %d" % n
    ref.journal = "journal %d" % rng.randrange(10)
    return ref


def random_location(rng, n):
    kind = rng.random()
    strand = rng.choice([1, -1, None, 0])
    if n < 4:
        return FeatureLocation(0, n, strand)
    if kind < 0.6:
        a = rng.randrange(0, n - 1)
        b = rng.randrange(a + 1, n + 1)
        return FeatureLocation(a, b, strand)
    if kind < 0.8:
        cuts = sorted(rng.sample(range(0, n + 1), 4))
        if len(set(cuts)) < 4:
            return FeatureLocation(0, n, strand)
        return CompoundLocation(
            [FeatureLocation(cuts[0], cuts[1], strand), FeatureLocation(cuts[2], cuts[3], strand)]
        )
    # a location that wraps the origin
    a = rng.randrange(n // 2, n)
    b = rng.randrange(1, max(2, n // 2))
    return CompoundLocation([FeatureLocation(a, n, strand), FeatureLocation(0, b, strand)])


def decorate(rng, rec, citations="valid", nfeat=None, source=False, letters=False):
    """Add random features, references, citations to a record (in place)."""
    n = len(rec)
    nrefs = rng.randrange(0, 4)
    if nrefs or rng.random() < 0.3:
        rec.annotations["references"] = [make_reference(rng, i) for i in range(nrefs)]
    if nrefs > 1 and rng.random() < 0.3:
        # duplicated (equal but not identical) reference
        dup = make_reference(rng, 0)
        first = rec.annotations["references"][0]
        dup.title, dup.authors, dup.journal = first.title, first.authors, first.journal
        rec.annotations["references"].append(dup)
    if nfeat is None:
        nfeat = rng.randrange(0, 5)
    for i in range(nfeat):
        quals = {"label": ["feat%d" % i]}
        if rng.random() < 0.3:
            quals["note"] = ["note %d" % rng.randrange(100)]
        total = len(rec.annotations.get("references", []))
        if total and rng.random() < 0.7:
            quals["citation"] = [
                "[%d]" % rng.randrange(1, total + 1) for _ in range(rng.randrange(1, 4))
            ]
        elif rng.random() < 0.1:
            quals["citation"] = []
        feat = SeqFeature(random_location(rng, n), type=rng.choice(["CDS", "misc_feature", "promoter", "source"]), id="f%d" % i, qualifiers=quals)
        rec.features.append(feat)
    if source:
        rec.features.append(SeqFeature(FeatureLocation(0, n), type="source", qualifiers={"organism": ["x"]}))
    if letters:
        rec.letter_annotations["phred_quality"] = [rng.randrange(0, 60) for _ in range(n)]
        rec.letter_annotations["mark"] = "".join(rng.choice("abcdef") for _ in range(n))
    if citations != "valid":
        bad = {
            "text": "see ref",
            "empty": "[]",
            "range": "[99]",
            "zero": "[0]",
            "tail": "[1] and more",
        }[citations]
        rec.annotations.setdefault("references", [make_reference(rng, 7)])
        if not rec.annotations["references"]:
            rec.annotations["references"].append(make_reference(rng, 8))
        quals = {"citation": ["[1]", bad, "[1]"]}
        rec.features.append(SeqFeature(FeatureLocation(0, min(3, n)), type="misc_feature", qualifiers=quals))
    return rec


def make_record(rng, seq, ident, circular=True, topology="default", rotate=True, **deco):
    annotations = {}
    if topology == "circular":
        annotations["topology"] = rng.choice(["circular", "Circular", "CIRCULAR"])
    elif topology == "linear":
        annotations["topology"] = "linear"
    if rng.random() < 0.5:
        annotations["molecule_type"] = "DNA"
    if circular:
        rec = CircularRecord(Seq(seq), id=ident, name=ident + "_name", description="desc " + ident, annotations=annotations)
    else:
        rec = SeqRecord(Seq(seq), id=ident, name=ident + "_name", description="desc " + ident, annotations=annotations)
    decorate(rng, rec, **deco)
    if circular and rotate:
        mode = rng.randrange(5)
        n = len(rec)
        if mode == 0:
            rec = rec >> rng.randrange(0, n)
        elif mode == 1:
            rec = rec << rng.randrange(0, n)
        elif mode == 2:
            rec = rec >> (rng.randrange(0, n) + n * rng.randrange(1, 4))
        elif mode == 3:
            rec = rec >> -rng.randrange(0, 3 * n)
        # mode 4: not rotated
    return rec


# --- mock classes -----------------------------------------------------------


class VBpi(AbstractVector):
    cutter = BpiI


class MBpi(AbstractModule):
    cutter = BpiI


class VBsa(EntryVector):
    cutter = BsaI


class MBsa(Entry):
    cutter = BsaI


class VBsmB(AbstractVector):
    cutter = BsmBI


class MBsmB(Product):
    cutter = BsmBI


CLASSES = {"BpiI": (VBpi, MBpi), "BsaI": (VBsa, MBsa), "BsmBI": (VBsmB, MBsmB)}


# --- assembly scenarios -------------------------------------------------------

SCENARIOS = [
    "ok",
    "ok",
    "ok",
    "unused",
    "duplicate",
    "twice",
    "revcomp",
    "palindrome",
    "missing",
    "missing_first",
    "vector_same",
    "invalid_module",
    "invalid_vector",
    "illegal_module",
    "illegal_vector",
    "bad_citation_module",
    "bad_citation_vector",
    "linear_module",
    "unused_many",
    "duplicate_late_invalid",
]


def build_scenario(rng, kind):
    """Return (vector, modules, kwargs, records) for one assembly scenario."""
    enz = rng.choice(sorted(ENZYMES))
    _, site, spacer = ENZYMES[enz]
    vcls, mcls = CLASSES[enz]
    case = rng.choice(["upper", "upper", "lower", "mixed"])
    k = rng.randrange(1, 5)
    ovs = distinct_overhangs(rng, k + 4)
    chain, spare = ovs[: k + 1], ovs[k + 1 :]

    def dna(n):
        return clean_dna(rng, n)

    cite = "valid"
    mods = []
    for i in range(k):
        seq = module_seq(rng, site, spacer, chain[i], dna(rng.randrange(2, 40)), chain[i + 1], dna(rng.randrange(0, 30)))
        mods.append([seq, "mod%d" % i, {}])
    vseq = vector_seq(rng, site, spacer, chain[0], dna(rng.randrange(0, 20)), chain[k], dna(rng.randrange(1, 40)))
    vopts = {}

    if kind in ("unused", "unused_many"):
        for j in range(1 if kind == "unused" else 3):
            a, b = distinct_overhangs(rng, 2)
            if a in ovs or b in ovs or revcomp(a) in ovs or revcomp(b) in ovs:
                a, b = spare[0], spare[1]
                if j:
                    continue
            mods.append([module_seq(rng, site, spacer, a, dna(10), b, dna(5)), "extra%d" % j, {}])
    elif kind == "duplicate":
        i = rng.randrange(k)
        mods.append([module_seq(rng, site, spacer, chain[i], dna(12), spare[0], dna(5)), "dup", {}])
    elif kind == "revcomp":
        i = rng.randrange(k)
        mods.append([module_seq(rng, site, spacer, revcomp(chain[i]), dna(12), spare[0], dna(5)), "rc", {}])
    elif kind == "palindrome":
        pal = rng.choice(["ACGT", "AATT", "GATC", "TGCA"])
        mods.append([module_seq(rng, site, spacer, pal, dna(12), spare[0], dna(5)), "pal", {}])
    elif kind == "missing" and k > 1:
        del mods[rng.randrange(1, k)]
    elif kind == "missing_first":
        del mods[0]
        if not mods:
            mods.append([module_seq(rng, site, spacer, spare[0], dna(12), spare[1], dna(5)), "lonely", {}])
    elif kind == "vector_same":
        vseq = vector_seq(rng, site, spacer, chain[0], dna(8), randcase(rng, chain[0], "mixed"), dna(20))
    elif kind == "invalid_module":
        mods[rng.randrange(k)][0] = dna(50)
    elif kind == "invalid_vector":
        vseq = dna(60)
    elif kind == "illegal_module":
        i = rng.randrange(k)
        mods[i][0] = module_seq(rng, site, spacer, chain[i], dna(5) + site + dna(5), chain[i + 1], dna(9))
    elif kind == "illegal_vector":
        vseq = vector_seq(rng, site, spacer, chain[0], dna(6), chain[k], dna(7) + site + dna(7))
    elif kind == "bad_citation_module":
        mods[rng.randrange(k)][2]["citations"] = rng.choice(["text", "empty", "range", "zero", "tail"])
    elif kind == "bad_citation_vector":
        vopts["citations"] = rng.choice(["text", "empty", "range", "zero", "tail"])
    elif kind == "duplicate_late_invalid":
        mods.insert(rng.randrange(len(mods) + 1), [module_seq(rng, site, spacer, chain[0], dna(12), spare[0], dna(5)), "dup", {}])
        mods.append([dna(40), "junk", {}])

    records = []
    modules = []
    for seq, ident, opts in mods:
        linear = kind == "linear_module" and rng.random() < 0.6
        rec = make_record(
            rng,
            randcase(rng, seq, case),
            ident,
            circular=not linear,
            topology="linear" if linear else rng.choice(["default", "circular"]),
            letters=rng.random() < 0.2,
            source=rng.random() < 0.2,
            **opts
        )
        records.append(rec)
        modules.append(mcls(rec))
    vrec = make_record(rng, randcase(rng, vseq, case), "vec", topology=rng.choice(["default", "circular"]), **vopts)
    records.append(vrec)
    vector = vcls(vrec)
    if kind == "twice":
        modules.append(modules[rng.randrange(len(modules))])
    rng.shuffle(modules)
    kwargs = rng.choice([{}, {}, {"name": "nm"}, {"id": "ident"}, {"id": "I", "name": "N"}])
    return vector, modules, kwargs, records


def run_assemblies(seed, count):
    rng = random.Random(seed)
    for n in range(count):
        kind = SCENARIOS[n % len(SCENARIOS)]
        vector, modules, kwargs, records = build_scenario(rng, kind)
        before = [dump_record(r) for r in records]
        attempt(("assemble", n, kind), lambda: vector.assemble(*modules, **kwargs), dump_record)
        after = [dump_record(r) for r in records]
        RESULTS.append(("mutation", n, before == after, after))
        # a second run on the same (possibly mutated) objects
        if n % 3 == 0:
            attempt(("assemble-again", n, kind), lambda: vector.assemble(*modules, **kwargs), dump_record)
        for m in modules[:2]:
            attempt(("m.valid", n), m.is_valid)
            attempt(("m.ovs", n), m.overhang_start, dump_record)
            attempt(("m.ove", n), m.overhang_end, dump_record)
            attempt(("m.target", n), m.target_sequence, dump_record)
        attempt(("v.valid", n), vector.is_valid)
        attempt(("v.ovs", n), vector.overhang_start, dump_record)
        attempt(("v.ove", n), vector.overhang_end, dump_record)
        attempt(("v.target", n), vector.target_sequence, dump_record)
        attempt(("v.placeholder", n), vector.placeholder_sequence, dump_record)


# --- focus: AbstractPart.structure / AbstractPart.characterize ---------------

import moclo.kits.ytk as ytk  # noqa: E402
import moclo.kits.ecoflex as ecoflex  # noqa: E402
import moclo.kits.cidar as cidar  # noqa: E402
import moclo.kits.moclo as ig  # noqa: E402
import moclo.kits.plant as plant  # noqa: E402
from moclo.core.modules import Cassette  # noqa: E402
from moclo.core.vectors import CassetteVector  # noqa: E402


def all_subclasses(cls):
    out = []
    for sub in cls.__subclasses__():
        out.append(sub)
        out.extend(all_subclasses(sub))
    return out


KIT_PARTS = sorted(
    {c for c in all_subclasses(AbstractPart) if c.__module__.startswith("moclo.kits")},
    key=lambda c: (c.__module__, c.__name__),
)


def dump_entity(entity):
    return (
        type(entity).__name__,
        entity.record.id,
        dump_record(entity.overhang_start()),
        dump_record(entity.overhang_end()),
        entity.is_valid(),
        dump_record(entity.target_sequence()),
    )


def run_structures():
    for cls in KIT_PARTS:
        attempt(("kit-structure", cls.__module__, cls.__name__), cls.structure)
    three = [e for e in sorted(AllEnzymes, key=str) if e.is_3overhang() and not e.is_unknown()][:25]
    five = [e for e in sorted(AllEnzymes, key=str) if e.is_5overhang() and not e.is_unknown()][:25]
    odd = [e for e in sorted(AllEnzymes, key=str) if e.is_blunt() or e.is_unknown()][:10]
    signatures = [("ATGC", "GGTA"), ("atgc", "NNNN"), ("A", "T"), ("", ""), ("{0}", "}{"), (Seq("ACGT"), Seq("TTAA")), ["AA", "CC"], NotImplemented, ("AAAA",), ("A", "B", "C"), None, "XY", 12]
    for enzyme in [BpiI, BsaI, BsmBI, SapI, BsrDI, EcoRV, NotImplemented] + three + five + odd:
        for sig in signatures:
            for bases in ((Entry,), (EntryVector,), (Entry, EntryVector), (EntryVector, Entry), (), (Cassette,), (CassetteVector,)):
                def build():
                    cls = type(str("Custom"), (AbstractPart,) + bases, {"cutter": enzyme, "signature": sig})
                    return cls.structure()
                attempt(("structure", str(enzyme), repr(sig), [b.__name__ for b in bases]), build)


# a user-defined hierarchy --------------------------------------------------


class Base(AbstractPart):
    cutter = BsaI
    signature = NotImplemented


class PartA(Base, Entry):
    signature = ("ATGC", "GGTA")


class PartB(Base, Entry):
    signature = ("GGTA", "CCAT")

    def __len__(self):  # a falsy, yet valid, entity
        return 0


class PartC(Base, Entry):
    signature = ("CCAT", "TTGA")

    def __call__(self, *args):  # instances are callable
        raise AssertionError("should never be called")

    def is_valid(self):  # truthy but not a bool
        return "yes" if super(PartC, self).is_valid() else ""


class PartV(Base, EntryVector):
    signature = ("ATGC", "TTGA")


class Concrete(AbstractPart, Entry):
    cutter = BsaI
    signature = ("ACCA", "TGGT")


class ConcreteChild(Concrete):
    signature = ("TGGT", "CAAC")


class Fragile(AbstractPart):
    cutter = BsaI
    signature = NotImplemented


class FragileGood(Fragile, Entry):
    signature = ("ATGC", "GGTA")


class FragileBroken(Fragile, Entry):
    cutter = EcoRV  # blunt: instantiation fails
    signature = ("GGTA", "CCAT")


class FragileLate(Fragile, Entry):
    signature = ("GGTA", "CCAT")


class Hollow(AbstractPart):
    cutter = BsaI
    signature = ("ATGC", "GGTA")


class Childless(AbstractPart):
    cutter = BsaI
    signature = NotImplemented


def part_record(rng, signature, vector=False, enzyme="BsaI", ident="rec"):
    _, site, spacer = ENZYMES[enzyme]
    up, down = signature
    if vector:
        # <down sig> N <rc site> placeholder <site> N <up sig>
        seq = vector_seq(rng, site, spacer, down, clean_dna(rng, rng.randrange(0, 12)), up, clean_dna(rng, rng.randrange(2, 20)))
    else:
        seq = module_seq(rng, site, spacer, up, clean_dna(rng, rng.randrange(2, 25)), down, clean_dna(rng, rng.randrange(0, 20)))
    rec = CircularRecord(Seq(randcase(rng, seq, rng.choice(["upper", "upper", "lower", "mixed"]))), id=ident, name=ident)
    decorate(rng, rec)
    return rec >> rng.randrange(0, len(rec))


def run_characterize(seed, count):
    rng = random.Random(seed)
    ytk_parts = [c for c in KIT_PARTS if c.__module__.endswith("ytk") and c.signature is not NotImplemented]
    eco_parts = [c for c in KIT_PARTS if c.__module__.endswith("ecoflex") and c.signature is not NotImplemented]
    bases = [ytk.YTKPart, ecoflex.EcoFlexPart, cidar.CIDARPart, ig.MoCloPart, Base, Concrete, ConcreteChild, Fragile, Hollow, Childless, AbstractPart, PartA, PartC]
    for n in range(count):
        r = rng.random()
        if r < 0.3:
            src = rng.choice(ytk_parts)
            sig, vec = src.signature, issubclass(src, AbstractVector)
        elif r < 0.45:
            src = rng.choice(eco_parts)
            sig, vec = src.signature, issubclass(src, AbstractVector)
        elif r < 0.85:
            src = rng.choice([PartA, PartB, PartC, PartV, Concrete, ConcreteChild, FragileGood, FragileLate])
            sig, vec = src.signature, issubclass(src, AbstractVector)
        elif r < 0.95:
            src = None
            sig, vec = tuple(distinct_overhangs(rng, 2)), rng.random() < 0.3
        else:
            src = None
            sig, vec = None, False
        if sig is None:
            rec = CircularRecord(Seq(clean_dna(rng, rng.randrange(1, 60))), id="junk%d" % n)
        else:
            rec = part_record(rng, sig, vector=vec, ident="p%d" % n)
        for base in bases:
            before = dump_record(rec)
            attempt(("characterize", n, base.__name__, getattr(src, "__name__", None)), lambda: base.characterize(rec), dump_entity)
            RESULTS.append(("char-mutation", n, dump_record(rec) == before))


run_structures()
run_characterize(1604, 150)
run_assemblies(1614, 60)
finish()
