# coding: utf-8
"""Differential test for the code behind `AbstractVector.assemble`.

Exercises, through the existing API only: module / vector accessors (overhangs,
target / placeholder sequences), assemblies (successful, warning, failing at
every point of the chain), the citation helpers of the assembly manager, the
`CircularRecord` operations the fragments are made with, the exceptions of
`moclo.errors`, every kit class and every bundled registry.

Prints a digest (sha256) of everything observed: results, exception types,
messages, args, warnings, and the state of the inputs afterwards. Run with
`--dump` to get every observation on its own line.
"""
import sys

sys.path.insert(0, "/tmp/agents9/C07")
import tests  # noqa: F401,E402  (splices the kits in the moclo namespace)

import copy  # noqa: E402
import hashlib  # noqa: E402
import inspect  # noqa: E402
import os  # noqa: E402
import random  # noqa: E402
import re  # noqa: E402
import warnings  # noqa: E402

from Bio.Seq import Seq  # noqa: E402
from Bio.SeqFeature import (  # noqa: E402
    SeqFeature,
    FeatureLocation,
    CompoundLocation,
    Reference,
)
from Bio.SeqRecord import SeqRecord  # noqa: E402
from Bio.Restriction import BpiI, BsaI, BsmBI, BtsI, SapI  # noqa: E402

from moclo import errors  # noqa: E402
from moclo.record import CircularRecord  # noqa: E402
from moclo.core import _assembly, _utils as core_utils  # noqa: E402
from moclo.core.modules import AbstractModule  # noqa: E402
from moclo.core.vectors import AbstractVector  # noqa: E402
from moclo.core._structured import StructuredRecord  # noqa: E402

warnings.simplefilter("ignore")

LINES = []


def emit(*parts):
    line = " | ".join(str(p) for p in parts)
    LINES.append(re.sub(r" at 0x[0-9a-fA-F]+", " at 0x?", line))


# --- descriptions -----------------------------------------------------------


def d_ref(ref):
    return "Ref<{}|{}|{}|{}|{}>".format(
        ref.title, ref.authors, ref.journal, ref.pubmed_id, [str(x) for x in ref.location]
    )


def d_val(value):
    if isinstance(value, Reference):
        return d_ref(value)
    if isinstance(value, (list, tuple)):
        return "{}[{}]".format(type(value).__name__, ", ".join(d_val(v) for v in value))
    if isinstance(value, dict):
        return "{{{}}}".format(
            ", ".join("{}: {}".format(k, d_val(value[k])) for k in sorted(value, key=str))
        )
    if isinstance(value, (Seq,)):
        return "Seq({})".format(str(value))
    if isinstance(value, SeqRecord):
        return d_rec(value)
    if isinstance(value, StructuredRecord):
        return "{}<{}>".format(type(value).__name__, value.record.id)
    return repr(value)


def d_feat(feat):
    return "F({}|{}|{}|{})".format(
        feat.type,
        feat.location,
        feat.id,
        ", ".join("{}={}".format(k, d_val(v)) for k, v in feat.qualifiers.items()),
    )


def d_rec(rec):
    if rec is None:
        return "None"
    if not isinstance(rec, SeqRecord):
        return d_val(rec)
    return "{}(seq={} id={} name={} desc={} dbxrefs={} ann={} letter={} feats=[{}])".format(
        type(rec).__name__,
        str(rec.seq),
        rec.id,
        rec.name,
        rec.description,
        rec.dbxrefs,
        ", ".join("{}: {}".format(k, d_val(v)) for k, v in rec.annotations.items()),
        ", ".join("{}: {}".format(k, d_val(v)) for k, v in rec.letter_annotations.items()),
        "; ".join(d_feat(f) for f in rec.features),
    )


def safe_str(obj):
    try:
        return str(obj)
    except Exception as err:  # noqa
        return "<str failed: {} {}>".format(type(err).__name__, err)


def d_exc(exc):
    out = [type(exc).__name__, safe_str(exc), "args=" + d_val(list(exc.args))]
    for attr in ("details", "exc", "start_overhang"):
        if hasattr(exc, attr):
            out.append("{}={}".format(attr, d_val(getattr(exc, attr))))
    for attr in ("duplicates", "remaining"):
        if hasattr(exc, attr):
            out.append("{}={}".format(attr, d_val(list(getattr(exc, attr)))))
    if hasattr(exc, "sequence"):
        out.append("sequence=" + d_val(exc.sequence))
    out.append("cause={}".format(type(exc.__cause__).__name__))
    out.append("context={}".format(type(exc.__context__).__name__))
    out.append("suppress={}".format(exc.__suppress_context__))
    return " ".join(out)


def d_warn(w):
    return "W({} {} {} file={})".format(
        w.category.__name__,
        d_exc(w.message) if isinstance(w.message, errors.MocloError) else str(w.message),
        type(w.message).__name__,
        os.path.basename(w.filename),
    )


def observe(label, func, *args, **kwargs):
    """Call func, describe the outcome (result or exception, and warnings)."""
    action = kwargs.pop("_action", "always")
    with warnings.catch_warnings(record=True) as caught:
        warnings.simplefilter(action)
        warnings.simplefilter("ignore", DeprecationWarning)
        try:
            result = func(*args, **kwargs)
            emit(label, "OK", d_val(result))
        except Exception as exc:  # noqa
            result = exc
            emit(label, "EXC", d_exc(exc))
    for w in caught:
        emit(label, d_warn(w))
    return result


# --- input generation -------------------------------------------------------

RNG = random.Random(20240907)


def revcomp(s):
    return str(Seq(s).reverse_complement())


def randseq(n, forbidden=()):
    while True:
        s = "".join(RNG.choice("ACGT") for _ in range(n))
        up = s.upper()
        if not any(f in up or revcomp(f) in up for f in forbidden):
            return s


def recase(s, mode):
    if mode == 0:
        return s
    if mode == 1:
        return s.lower()
    return "".join(c.lower() if RNG.random() < 0.5 else c for c in s)


def make_reference(i, span=None):
    ref = Reference()
    ref.title = "Paper number {}".format(i)
    ref.authors = "Author {} et al.".format(i)
    ref.journal = "J. Synth. Biol. {}".format(i)
    ref.pubmed_id = str(1000 + i)
    if span is not None:
        ref.location = [FeatureLocation(*span)]
    return ref


class Kit(object):
    """Mock classes around one enzyme."""

    def __init__(self, cutter, site, spacer, ovh_len, custom=False):
        self.cutter, self.site, self.spacer, self.ovh_len = cutter, site, spacer, ovh_len
        self.rsite = revcomp(site)
        ns = dict(cutter=cutter)
        if custom:
            n = "N" * ovh_len
            mod_struct = "{}({})(N*)({}){}".format(site, n, n, self.rsite)
            vec_struct = "({}){}(N*){}({})".format(n, self.rsite, site, n)
            self.Module = type(
                str("M_" + str(cutter)),
                (AbstractModule,),
                dict(ns, structure=classmethod(lambda cls: mod_struct)),
            )
            self.Vector = type(
                str("V_" + str(cutter)),
                (AbstractVector,),
                dict(ns, structure=classmethod(lambda cls: vec_struct)),
            )
        else:
            self.Module = type(str("M_" + str(cutter)), (AbstractModule,), dict(ns))
            self.Vector = type(str("V_" + str(cutter)), (AbstractVector,), dict(ns))

    def sp(self):
        return randseq(self.spacer)

    def module_seq(self, start, end, insert_len, bb_len):
        forb = (self.site,)
        return (
            randseq(bb_len, forb)[: bb_len // 2]
            + self.site
            + self.sp()
            + start
            + self.safe(insert_len)
            + end
            + self.sp()
            + self.rsite
            + self.safe(bb_len - bb_len // 2)
        )

    def vector_seq(self, end, start, drop_len, bb_len):
        # (end overhang) spacer rsite dropout site spacer (start overhang)
        return (
            self.safe(bb_len // 2)
            + end
            + self.sp()
            + self.rsite
            + self.safe(drop_len)
            + self.site
            + self.sp()
            + start
            + self.safe(bb_len - bb_len // 2)
        )

    def safe(self, n):
        # sequence which can be put next to anything without creating a site
        for _ in range(1000):
            s = randseq(n, (self.site,))
            if n == 0 or (s[0] in "AT" and s[-1] in "AT"):
                return s
        return "A" * n


def decorate(rec, n_refs, cites, with_refs_key=True, extra=True):
    """Add features (some citing references) and annotations to a record."""
    length = len(rec)
    if n_refs or with_refs_key:
        rec.annotations["references"] = [make_reference(i + 1, (0, length)) for i in range(n_refs)]
    rec.annotations["molecule_type"] = "DNA"
    if extra:
        rec.annotations["keywords"] = ["golden", "gate"]
        rec.annotations["organism"] = "Escherichia coli"
        rec.dbxrefs.append("db:{}".format(rec.id))
    step = max(length // (len(cites) + 2), 1)
    for k, cite in enumerate(cites):
        a = (k * step) % length
        b = min(a + max(step // 2, 1), length)
        quals = {"label": ["feat{} of {}".format(k, rec.id)], "note": ["n{}".format(k)]}
        if cite is not None:
            quals["citation"] = list(cite)
        rec.features.append(
            SeqFeature(
                FeatureLocation(a, b, strand=RNG.choice((1, -1))),
                type=RNG.choice(("CDS", "promoter", "misc_feature")),
                id="f{}".format(k),
                qualifiers=quals,
            )
        )
    # one feature spanning everything, one wrapping the origin, one of type source
    rec.features.append(SeqFeature(FeatureLocation(0, length), type="source", qualifiers={"organism": ["x"]}))
    if length > 8:
        rec.features.append(
            SeqFeature(
                CompoundLocation([FeatureLocation(length - 3, length, 1), FeatureLocation(0, 3, 1)]),
                type="misc_feature",
                qualifiers={"label": ["wrap"], "citation": ["[1]"]} if n_refs else {"label": ["wrap"]},
            )
        )
    return rec


def as_record(seq, id_, circular=True, rotate=0, topology=None):
    seq = seq[rotate:] + seq[:rotate] if rotate else seq
    if circular:
        rec = CircularRecord(Seq(seq), id=id_, name=id_ + "_name", description="desc of " + id_)
    else:
        rec = SeqRecord(Seq(seq), id=id_, name=id_ + "_name", description="desc of " + id_)
    if topology is not None:
        rec.annotations["topology"] = topology
    return rec


def snapshot(objs):
    return "; ".join(d_rec(o.record) for o in objs)


# --- 1. synthetic kits ------------------------------------------------------

KITS = [
    Kit(BpiI, "GAAGAC", 2, 4),
    Kit(BsaI, "GGTCTC", 1, 4),
    Kit(BsmBI, "CGTCTC", 1, 4),
    Kit(SapI, "GCTCTTC", 1, 3),
    Kit(BtsI, "GCAGTG", 0, 2, custom=True),  # 3' overhang, custom structure
    Kit(BtsI, "GCAGTG", 0, 2),  # 3' overhang, default structure (not supported)
]

OVH4 = ["ATGC", "CGTA", "GGAC", "TTCA", "AGGT", "CATT"]
OVH3 = ["ATG", "CGT", "GGA", "TTC", "AGG"]
OVH2 = ["AC", "GA", "CC", "AT", "TC"]


def overhangs_for(kit):
    return {4: OVH4, 3: OVH3, 2: OVH2}[kit.ovh_len]


def accessors(label, obj, vector=False):
    observe(label + ".is_valid", obj.is_valid)
    observe(label + ".overhang_start", obj.overhang_start)
    observe(label + ".overhang_end", obj.overhang_end)
    t1 = observe(label + ".target_sequence", obj.target_sequence)
    t2 = observe(label + ".target_sequence#2", obj.target_sequence)
    if isinstance(t1, SeqRecord) and isinstance(t2, SeqRecord):
        emit(label + ".target fresh", t1 is not t2)
    if vector:
        observe(label + ".placeholder_sequence", obj.placeholder_sequence)
    emit(label + ".state", d_rec(obj.record))


def run_synthetic():
    for ki, kit in enumerate(KITS):
        ovhs = overhangs_for(kit)
        for trial in range(12):
            n_mod = 1 + trial % 4
            case_mode = trial % 3
            chain = ovhs[: n_mod + 1]
            label = "syn{}.{}".format(ki, trial)
            with_cites = trial % 2 == 0
            # vector: ends with chain[0], starts with chain[-1]
            vseq = recase(kit.vector_seq(chain[0], chain[-1], 10 + trial, 30 + trial), case_mode)
            rot = RNG.randrange(len(vseq)) if trial % 4 in (1, 2) else 0
            if trial % 4 == 3:
                # make the match wrap the origin: rotate inside the dropout
                rot = vseq.upper().find(kit.rsite) + len(kit.rsite) + 3
            vrec = as_record(vseq, label + "v", rotate=rot, topology=None if trial % 5 else "circular")
            decorate(vrec, 2 if with_cites else 0, [["[2]"], None, ["[1]", "[2]"]] if with_cites else [None, None], with_refs_key=trial % 3 == 0)
            vector = kit.Vector(vrec)
            modules = []
            for j in range(n_mod):
                mseq = recase(kit.module_seq(chain[j], chain[j + 1], 8 + j + trial, 24 + j), (case_mode + j) % 3)
                mrot = RNG.randrange(len(mseq)) if (trial + j) % 3 else 0
                if (trial + j) % 5 == 4:
                    mrot = mseq.upper().find(kit.site) + len(kit.site) + kit.spacer + kit.ovh_len + 2
                mrec = as_record(mseq, "{}m{}".format(label, j), rotate=mrot)
                if with_cites:
                    decorate(mrec, 3, [["[3]"], ["[1]"], None, ["[2]", "[2]"]], extra=j % 2 == 0)
                else:
                    decorate(mrec, 0, [None], with_refs_key=j % 2 == 0, extra=False)
                modules.append(kit.Module(mrec))
            accessors(label + ".vec", vector, vector=True)
            for j, m in enumerate(modules):
                accessors("{}.mod{}".format(label, j), m)

            inputs = modules + [vector]
            order = list(modules)
            RNG.shuffle(order)
            observe(label + ".assemble", vector.assemble, *order)
            emit(label + ".after", snapshot(inputs))
            observe(label + ".assemble again", vector.assemble, *order, id="again", name="nm")
            emit(label + ".after again", snapshot(inputs))

            # missing module after j consumed modules
            for j in range(n_mod):
                subset = modules[:j] + modules[j + 1 :]
                if subset:
                    observe("{}.missing{}".format(label, j), vector.assemble, *subset)
                    emit("{}.missing{}.after".format(label, j), snapshot(inputs))
                    observe("{}.missing{}.err".format(label, j), vector.assemble, *subset, _action="error")
                    emit("{}.missing{}.err.after".format(label, j), snapshot(inputs))
            # duplicates: same module object twice is fine, a copy is not
            dup = kit.Module(copy.deepcopy(modules[0].record))
            dup.record.id = label + "dup"
            observe(label + ".duplicate", vector.assemble, *(modules + [dup]))
            emit(label + ".duplicate.after", snapshot(inputs + [dup]))
            observe(label + ".same twice", vector.assemble, *(modules + [modules[0]]))
            # reverse-complementing overhangs
            rc = kit.Module(
                as_record(kit.module_seq(revcomp(chain[0]), ovhs[-1], 9, 20), label + "rc")
            )
            observe(label + ".revcomp", vector.assemble, *(modules + [rc]))
            emit(label + ".revcomp.after", snapshot(inputs + [rc]))
            # unused module (warning, then warning as error)
            extra = kit.Module(
                decorate(as_record(kit.module_seq(ovhs[-1], ovhs[-2], 9, 20), label + "extra"), 1, [["[1]"]])
            )
            observe(label + ".unused", vector.assemble, *(modules + [extra]))
            emit(label + ".unused.after", snapshot(inputs + [extra]))
            observe(label + ".unused.err", vector.assemble, *(modules + [extra]), _action="error")
            emit(label + ".unused.err.after", snapshot(inputs + [extra]))
            # invalid module (no site), module with an illegal site, linear module
            bad = kit.Module(decorate(as_record(randseq(40, (kit.site,)), label + "bad"), 1, [["[1]"]]))
            observe(label + ".invalid module", vector.assemble, *(modules[1:] + [bad]))
            emit(label + ".invalid module.after", snapshot(inputs + [bad]))
            ill_seq = kit.module_seq(chain[0], chain[1], 10, 20)
            cut = ill_seq.upper().find(kit.site) + len(kit.site) + kit.spacer + kit.ovh_len + 3
            ill = kit.Module(as_record(ill_seq[:cut] + kit.site + "A" + ill_seq[cut:], label + "ill"))
            observe(label + ".illegal module", vector.assemble, *(modules[1:] + [ill]))
            lin = kit.Module(
                as_record(kit.module_seq(chain[0], chain[1], 10, 20), label + "lin", circular=False, topology="linear")
            )
            observe(label + ".linear module", vector.assemble, *(modules[1:] + [lin]))
            plain = kit.Module(as_record(kit.module_seq(chain[0], chain[1], 10, 20), label + "plain", circular=False))
            observe(label + ".plain SeqRecord module", vector.assemble, *(modules[1:] + [plain]))
            emit(label + ".plain.after", snapshot(inputs + [plain]))
            # invalid vector: same overhang on both sides
            same = kit.Vector(
                decorate(as_record(kit.vector_seq(chain[0], chain[0], 12, 30), label + "same"), 1, [["[1]"]])
            )
            observe(label + ".invalid vector", same.assemble, *modules)
            emit(label + ".invalid vector.after", snapshot(inputs + [same]))
            novec = kit.Vector(as_record(randseq(50, (kit.site,)), label + "novec"))
            observe(label + ".not a vector", novec.assemble, *modules)
            # arbitrary exception raised by the j-th fragment extraction
            for exc_type in (RuntimeError, KeyError, ZeroDivisionError):
                for j in range(n_mod):

                    class Exploding(kit.Module):
                        def target_sequence(self):
                            raise exc_type("boom in {}".format(self.record.id))

                    Exploding.__name__ = str("Exploding")
                    broken = list(modules)
                    broken[j] = Exploding(modules[j].record)
                    observe(
                        "{}.explode{}.{}".format(label, j, exc_type.__name__), vector.assemble, *broken
                    )
                    emit("{}.explode{}.after".format(label, j), snapshot(inputs))

            class ExplodingVector(kit.Vector):
                def target_sequence(self):
                    raise RuntimeError("vector boom")

            ExplodingVector.__name__ = str("ExplodingVector")
            observe(label + ".explode vector", ExplodingVector(vrec).assemble, *modules)
            emit(label + ".explode vector.after", snapshot(inputs))
            # retry after the failures: same result as the very first call?
            observe(label + ".assemble retry", vector.assemble, *modules)
            emit(label + ".after retry", snapshot(inputs))


# --- 2. the assembly manager and its citation helpers ------------------------


def run_manager():
    kit = KITS[0]
    vec = kit.Vector(decorate(as_record(kit.vector_seq("ATGC", "CGTA", 10, 30), "mv"), 2, [["[1]"], ["[2]"]]))
    mod = kit.Module(decorate(as_record(kit.module_seq("ATGC", "CGTA", 10, 30), "mm"), 2, [["[2]"]]))
    old = ["_CITATION_RX", "_annotate_assembly", "_deref_citations", "_generate_assembly", "_generate_modules_map", "_ref_citations", "assemble"]
    emit("manager members", [n for n in old if hasattr(_assembly.AssemblyManager, n)])
    emit("manager sig", str(inspect.signature(_assembly.AssemblyManager.__init__)))
    emit("assembly module names", [n for n in ("re", "warnings", "six", "Seq", "SeqRecord", "CircularRecord", "errors", "catch_warnings", "BiopythonWarning", "AssemblyManager", "__version__") if hasattr(_assembly, n)])
    emit("rx", _assembly.AssemblyManager._CITATION_RX.pattern)
    mgr = observe("manager()", _assembly.AssemblyManager, vec, [mod])
    mgr = _assembly.AssemblyManager(vec, [mod], "theid", "thename")
    emit("manager attrs", mgr.id, mgr.name, mgr.vector is vec, mgr.modules == [mod], mgr.elements == [mod, vec])
    observe("manager positional", _assembly.AssemblyManager(vec, [mod], "theid", "thename").assemble)
    observe("manager kw", _assembly.AssemblyManager(vector=vec, modules=[mod], id_="i", name="n").assemble)
    observe("manager tuple modules", _assembly.AssemblyManager, vec, (mod,))
    observe("manager bad kw", lambda: _assembly.AssemblyManager(vec, [mod], id="x"))
    observe("manager map", lambda: sorted((str(k), v.record.id) for k, v in mgr._generate_modules_map().items()))
    observe("manager twice", mgr.assemble)
    observe("manager twice#2", mgr.assemble)
    emit("manager inputs after", snapshot([mod, vec]))

    # citation helpers on hand-made records
    cases = {
        "plain": (2, [["[1]"], ["[2]", "[1]"], None]),
        "norefs": (0, [None, None]),
        "empty": (2, [[], None]),
        "bad syntax": (2, [["[1]"], ["(2)"]]),
        "empty index": (2, [["[]"]]),
        "out of range": (2, [["[1]"], ["[7]"]]),
        "zero": (2, [["[0]"]]),
        "trailing": (2, [["[2] and more"]]),
        "string": (2, ["[1]"]),
        "tuple": (2, [("[1]",)]),
    }
    for name, (n_refs, cites) in sorted(cases.items()):
        for keep_key in (True, False):
            rec = decorate(as_record(randseq(40), "cit"), n_refs, cites, with_refs_key=keep_key)
            label = "cit.{}.{}".format(name, keep_key)
            observe(label + ".deref", mgr._deref_citations, rec)
            emit(label + ".deref.state", d_rec(rec))
            observe(label + ".ref", mgr._ref_citations, rec)
            emit(label + ".ref.state", d_rec(rec))
            observe(label + ".ref again", mgr._ref_citations, rec)
            emit(label + ".ref again.state", d_rec(rec))
    # equal and identical references, references unknown to the record
    rec = decorate(as_record(randseq(40), "eq"), 0, [None, None, None, None])
    a, b = make_reference(1), make_reference(1)
    rec.annotations["references"] = [a, b, make_reference(2)]
    for feat, cite in zip(rec.features, (["[2]"], ["[1]"], ["[3]"], ["[2]", "[3]"])):
        feat.qualifiers["citation"] = cite
    observe("cit.equal.deref", mgr._deref_citations, rec)
    emit("cit.equal.state", d_rec(rec), [f.qualifiers.get("citation", [None])[0] is b for f in rec.features])
    observe("cit.equal.ref", mgr._ref_citations, rec)
    emit("cit.equal.state2", d_rec(rec))
    rec = decorate(as_record(randseq(40), "unk"), 1, [None, None, None])
    rec.features[0].qualifiers["citation"] = [make_reference(5)]
    rec.features[1].qualifiers["citation"] = [make_reference(6), make_reference(5), "free text"]
    rec.features[2].qualifiers["citation"] = [rec.annotations["references"][0]]
    observe("cit.unknown.ref", mgr._ref_citations, rec)
    emit("cit.unknown.state", d_rec(rec))
    # plain SeqRecord, record without features
    rec = SeqRecord(Seq("ATGC"), id="bare")
    observe("cit.bare.deref", mgr._deref_citations, rec)
    observe("cit.bare.ref", mgr._ref_citations, rec)
    emit("cit.bare.state", d_rec(rec))

    # assembling inputs with broken citations
    for name in ("bad syntax", "out of range"):
        n_refs, cites = cases[name]
        v = kit.Vector(decorate(as_record(kit.vector_seq("ATGC", "CGTA", 10, 30), "bv"), 2, [["[1]"]]))
        m = kit.Module(decorate(as_record(kit.module_seq("ATGC", "CGTA", 10, 30), "bm"), n_refs, cites))
        observe("broken citations " + name, v.assemble, m)
        emit("broken citations after " + name, snapshot([m, v]))


# --- 3. helpers, records, errors ---------------------------------------------


def run_misc():
    # add_as_source / cutter_check
    for loc in (None, FeatureLocation(1, 3), FeatureLocation(0, 0)):
        src = as_record("ATGCATGC", "src")
        dst = SeqRecord(Seq("ATGCAT"), id="dst")
        out = observe("add_as_source {}".format(loc), core_utils.add_as_source, src, dst, loc)
        emit("add_as_source same object", out is dst, d_rec(src))
    observe("add_as_source kw", core_utils.add_as_source, src_record=src, dst_record=SeqRecord(Seq("AT"), id="d2"), location=None)
    observe("add_as_source bad kw", lambda: core_utils.add_as_source(source=src, destination=dst))
    emit("add_as_source sig", str(inspect.signature(core_utils.add_as_source)))
    from Bio.Restriction import EcoRV, BsaI as _BsaI

    observe("cutter_check NotImplemented", core_utils.cutter_check, NotImplemented, "Foo")
    observe("cutter_check blunt", core_utils.cutter_check, EcoRV, "Foo")
    observe("cutter_check ok", core_utils.cutter_check, _BsaI, "Foo")
    observe("abstract module", lambda: AbstractModule(as_record("ATGC", "x")))
    observe("abstract vector", lambda: AbstractVector(as_record("ATGC", "x")))

    # records
    for trial in range(30):
        n = 12 + trial
        rec = decorate(as_record(recase(randseq(n), trial % 3), "r{}".format(trial)), 2, [["[1]"], None, ["[2]"]])
        rec.letter_annotations["phred_quality"] = list(range(n))
        k = RNG.randrange(-2 * n, 2 * n)
        label = "rec{}".format(trial)
        rot = observe(label + " >> {}".format(k), lambda: rec >> k)
        observe(label + " << {}".format(k), lambda: rec << k)
        if isinstance(rot, SeqRecord):
            emit(
                label + " sharing",
                rot is rec,
                rot.annotations is rec.annotations,
                [a.qualifiers is b.qualifiers for a, b in zip(rot.features, rec.features)],
            )
        a, b = sorted((RNG.randrange(n), RNG.randrange(n)))
        sl = observe(label + " [{}:{}]".format(a, b), lambda: rec[a:b])
        observe(label + " [:{}]".format(b), lambda: rec[:b])
        observe(label + " [{}:]".format(a), lambda: (rec << a)[b - a :])
        observe(label + " [{}]".format(a), lambda: rec[a])
        if isinstance(sl, SeqRecord):
            cites_in = [id(f.qualifiers.get("citation")) for f in rec.features if "citation" in f.qualifiers]
            emit(
                label + " slice independent",
                type(sl).__name__,
                all(id(f.qualifiers.get("citation")) not in cites_in for f in sl.features),
            )
        cp = observe(label + " copy", CircularRecord, rec)
        if isinstance(cp, SeqRecord):
            emit(label + " copy independent", cp.annotations is not rec.annotations, all(x is not y for x, y in zip(cp.features, rec.features)))
        observe(label + " revcomp", rec.reverse_complement)
        observe(label + " contains", lambda: (str(rec.seq)[-2:] + str(rec.seq)[:2]) in rec)
        observe(label + " add", lambda: rec + "A")
        observe(label + " radd", lambda: "A" + rec)
        emit(label + " state", d_rec(rec))
    observe("rec linear", lambda: CircularRecord(SeqRecord(Seq("ATGC"), annotations={"topology": "linear"})))
    observe("rec Linear caps", lambda: CircularRecord(Seq("ATGC"), annotations={"topology": "LINEAR"}))

    # errors
    kit = KITS[0]
    m1 = kit.Module(as_record("ATGC", "e1"))
    m2 = kit.Module(as_record("ATGC", "e2"))
    for label, make in [
        ("InvalidSequence", lambda: errors.InvalidSequence("ATGC")),
        ("InvalidSequence details", lambda: errors.InvalidSequence("ATGC", details="some {} details")),
        ("InvalidSequence exc", lambda: errors.InvalidSequence("ATGC", ValueError("x"), "d")),
        ("InvalidSequence kw", lambda: errors.InvalidSequence(sequence=Seq("AT"), exc=None, details=None)),
        ("InvalidSequence details int", lambda: errors.InvalidSequence("ATGC", details=3)),
        ("InvalidSequence none", lambda: errors.InvalidSequence()),
        ("IllegalSite", lambda: errors.IllegalSite(Seq("ATGC"))),
        ("IllegalSite details", lambda: errors.IllegalSite(Seq("ATGC"), details="why")),
        ("DuplicateModules", lambda: errors.DuplicateModules(m1, m2)),
        ("DuplicateModules details", lambda: errors.DuplicateModules(m1, m2, details="same")),
        ("DuplicateModules empty", lambda: errors.DuplicateModules()),
        ("DuplicateModules other kw", lambda: errors.DuplicateModules(m1, foo=1)),
        ("DuplicateModules bad", lambda: errors.DuplicateModules("notamodule")),
        ("MissingModule", lambda: errors.MissingModule("ATGC")),
        ("MissingModule seq", lambda: errors.MissingModule(Seq("ATGC"), details="dd")),
        ("MissingModule kw", lambda: errors.MissingModule(start_overhang="AA")),
        ("MissingModule none", lambda: errors.MissingModule()),
        ("MissingModule two", lambda: errors.MissingModule("A", "B")),
        ("UnusedModules", lambda: errors.UnusedModules(m1, m2)),
        ("UnusedModules details", lambda: errors.UnusedModules(m1, details=42)),
        ("UnusedModules empty", lambda: errors.UnusedModules()),
    ]:
        exc = observe("errors." + label, make)
        if isinstance(exc, Exception) and type(exc).__module__ == "moclo.errors":
            observe("errors." + label + ".str", str, exc)
            emit("errors." + label, d_exc(exc) if not label.endswith("bad") else type(exc).__name__)
            emit(
                "errors." + label + ".mro",
                [c.__name__ for c in type(exc).__mro__],
                isinstance(exc, ValueError),
                isinstance(exc, RuntimeError),
                isinstance(exc, Warning),
            )
    emit("errors names", sorted(n for n in dir(errors) if not n.startswith("_")))


# --- 4. kits and registries ---------------------------------------------------


def run_kits():
    import pkgutil
    import importlib
    import moclo.kits
    import moclo.registry
    from moclo.registry.base import EmbeddedRegistry

    kit_classes = []
    for info in sorted(pkgutil.iter_modules(moclo.kits.__path__), key=lambda i: i.name):
        mod = importlib.import_module("moclo.kits." + info.name)
        for name in sorted(dir(mod)):
            obj = getattr(mod, name)
            if isinstance(obj, type) and issubclass(obj, StructuredRecord) and obj.__module__ == mod.__name__:
                kit_classes.append(obj)
                observe("kit {}.{} structure".format(info.name, name), obj.structure)
                emit(
                    "kit {}.{}".format(info.name, name),
                    [c.__name__ for c in obj.__mro__],
                    str(obj.cutter),
                )
    registries = []
    for info in sorted(pkgutil.iter_modules(moclo.registry.__path__), key=lambda i: i.name):
        if info.name in ("base", "_utils", "elabftw"):
            continue
        mod = importlib.import_module("moclo.registry." + info.name)
        for name in sorted(dir(mod)):
            obj = getattr(mod, name)
            if isinstance(obj, type) and issubclass(obj, EmbeddedRegistry) and obj is not EmbeddedRegistry and obj.__module__ == mod.__name__:
                registries.append((info.name + "." + name, obj()))
    probes = []
    for rname, registry in registries:
        items = [registry[key] for key in sorted(registry)]
        emit("registry", rname, len(items))
        vectors, modules = [], []
        for item in items:
            ent = item.entity
            label = "reg {} {}".format(rname, item.id)
            emit(label, type(ent).__name__, item.name, item.resistance)
            is_vec = isinstance(ent, AbstractVector)
            observe(label + ".overhang_start", ent.overhang_start)
            observe(label + ".overhang_end", ent.overhang_end)
            observe(label + ".target_sequence", ent.target_sequence)
            if is_vec:
                observe(label + ".placeholder_sequence", ent.placeholder_sequence)
                vectors.append(ent)
            else:
                modules.append(ent)
        probes.extend(items[:2])
        # (mostly failing) assemblies through the kit classes
        for i, vec in enumerate(vectors[:6]):
            mods = [modules[(i * 3 + k) % len(modules)] for k in range(3)] if modules else []
            if mods:
                observe("reg {} assemble {}".format(rname, vec.record.id), vec.assemble, *mods)
                emit("reg {} assemble {} after".format(rname, vec.record.id), snapshot(mods + [vec]))
    # every kit class against a few records
    for cls in kit_classes:
        for item in probes:
            observe("valid {} {}".format(cls.__name__, item.id), lambda: cls(item.entity.record).is_valid())

    # a real assembly, with citations added to the official plasmids
    from moclo.kits import ytk
    from tests._utils import AssemblyTestCase

    result, vector, modules = AssemblyTestCase("load_data").load_data("ytk_integration_vector")
    classes = {
        "pYTK008.gb": ytk.YTKPart1,
        "pYTK047.gb": ytk.YTKPart234r,
        "pYTK073.gb": ytk.YTKPart5,
        "pYTK074.gb": ytk.YTKPart6,
        "pYTK086.gb": ytk.YTKPart7,
        "pYTK090.gb": ytk.YTKPart8a,
        "pYTK092.gb": ytk.YTKPart8b,
    }
    emit("ytk case", sorted(modules))
    mods = []
    for key in sorted(modules):
        rec = modules[key]
        decorate(rec, 2, [["[2]"], ["[1]"]])
        cls = classes.get(key)
        if cls is not None:
            mods.append(cls(rec))
    decorate(vector, 1, [["[1]"]])
    vec = ytk.YTKCassetteVector(vector)
    asm = observe("ytk assemble", vec.assemble, *mods)
    if isinstance(asm, SeqRecord):
        emit("ytk assemble ok", len(asm) == len(result), str(asm.seq) in str(result.seq + result.seq))
    emit("ytk after", snapshot(mods + [vec]))
    observe("ytk assemble partial", vec.assemble, *mods[:-2])
    emit("ytk after partial", snapshot(mods + [vec]))
    observe("ytk assemble again", vec.assemble, *reversed(mods))


def main():
    run_synthetic()
    run_manager()
    run_misc()
    run_kits()
    blob = "\n".join(LINES).encode("utf-8")
    if "--dump" in sys.argv:
        sys.stdout.write(blob.decode("utf-8") + "\n")
    print("observations: {}".format(len(LINES)))
    print("digest: {}".format(hashlib.sha256(blob).hexdigest()))


if __name__ == "__main__":
    main()
