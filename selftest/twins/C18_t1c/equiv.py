# coding: utf-8
"""Differential test for the code C18 depends on.

Exercises, through the existing API only, the structure matching
(`moclo.regex`), the module / vector classes, `AssemblyManager`, the errors
and every kit class / registry on generated inputs, and prints a digest of
everything observable (results, exception types / messages / args, warnings,
state of the inputs afterwards).  The digest must be identical on the
pristine tree and with clean.diff applied.

Run as:  cd /tmp/agents9/C18 && /venv/bin/python pairs_out/C18_t1/equiv.py
"""
from __future__ import print_function

import copy
import hashlib
import inspect
import random
import re
import sys
import warnings

sys.path.insert(0, "/tmp/agents9/C18")
import tests  # noqa: F401,E402

from Bio.Seq import Seq  # noqa: E402
from Bio.SeqRecord import SeqRecord  # noqa: E402
from Bio.SeqFeature import SeqFeature, FeatureLocation, Reference  # noqa: E402
from Bio.Restriction import BpiI, BsaI, BsmBI, SapI, BtsI, BseRI, BsrDI, EcoRI, EcoRV  # noqa: E402

import moclo  # noqa: E402
from moclo import errors  # noqa: E402
from moclo.record import CircularRecord  # noqa: E402
from moclo.regex import DNARegex, SeqMatch  # noqa: E402
from moclo.core import AbstractModule, AbstractVector, AbstractPart  # noqa: E402
from moclo.core import modules as core_modules, vectors as core_vectors  # noqa: E402
from moclo.core._assembly import AssemblyManager  # noqa: E402
from moclo.core._structured import StructuredRecord  # noqa: E402
from moclo.kits import ytk, cidar, ecoflex, plant  # noqa: E402
from moclo.kits import moclo as moclo_kit  # noqa: E402

warnings.simplefilter("ignore")

ADDR = re.compile(r" at 0x[0-9a-fA-F]+")
LOG = []
SECTIONS = []


def clean(text):
    return ADDR.sub(" at 0x", text)


def log(*items):
    LOG.append(clean(repr(items)))


def section(name):
    SECTIONS.append((name, len(LOG)))


# --- describing things ------------------------------------------------------------

def d_feature(f):
    quals = sorted((k, [d_value(x) for x in v] if isinstance(v, list) else d_value(v))
                   for k, v in f.qualifiers.items())
    return (f.type, str(f.location), f.id, quals)


def d_value(v):
    if isinstance(v, Reference):
        return ("Reference", v.title, v.authors, [str(x) for x in v.location])
    if isinstance(v, (Seq, SeqRecord)):
        return d_seq(v)
    return repr(v)


def d_seq(x):
    if isinstance(x, SeqRecord):
        return (type(x).__name__, str(x.seq), x.id, x.name, x.description,
                [d_feature(f) for f in x.features],
                sorted((k, [d_value(i) for i in v] if isinstance(v, list) else d_value(v))
                       for k, v in x.annotations.items()),
                sorted((k, list(v)) for k, v in x.letter_annotations.items()),
                list(x.dbxrefs))
    if isinstance(x, Seq):
        return (type(x).__name__, str(x))
    return ("?", repr(x))


def d_entity(e):
    if isinstance(e, StructuredRecord):
        return (type(e).__name__, e.record.id)
    return d_value(e)


def d_exc(e):
    out = [type(e).__name__, [c.__name__ for c in type(e).__mro__], clean(str(e)),
           [d_entity(a) for a in e.args]]
    for attr in ("sequence", "exc", "details", "duplicates", "start_overhang", "remaining"):
        if hasattr(e, attr):
            v = getattr(e, attr)
            out.append((attr, [d_entity(i) for i in v] if isinstance(v, tuple) else d_entity(v)))
    out.append(("cause", type(e.__cause__).__name__, e.__suppress_context__,
                type(e.__context__).__name__))
    return out


def attempt(label, func, *args, **kwargs):
    """Call, and log the result or the exception and the warnings."""
    with warnings.catch_warnings(record=True) as caught:
        warnings.simplefilter("always")
        try:
            res = func(*args, **kwargs)
            out = ("ok", d_result(res))
        except Exception as e:  # noqa
            res = None
            out = ("raised", d_exc(e))
    warned = [(w.category.__name__, clean(str(w.message)),
               [d_entity(i) for i in getattr(w.message, "remaining", ())],
               [d_entity(a) for a in w.message.args])
              for w in caught if w.category.__module__.startswith("moclo")]
    log(label, out, warned)
    return res


def d_result(res):
    if isinstance(res, (Seq, SeqRecord)):
        return d_seq(res)
    if isinstance(res, SeqMatch):
        return d_match(res)
    if isinstance(res, dict):
        return [(d_value(k), d_entity(v)) for k, v in res.items()]
    if isinstance(res, StructuredRecord):
        return d_entity(res)
    return repr(res)


def d_match(m):
    n = m.match.re.groups
    out = [m.start(), m.end(), m.shift, m.match.re.pattern, m.match.re.flags]
    for i in range(n + 1):
        out.append((m.span(i), d_seq(m.group(i))))
    return out


# --- building inputs ----------------------------------------------------------------

FORBIDDEN = ["GAAGAC", "GTCTTC", "GGTCTC", "GAGACC", "CGTCTC", "GAGACG", "GCTCTTC", "GAAGAGC",
             "GCAGTG", "CACTGC", "GAGGAG", "CTCCTC", "GCAATG", "CATTGC"]


def rc(s):
    return str(Seq(s).reverse_complement())


def filler(rng, n):
    while True:
        s = "".join(rng.choice("ACGT") for _ in range(n))
        if not any(f in s + s for f in FORBIDDEN):
            return s


def mock(base, enzyme, **attrs):
    attrs["cutter"] = enzyme
    return type(str("Mock{}{}".format(enzyme.__name__, base.__name__)), (base,), attrs)


def geometry(enzyme):
    site = enzyme.site
    if enzyme.is_5overhang():
        gap = abs(enzyme.fst5) - len(site)
    else:
        gap = abs(enzyme.fst5) - len(site) - abs(enzyme.ovhg)
    return site, gap, abs(enzyme.ovhg)


def overhangs(rng, n, size):
    out = []
    while len(out) < n:
        o = "".join(rng.choice("ACGT") for _ in range(size))
        if o == rc(o) or any(o == p or o == rc(p) for p in out):
            continue
        out.append(o)
    return out


def module_seq(rng, enzyme, up, down):
    site, gap, _ = geometry(enzyme)
    return (filler(rng, 9) + site + filler(rng, gap) + up + filler(rng, rng.randint(6, 14))
            + down + filler(rng, gap) + rc(site) + filler(rng, 11))


def vector_seq(rng, enzyme, first, last):
    site, gap, _ = geometry(enzyme)
    return (filler(rng, 8) + first + filler(rng, gap) + rc(site) + filler(rng, 7)
            + site + filler(rng, gap) + last + filler(rng, 10))


def spell(seq, how, rng):
    if how == "upper":
        return seq.upper()
    if how == "lower":
        return seq.lower()
    if how == "swap":
        return seq.lower() if rng.random() < 0.5 else seq.upper()
    return "".join(c.lower() if rng.random() < 0.5 else c.upper() for c in seq)


def reference(i):
    ref = Reference()
    ref.title = "Paper {}".format(i)
    ref.authors = "Author {}".format(i)
    return ref


def decorate(rec, rng, idx):
    """Add features (some of them citing references) to a record."""
    n = len(rec)
    refs = [reference(10 * idx + j) for j in range(rng.randint(0, 3))]
    if refs:
        rec.annotations["references"] = refs
    for j in range(rng.randint(1, 4)):
        a = rng.randrange(0, n - 2)
        b = rng.randrange(a + 1, n)
        quals = {"label": ["f{}-{}".format(idx, j)]}
        if refs and rng.random() < 0.7:
            quals["citation"] = ["[{}]".format(rng.randint(1, len(refs)))
                                 for _ in range(rng.randint(1, 2))]
        rec.features.append(SeqFeature(FeatureLocation(a, b, rng.choice([1, -1])),
                                       type=rng.choice(["CDS", "misc_feature", "promoter"]),
                                       qualifiers=quals))
    if rng.random() < 0.3:
        rec.features.append(SeqFeature(FeatureLocation(0, n), type="source",
                                       qualifiers={"organism": ["x"]}))
    rec.annotations["topology"] = "circular"
    rec.annotations["molecule_type"] = "DNA"
    return rec


def make_records(seqs, shifts, how, seed, plain=False, features=True):
    rng = random.Random(seed)
    frng = random.Random(seed * 7 + 1)
    recs = []
    for i, (s, k) in enumerate(zip(seqs, shifts)):
        rec = CircularRecord(Seq(spell(s, how, rng)), id="rec{}".format(i), name="name{}".format(i))
        if features:
            decorate(rec, frng, i)
        rec = rec >> k
        if plain:
            rec = SeqRecord(rec.seq, id=rec.id, name=rec.name, features=list(rec.features),
                            annotations=dict(rec.annotations))
        recs.append(rec)
    return recs


# --- what is observed about an entity ---------------------------------------------------

def typing(label, entity):
    attempt(label + ".is_valid", entity.is_valid)
    attempt(label + ".overhang_start", entity.overhang_start)
    attempt(label + ".overhang_end", entity.overhang_end)
    attempt(label + ".target_sequence", entity.target_sequence)
    if isinstance(entity, AbstractVector):
        attempt(label + ".placeholder_sequence", entity.placeholder_sequence)
    attempt(label + ".is_valid again", entity.is_valid)
    log(label + ".record after", d_seq(entity.record))


def short_typing(label, entity):
    def probe():
        valid = entity.is_valid()
        if not valid:
            return (False,)
        t = entity.target_sequence()
        return (True, str(entity.overhang_start()), str(entity.overhang_end()), len(t),
                hashlib.md5(str(t.seq).encode()).hexdigest(), len(t.features),
                [d_feature(f) for f in t.features[-1:]])
    attempt(label, probe)


# --- section A: synthetic assemblies -----------------------------------------------------

KITS = {
    "BpiI": (mock(AbstractVector, BpiI), mock(AbstractModule, BpiI), BpiI),
    "BsaI": (mock(core_vectors.EntryVector, BsaI), mock(core_modules.Product, BsaI), BsaI),
    "BsmBI": (mock(core_vectors.CassetteVector, BsmBI), mock(core_modules.Entry, BsmBI), BsmBI),
    "SapI": (mock(core_vectors.DeviceVector, SapI), mock(core_modules.Cassette, SapI), SapI),
    "YTK-1": (ytk.YTKCassetteVector, ytk.YTKEntry, BsaI),
    "YTK-2": (ytk.YTKDeviceVector, ytk.YTKCassette, BsmBI),
    "CIDAR": (mock(AbstractVector, BsaI), cidar.CIDAREntry, BsaI),
    "EcoFlex": (mock(AbstractVector, BsmBI), ecoflex.EcoFlexCassette, BsmBI),
    "MoClo": (mock(AbstractVector, BpiI), moclo_kit.MoCloCassette, BpiI),
}


def scenarios(rng, enzyme):
    _, _, size = geometry(enzyme)
    for n in (1, 2, 3):
        o = overhangs(rng, n + 2, size)
        chain = [module_seq(rng, enzyme, o[i], o[i + 1]) for i in range(n)]
        vec = vector_seq(rng, enzyme, o[0], o[n])
        yield "chain{}".format(n), [vec] + chain
        if n >= 2:
            yield "missing{}".format(n), [vec] + chain[:-1]
            yield "missingfirst{}".format(n), [vec] + chain[1:]
            shuffled = chain[:]
            rng.shuffle(shuffled)
            yield "shuffled{}".format(n), [vec] + shuffled
        extra = module_seq(rng, enzyme, o[n + 1], o[0])
        yield "unused{}".format(n), [vec] + chain + [extra]
        dup = module_seq(rng, enzyme, o[0], o[n])
        yield "dup{}".format(n), [vec] + chain + [dup]
        if n >= 2:
            rev = module_seq(rng, enzyme, rc(o[1]), o[n + 1])
            yield "revcomp{}".format(n), [vec] + chain + [rev]
    o = overhangs(rng, 2, size)
    yield "selfligating", [vector_seq(rng, enzyme, o[0], o[0]), module_seq(rng, enzyme, o[0], o[1])]
    yield "notamodule", [vector_seq(rng, enzyme, o[0], o[1]), filler(rng, 60)]
    site = enzyme.site
    bad = module_seq(rng, enzyme, o[0], o[1])
    cut = bad.index(o[0]) + len(o[0]) + 3
    yield "illegalsite", [vector_seq(rng, enzyme, o[0], o[1]), bad[:cut] + site + filler(rng, 8) + bad[cut:]]
    yield "notavector", [filler(rng, 50), module_seq(rng, enzyme, o[0], o[1])]


def run_assembly(label, vcls, mcls, recs, **kwargs):
    vector = vcls(recs[0])
    mods = [mcls(r) for r in recs[1:]]
    before = [d_seq(r) for r in recs]
    attempt(label + ".assemble", vector.assemble, *mods, **kwargs)
    after = [d_seq(r) for r in recs]
    log(label + ".inputs", after, before == after)
    # and once more with the same (already used) wrappers
    attempt(label + ".assemble again", vector.assemble, *mods, **kwargs)


def section_assemblies():
    section("assemblies")
    for kit in sorted(KITS):
        vcls, mcls, enzyme = KITS[kit]
        rng = random.Random("equiv-" + kit)
        for title, seqs in scenarios(rng, enzyme):
            for rotated in (False, True):
                shifts = [rng.randrange(1, len(s)) if rotated else 0 for s in seqs]
                for seed, how in enumerate(["upper", "lower", "swap", "letter", "letter"]):
                    label = "{}/{}/{}/{}{}".format(kit, title, rotated, how, seed)
                    recs = make_records(seqs, shifts, how, seed)
                    run_assembly(label, vcls, mcls, recs)
                    if seed == 3:
                        recs = make_records(seqs, shifts, how, seed)
                        typing(label + "/v", vcls(recs[0]))
                        for i, r in enumerate(recs[1:]):
                            typing(label + "/m{}".format(i), mcls(r))
        # keyword arguments, plain SeqRecord inputs, linear topology
        o = overhangs(rng, 3, geometry(enzyme)[2])
        seqs = [vector_seq(rng, enzyme, o[0], o[2]), module_seq(rng, enzyme, o[0], o[1]),
                module_seq(rng, enzyme, o[1], o[2])]
        recs = make_records(seqs, [0, 0, 0], "swap", 5)
        run_assembly(kit + "/kwargs", vcls, mcls, recs, id="myid", name="myname")
        recs = make_records(seqs, [0, 3, 0], "letter", 6, plain=True)
        run_assembly(kit + "/plain", vcls, mcls, recs)
        for i, r in enumerate(make_records(seqs, [0, 3, 5], "letter", 6, plain=True)):
            typing(kit + "/plain/{}".format(i), (vcls if i == 0 else mcls)(r))
        recs = make_records(seqs, [0, 0, 0], "lower", 7, plain=True)
        for r in recs:
            r.annotations["topology"] = "linear"
        for i, r in enumerate(recs):
            typing(kit + "/linear/{}".format(i), (vcls if i == 0 else mcls)(r))
        recs = make_records(seqs, [0, 7, 0], "lower", 7, plain=True)
        for r in recs:
            r.annotations["topology"] = "linear"
        for i, r in enumerate(recs):
            typing(kit + "/linear-rotated/{}".format(i), (vcls if i == 0 else mcls)(r))
        # broken citations
        recs = make_records(seqs, [0, 0, 0], "swap", 8)
        recs[1].features.append(SeqFeature(FeatureLocation(1, 5), type="misc_feature",
                                           qualifiers={"citation": ["[1]", "oops"]}))
        run_assembly(kit + "/badcitation", vcls, mcls, recs)
        recs = make_records(seqs, [0, 0, 0], "swap", 9)
        recs[2].features.append(SeqFeature(FeatureLocation(1, 5), type="misc_feature",
                                           qualifiers={"citation": ["[9]"]}))
        run_assembly(kit + "/citationindex", vcls, mcls, recs)
        recs = make_records(seqs, [0, 0, 0], "swap", 10)
        recs[0].features.append(SeqFeature(FeatureLocation(1, 5), type="misc_feature",
                                           qualifiers={"citation": ["[]"]}))
        run_assembly(kit + "/citationempty", vcls, mcls, recs)
        # same module twice
        recs = make_records(seqs, [0, 0, 0], "letter", 11)
        vector, m1, m2 = vcls(recs[0]), mcls(recs[1]), mcls(recs[2])
        attempt(kit + "/twice", vector.assemble, m1, m2, m1)
        # module used as vector and so on
        attempt(kit + "/swapped", mcls(recs[0]).is_valid)
        attempt(kit + "/swapped2", vcls(recs[1]).is_valid)


# --- section B: the manager, step by step ---------------------------------------------------

def section_manager():
    section("manager")
    vcls, mcls, enzyme = KITS["BpiI"]
    rng = random.Random("manager")
    o = overhangs(rng, 4, 4)
    seqs = [vector_seq(rng, enzyme, o[0], o[3])] + [module_seq(rng, enzyme, o[i], o[i + 1]) for i in range(3)]
    for seed, how in enumerate(["upper", "lower", "swap", "letter"]):
        recs = make_records(seqs, [0, 5, 0, 9], how, seed)
        vector = vcls(recs[0])
        mods = [mcls(r) for r in recs[1:]]
        mgr = attempt("mgr.new", AssemblyManager, vector, mods)
        log("mgr.attrs", mgr.name, mgr.id, [d_entity(e) for e in mgr.elements], mgr.vector is vector,
            mgr.modules is mods, AssemblyManager._CITATION_RX.pattern)
        modmap = attempt("mgr.map", mgr._generate_modules_map)
        log("mgr.map.type", type(modmap).__name__, [type(k).__name__ for k in modmap])
        product = attempt("mgr.generate", mgr._generate_assembly, modmap)
        log("mgr.map.after", d_result(modmap))
        attempt("mgr.annotate", mgr._annotate_assembly, product)
        log("mgr.annotated", d_seq(product))
        partial = {k: v for k, v in list(mgr._generate_modules_map().items())[:2]}
        attempt("mgr.generate.partial", mgr._generate_assembly, partial)
        log("mgr.partial.after", d_result(partial))
        attempt("mgr.generate.empty", mgr._generate_assembly, {})
        for r in recs:
            attempt("mgr.deref", mgr._deref_citations, r)
            log("mgr.deref.after", d_seq(r))
            attempt("mgr.ref", mgr._ref_citations, r)
            log("mgr.ref.after", d_seq(r))
            attempt("mgr.ref2", mgr._ref_citations, r)
            log("mgr.ref2.after", d_seq(r))
        attempt("mgr.assemble", mgr.assemble)
        attempt("mgr.custom", AssemblyManager(vector, mods[::-1], id_="x", name="y").assemble)
        attempt("mgr.selfligating", AssemblyManager, vcls(make_records([vector_seq(rng, enzyme, o[0], o[0])], [0], how, seed)[0]), mods)


# --- section C: regex ---------------------------------------------------------------------

def section_regex():
    section("regex")
    rng = random.Random("regex")
    patterns = ["AA(NN)", "GGTCTCN(NNNN)(NN*N)(NNNN)NGAGACC", "(RY)(SW)K*M", "B(D)H(V)", "ATG", "N*", "(A)(C)?(G)",
                "aa(nn)", "A.T", "GAAGACNN(NNNN)(NN*N)(NNNN)NNGTCTTC"]
    for p in patterns:
        attempt("transcribe", DNARegex._transcribe, p)
        dr = attempt("compile", DNARegex, p)
        if dr is None:
            continue
        log("regex.attrs", dr.pattern, dr.regex.pattern, dr.regex.flags, dr.regex.groups)
        for k in range(12):
            s = "".join(rng.choice("ACGTacgtNn") for _ in range(rng.randint(4, 40)))
            if k % 3 == 0:
                s = s[:2] + "gGtCtCa" + s[2:] + "tGAGaCc" + "aa"
            for target in (Seq(s), SeqRecord(Seq(s), id="r"), CircularRecord(Seq(s), id="c")):
                attempt("search", dr.search, target)
                attempt("search.circ", dr.search, target, linear=False)
                attempt("search.pos", dr.search, target, 2, 9)
                attempt("search.kw", dr.search, target, pos=1, endpos=len(s) - 1, linear=True)
            attempt("search.str", dr.search, s)
            attempt("search.none", dr.search, None)
    attempt("compile.bad", DNARegex, "A(")
    log("lettermap", sorted(DNARegex._lettermap.items()))

    class Loose(DNARegex):
        _lettermap = dict(DNARegex._lettermap, X="[ACGT]")

    attempt("loose.transcribe", Loose._transcribe, "AXN")
    attempt("loose.search", Loose("A(X)T").search, Seq("ggacttt"))

    class Literal(DNARegex):
        @classmethod
        def _transcribe(cls, pattern):
            return pattern

    attempt("literal.search", Literal("AC(G)").search, Seq("ttacgtt"))
    attempt("literal.search2", Literal("AC(G)").search, Seq("ttACGtt"))
    m = DNARegex("AA(NN)").search(Seq("ATGCAGCATA"), linear=False)
    log("match", d_match(m), type(m.rec).__name__, m.match.span())
    sm = SeqMatch(re.match("(a)(b)", "ab"), Seq("AB"), 3)
    log("seqmatch", sm.shift, sm.start(), sm.end(), sm.span(), sm.span(2), d_seq(sm.group()), d_seq(sm.group(1)))


# --- section D: errors -------------------------------------------------------------------------

class Rec(object):
    def __init__(self, id):
        self.record = SeqRecord(Seq("A"), id=id)


def section_errors():
    section("errors")
    a, b = Rec("a"), Rec("b")
    cases = [
        lambda: errors.InvalidSequence("ATGC"),
        lambda: errors.InvalidSequence(Seq("atgc"), details="bad"),
        lambda: errors.InvalidSequence("ATGC", ValueError("x"), "more"),
        lambda: errors.InvalidSequence("A{}C", details="with {braces}"),
        lambda: errors.IllegalSite(Seq("ATGC")),
        lambda: errors.IllegalSite("ATGC", details="x"),
        lambda: errors.DuplicateModules(a, b),
        lambda: errors.DuplicateModules(a, b, details="same start overhang: 'atgc'"),
        lambda: errors.DuplicateModules(),
        lambda: errors.DuplicateModules(a, details="x", other=1),
        lambda: errors.MissingModule(Seq("ATGC")),
        lambda: errors.MissingModule("atgc", details="d"),
        lambda: errors.MissingModule(None),
        lambda: errors.UnusedModules(a, b),
        lambda: errors.UnusedModules(a, details=3),
        lambda: errors.UnusedModules(),
        lambda: errors.MocloError("x", 1),
        lambda: errors.AssemblyError("x"),
        lambda: errors.AssemblyWarning("x"),
        lambda: errors.InvalidSequence(),
        lambda: errors.MissingModule(),
    ]
    for i, c in enumerate(cases):
        try:
            e = c()
            log("error", i, d_exc(e), clean(repr(e)))
        except Exception as x:  # noqa
            log("error.ctor", i, type(x).__name__, str(x))
    for name in ("MocloError", "InvalidSequence", "IllegalSite", "AssemblyError", "DuplicateModules",
                 "MissingModule", "AssemblyWarning", "UnusedModules"):
        cls = getattr(errors, name)
        log("error.mro", name, [c.__name__ for c in cls.__mro__],
            cls._msg if name in ("InvalidSequence", "IllegalSite") else None)


# --- section E: kit classes and registries --------------------------------------------------------

def kit_classes():
    out = []
    for mod in (ytk, cidar, ecoflex, plant, moclo_kit):
        for name, obj in sorted(vars(mod).items()):
            if inspect.isclass(obj) and issubclass(obj, StructuredRecord) and obj.__module__ == mod.__name__:
                out.append(obj)
    return out


def section_kits():
    section("kits")
    classes = kit_classes()
    rng = random.Random("kits")
    for cls in classes:
        log("class", cls.__module__, cls.__name__, [c.__name__ for c in cls.__mro__],
            repr(getattr(cls, "cutter", None)), repr(getattr(cls, "signature", None)), cls._level
            if hasattr(cls, "_level") else None)
        attempt("structure " + cls.__name__, cls.structure)
        try:
            rx = cls._get_regex()
            log("regex", cls.__name__, rx.pattern, rx.regex.pattern, rx.regex.flags, cls._get_regex() is rx)
        except Exception as e:  # noqa
            log("regex", cls.__name__, d_exc(e))
        attempt("new " + cls.__name__, cls, SeqRecord(Seq("ATGC"), id="tiny"))
        # a synthetic plasmid for the classes with an automatic structure
        sig = getattr(cls, "signature", None)
        cutter = getattr(cls, "cutter", NotImplemented)
        if cutter is NotImplemented or not isinstance(sig, tuple):
            continue
        if issubclass(cls, AbstractModule):
            seq = module_seq(rng, cutter, sig[0], sig[1])
        else:
            seq = vector_seq(rng, cutter, sig[1], sig[0])
        for seed, how in enumerate(["upper", "lower", "letter"]):
            rec = make_records([seq], [rng.randrange(len(seq))], how, seed)[0]
            attempt("make " + cls.__name__, lambda: short_typing("synthetic {} {}".format(cls.__name__, how), cls(rec)))


def section_registries():
    section("registries")
    from moclo.registry.ytk import YTKRegistry, PTKRegistry
    from moclo.registry.cidar import CIDARRegistry
    from moclo.registry.ecoflex import EcoFlexRegistry
    from moclo.registry.plant import PlantRegistry
    classes = kit_classes()
    rng = random.Random("registries")
    for factory in (YTKRegistry, PTKRegistry, CIDARRegistry, EcoFlexRegistry, PlantRegistry):
        reg = factory()
        ids = sorted(reg)
        log("registry", factory.__name__, len(reg), ids)
        for id_ in ids:
            item = reg[id_]
            cls = type(item.entity)
            log("item", item.id, item.name, item.resistance, cls.__name__)
            others = [c for c in rng.sample(classes, 3)
                      if getattr(c, "cutter", NotImplemented) is not NotImplemented]
            for how in ("asis", "lower", "letter"):
                rec = copy.deepcopy(item.entity.record)
                if how != "asis":
                    rec.seq = Seq(spell(str(rec.seq), how, rng))
                rec = rec >> rng.randrange(len(rec))
                short_typing("{} as {} {}".format(id_, cls.__name__, how), cls(rec))
                if how == "letter":
                    for other in others:
                        short_typing("{} as {} {}".format(id_, other.__name__, how), other(rec))
        # a few real assemblies from the registry, in mixed case
    reg = CIDARRegistry()
    for vec, mods in [("DVK_AE", ("J23102_AB", "BCD2_BC", "E1010m_CD", "B0015_DE")),
                      ("DVA_EF", ("J23102_EB", "BCD2_BC", "E1010m_CD", "B0015_DF")),
                      ("DVK_AE", ("J23102_AB", "BCD2_BC", "E1010m_CD")),
                      ("DVK_AE", ("J23102_AB", "BCD2_BC", "E1010m_CD", "B0015_DE", "B0015_DF"))]:
        for seed, how in enumerate(["asis", "lower", "swap", "letter"]):
            crng = random.Random(seed)
            recs = []
            for id_ in (vec,) + mods:
                rec = copy.deepcopy(reg[id_].entity.record)
                if how != "asis":
                    rec.seq = Seq(spell(str(rec.seq), how, crng))
                recs.append(rec >> crng.randrange(len(rec)))
            vector = type(reg[vec].entity)(recs[0])
            modules = [type(reg[i].entity)(r) for i, r in zip(mods, recs[1:])]

            def probe():
                p = vector.assemble(*modules)
                return (len(p), hashlib.md5(str(p.seq).encode()).hexdigest(), len(p.features),
                        hashlib.md5(repr([d_feature(f) for f in p.features]).encode()).hexdigest(),
                        sorted((k, [d_value(i) for i in v] if isinstance(v, list) else d_value(v))
                               for k, v in p.annotations.items()))
            attempt("cidar {} {} {}".format(vec, len(mods), how), probe)
            log("cidar inputs", hashlib.md5(repr([d_seq(r) for r in recs]).encode()).hexdigest())


# --- section F: 3'-overhang enzymes and odd cutters ----------------------------------------------

def section_enzymes():
    section("enzymes")
    rng = random.Random("enzymes")
    for enzyme in (BtsI, BseRI, BsrDI, BsaI, SapI):
        size = abs(enzyme.ovhg)
        o = overhangs(rng, 3, size)

        def part(base, sig):
            return type(str("Part{}{}".format(enzyme.__name__, base.__name__)), (AbstractPart, base),
                        {"cutter": enzyme, "signature": sig})
        m1cls, m2cls = part(AbstractModule, (o[0], o[1])), part(AbstractModule, (o[1], o[2]))
        vcls = part(AbstractVector, (o[2], o[0]))
        for cls in (m1cls, m2cls, vcls, mock(AbstractModule, enzyme), mock(AbstractVector, enzyme)):
            attempt("structure", cls.structure)
        site, gap, _ = geometry(enzyme)
        seqs = [vector_seq(rng, enzyme, o[0], o[2]), module_seq(rng, enzyme, o[0], o[1]),
                module_seq(rng, enzyme, o[1], o[2])]
        for seed, how in enumerate(["upper", "lower", "swap", "letter"]):
            for shifts in ([0, 0, 0], [11, 17, 23]):
                recs = make_records(seqs, shifts, how, seed)
                label = "{}/{}/{}".format(enzyme.__name__, how, shifts[0])
                typing(label + "/v", vcls(recs[0]))
                typing(label + "/m1", m1cls(recs[1]))
                typing(label + "/m2", m2cls(recs[2]))
                recs = make_records(seqs, shifts, how, seed)
                attempt(label + "/assemble", vcls(recs[0]).assemble, m1cls(recs[1]), m2cls(recs[2]))
                log(label + "/inputs", [d_seq(r) for r in recs])
                attempt(label + "/characterize", AbstractPart.characterize, recs[1])
    for enzyme in (EcoRI, EcoRV):
        attempt("blunt-or-not " + enzyme.__name__, mock(AbstractModule, enzyme), SeqRecord(Seq("ATGC")))
    attempt("no cutter", AbstractModule, SeqRecord(Seq("ATGC")))
    attempt("no cutter v", AbstractVector, SeqRecord(Seq("ATGC")))
    attempt("no cutter p", AbstractPart, SeqRecord(Seq("ATGC")))


# --- section G: names ----------------------------------------------------------------------------------

NAMES = {
    "moclo.regex": ["DNARegex", "SeqMatch", "CircularRecord", "_S", "re", "six", "typing", "Bio"],
    "moclo.errors": ["MocloError", "InvalidSequence", "IllegalSite", "AssemblyError", "DuplicateModules",
                     "MissingModule", "AssemblyWarning", "UnusedModules", "six", "typing"],
    "moclo.core._assembly": ["AssemblyManager", "BiopythonWarning", "CircularRecord", "Seq", "SeqRecord",
                             "catch_warnings", "errors", "re", "six", "warnings", "__version__"],
    "moclo.core.modules": ["AbstractModule", "Product", "Entry", "Cassette", "Device", "Seq", "StructuredRecord",
                           "add_as_source", "cutter_check", "cached_property", "errors", "typing"],
    "moclo.core.vectors": ["AbstractVector", "EntryVector", "CassetteVector", "DeviceVector", "AssemblyManager",
                           "Seq", "StructuredRecord", "add_as_source", "cutter_check", "cached_property",
                           "errors", "typing"],
    "moclo.core._structured": ["StructuredRecord", "DNARegex", "errors", "cached_property", "six", "abc", "typing"],
    "moclo.core._utils": ["cutter_check", "add_as_source", "SeqFeature", "FeatureLocation"],
    "moclo.core.parts": ["AbstractPart", "AbstractModule", "AbstractVector", "StructuredRecord", "cutter_check",
                         "isabstract", "Seq"],
    "moclo.core": ["AbstractPart", "AbstractModule", "AbstractVector", "Cassette", "CassetteVector", "Entry",
                   "EntryVector", "Device", "DeviceVector", "Product"],
}


def section_names():
    section("names")
    import importlib
    for modname in sorted(NAMES):
        mod = importlib.import_module(modname)
        log("names", modname, [(n, hasattr(mod, n)) for n in NAMES[modname]])
    for cls in (AbstractModule, AbstractVector, AbstractPart, StructuredRecord, AssemblyManager, DNARegex, SeqMatch):
        for name in sorted(n for n in vars(cls) if not n.startswith("__")):
            obj = inspect.getattr_static(cls, name)
            try:
                sig = [(q.name, q.kind.name, None if q.default is q.empty else repr(q.default))
                       for q in inspect.signature(getattr(cls, name)).parameters.values()]
            except (TypeError, ValueError):
                sig = None
            if name in PRISTINE_MEMBERS.get(cls.__name__, ()):
                log("member", cls.__name__, name, type(obj).__name__, sig)
        log("members", cls.__name__, [n in vars(cls) for n in PRISTINE_MEMBERS.get(cls.__name__, ())])
    log("subclass", issubclass(core_modules.Product, AbstractModule), issubclass(AbstractModule, StructuredRecord),
        issubclass(AbstractVector, StructuredRecord), issubclass(AbstractPart, StructuredRecord),
        issubclass(errors.IllegalSite, errors.InvalidSequence), issubclass(errors.InvalidSequence, ValueError),
        issubclass(errors.MissingModule, RuntimeError), issubclass(errors.UnusedModules, Warning))


PRISTINE_MEMBERS = {
    "AbstractModule": ["_level", "cutter", "structure", "overhang_start", "overhang_end", "target_sequence", "_match"],
    "AbstractVector": ["_level", "cutter", "structure", "overhang_start", "overhang_end", "placeholder_sequence",
                       "target_sequence", "_match", "assemble"],
    "AbstractPart": ["cutter", "signature", "structure", "characterize"],
    "StructuredRecord": ["_regex", "structure", "_get_regex", "_match", "is_valid"],
    "AssemblyManager": ["assemble", "_generate_modules_map", "_generate_assembly", "_CITATION_RX",
                        "_deref_citations", "_ref_citations", "_annotate_assembly"],
    "DNARegex": ["_lettermap", "_transcribe", "search"],
    "SeqMatch": ["end", "start", "span", "group"],
}


def main():
    section_names()
    section_errors()
    section_regex()
    section_manager()
    section_assemblies()
    section_enzymes()
    section_kits()
    section_registries()
    bounds = SECTIONS + [("end", len(LOG))]
    for (name, start), (_, stop) in zip(bounds, bounds[1:]):
        h = hashlib.sha256("\n".join(LOG[start:stop]).encode("utf-8")).hexdigest()
        print("{:12s} {:6d} entries  {}".format(name, stop - start, h))
    print("DIGEST", len(LOG), hashlib.sha256("\n".join(LOG).encode("utf-8")).hexdigest())
    if len(sys.argv) > 1:
        with open(sys.argv[1], "w") as f:
            f.write("\n".join(LOG))


if __name__ == "__main__":
    main()
