# coding: utf-8
"""Differential test for the refactoring of `moclo.record` (and `moclo._utils`).

Generates a few hundred circular records (random sequences, features on both
strands, unstranded, fuzzy, with external references, joins over the origin,
whole-length features and sources, features without a location, locations left
past the end by earlier rotations, per-letter annotations, mutable sequences,
RNA / protein molecule types, odd topologies), runs every public operation of
`CircularRecord` on them, and prints a digest of: results, exception types and
messages, warnings, object sharing between input and output, and the state of
the input afterwards.  `python equiv.py dump` also prints every line.
"""
import sys

sys.path.insert(0, "/tmp/agents5/C14")
import tests  # noqa: E402,F401

import hashlib  # noqa: E402
import random  # noqa: E402
import warnings  # noqa: E402

from Bio.Seq import Seq, MutableSeq  # noqa: E402
from Bio.SeqFeature import (  # noqa: E402
    SeqFeature,
    FeatureLocation,
    CompoundLocation,
    BeforePosition,
    AfterPosition,
)
from Bio.SeqRecord import SeqRecord  # noqa: E402

from moclo.record import CircularRecord  # noqa: E402

LINES = []


def out(*items):
    LINES.append(" | ".join(str(i) for i in items))


def d_location(loc):
    if loc is None:
        return "None"
    return "{!r} op={}".format(loc, getattr(loc, "operator", None))


def d_feature(f):
    return "({} {} {} {})".format(
        f.type, f.id, d_location(f.location), sorted(f.qualifiers.items())
    )


def d_record(r):
    if not isinstance(r, SeqRecord):
        return "{}:{!r}".format(type(r).__name__, r)
    return "{}<{!r} id={!r} name={!r} desc={!r} dbx={!r} ann={!r} let={!r} feats=[{}]>".format(
        type(r).__name__,
        r.seq,
        r.id,
        r.name,
        r.description,
        r.dbxrefs,
        sorted(r.annotations.items(), key=repr),
        sorted(r.letter_annotations.items()),
        ", ".join(d_feature(f) for f in r.features),
    )


def sharing(a, b):
    """Which mutable pieces of the result `b` are the very objects of `a`."""
    if not isinstance(b, SeqRecord):
        return "-"
    flags = []
    flags.append("self" if a is b else "")
    flags.append("seq" if a.seq is b.seq else "")
    flags.append("dbx" if a.dbxrefs is b.dbxrefs else "")
    flags.append("ann" if a.annotations is b.annotations else "")
    flags.append("feats" if a.features is b.features else "")
    mine = {id(f): i for i, f in enumerate(a.features)}
    flags.append("f:" + ",".join(str(mine.get(id(f), "-")) for f in b.features))
    quals = {id(f.qualifiers): i for i, f in enumerate(a.features)}
    flags.append("q:" + ",".join(str(quals.get(id(f.qualifiers), "-")) for f in b.features))
    locs = {id(f.location): i for i, f in enumerate(a.features) if f.location is not None}
    flags.append("l:" + ",".join(str(locs.get(id(f.location), "-")) for f in b.features))
    vals = {}
    for i, f in enumerate(a.features):
        for k, v in f.qualifiers.items():
            vals[id(v)] = "{}.{}".format(i, k)
    flags.append(
        "v:"
        + ",".join(
            str(vals.get(id(v), "-")) for f in b.features for _, v in sorted(f.qualifiers.items())
        )
    )
    return " ".join(flags)


def run(label, record, func):
    before = d_record(record)
    with warnings.catch_warnings(record=True) as caught:
        warnings.simplefilter("always")
        try:
            result = func(record)
        except Exception as err:  # noqa
            out(label, "RAISED", type(err).__name__, str(err))
            result = None
        else:
            out(label, d_record(result), sharing(record, result))
    for w in caught:
        out(label, "WARNING", w.category.__name__, str(w.message))
    out(label, "input unchanged" if d_record(record) == before else "INPUT CHANGED " + d_record(record))
    return result


class Plasmid(CircularRecord):
    """A subclass: results must keep the type of the receiver."""


def random_features(rng, n):
    feats = []

    def add(location, type="misc_feature", **quals):
        fid = "f{}".format(len(feats))
        quals.setdefault("label", [fid])
        feats.append(SeqFeature(location, type=type, id=fid, qualifiers=quals))

    for _ in range(rng.randint(0, 4)):
        a = rng.randint(0, n - 1)
        b = rng.randint(a, n)
        add(FeatureLocation(a, b, rng.choice((1, -1, None, 0))), note=["n", "m"])
    kind = rng.randint(0, 12)
    if kind == 0:
        add(FeatureLocation(0, n, 1), type="source", organism=["synthetic"])
    elif kind == 1:
        add(FeatureLocation(0, n, -1))
    elif kind == 2:
        cut = rng.randint(1, n - 1)
        add(CompoundLocation([FeatureLocation(cut, n, 1), FeatureLocation(0, cut, 1)]))
    elif kind == 3:
        cut = rng.randint(1, n - 1)
        add(
            CompoundLocation(
                [FeatureLocation(0, cut, -1), FeatureLocation(cut, n, -1)], operator="order"
            ),
            type="source",
        )
    elif kind == 4:
        cut = rng.randint(1, n - 1)
        add(CompoundLocation([FeatureLocation(cut, n), FeatureLocation(0, cut)]))
    elif kind == 5:
        add(FeatureLocation(BeforePosition(1), AfterPosition(n - 1), -1))
    elif kind == 6:
        add(FeatureLocation(1, n - 1, 1, ref="X00001.1", ref_db="GenBank"))
    elif kind == 7:
        add(None, type="nowhere")
    elif kind == 9:
        # the sources of the fragments of an assembly: they tile the record
        a = rng.randint(1, n - 2)
        b = rng.randint(a + 1, n - 1)
        add(FeatureLocation(0, a, 1), type="source", plasmid=["one"])
        add(FeatureLocation(a, b, 1), type="source", plasmid=["two"])
        add(FeatureLocation(b, n, 1), type="source", plasmid=["three"])
    elif kind == 10:
        add(FeatureLocation(0, rng.randint(1, n - 1), -1), type="source")
        add(FeatureLocation(0, n, None), type="source")
        add(FeatureLocation(0, n, 1), type="Source")
    elif kind == 8:
        # handed in already past the end, by more than a turn as well
        add(FeatureLocation(n - 2, n + 3, 1))
        add(FeatureLocation(2 * n + 1, 2 * n + 3, -1))
        add(FeatureLocation(n, 2 * n, 1))
    return feats


def random_record(rng, number):
    n = rng.randint(4, 16)
    letters = "".join(rng.choice("ACGTacgtN") for _ in range(n))
    seq = MutableSeq(letters) if number % 17 == 3 else Seq(letters)
    annotations = rng.choice(
        [
            None,
            {},
            {"topology": "circular"},
            {"topology": "Circular", "molecule_type": "DNA", "keywords": ["a", "b"]},
            {"molecule_type": "ds-DNA", "references": [["r1"], ["r2"]]},
        ]
    )
    letter_annotations = rng.choice(
        [None, None, {"phred_quality": list(range(n))}, {"mask": letters.swapcase()}]
    )
    cls = Plasmid if number % 5 == 0 else CircularRecord
    return cls(
        seq,
        id="rec{}".format(number),
        name="name{}".format(number),
        description="record {}".format(number),
        dbxrefs=rng.choice([None, ["db:1", "db:2"]]),
        features=random_features(rng, n),
        annotations=annotations,
        letter_annotations=letter_annotations,
    )


FLIPS = [
    ("rc()", {}),
    ("rc(id=True,name=True,description=True)", dict(id=True, name=True, description=True)),
    ("rc(id='rc',name='n',description='d')", dict(id="rc", name="n", description="d")),
    ("rc(features=False)", dict(features=False)),
    ("rc(annotations=True,dbxrefs=True)", dict(annotations=True, dbxrefs=True)),
    ("rc(letter_annotations=False)", dict(letter_annotations=False)),
    ("rc(annotations={linear})", dict(annotations={"topology": "linear"})),
    ("rc(annotations={x},dbxrefs=[y])", dict(annotations={"x": 1}, dbxrefs=["y"])),
    (
        "rc(features=[...],letter_annotations={})",
        dict(features=[SeqFeature(FeatureLocation(0, 1, 1), type="given")], letter_annotations={}),
    ),
]


def exercise(rng, number, record):
    tag = "#{}".format(number)
    n = len(record.seq)
    for name, kwargs in FLIPS:
        run(tag + " " + name, record, lambda r: r.reverse_complement(**kwargs))
    run(tag + " rc positional", record, lambda r: r.reverse_complement(True, "nm", False, True, True, False, True))
    run(tag + " rc.rc", record, lambda r: r.reverse_complement().reverse_complement())
    shifts = sorted({0, 1, n - 1, n, n + 1, 2 * n + 1, -1, -n, rng.randint(-3 * n, 3 * n)})
    for k in shifts:
        right = run("{} >>{}".format(tag, k), record, lambda r: r >> k)
        run("{} <<{}".format(tag, k), record, lambda r: r << k)
        run("{} (>>{}).rc".format(tag, k), record, lambda r: (r >> k).reverse_complement())
        run("{} rc<<{}".format(tag, k), record, lambda r: r.reverse_complement() << k)
        if right is not None and n:
            j = rng.randint(1, n)
            run("{} >>{}>>{}".format(tag, k, j), right, lambda r: r >> j)
            run("{} >>{}<<{}".format(tag, k, j), right, lambda r: r << j)
            run("{} >>{}.rc>>{}".format(tag, k, j), right, lambda r: r.reverse_complement() >> j)
    for index in (0, -1, n, slice(None), slice(1, -1), slice(None, None, 2), slice(n, 0), "x"):
        run("{} [{}]".format(tag, index), record, lambda r: r[index])
    run(tag + " copy", record, lambda r: type(r)(r))
    run(tag + " plain", record, lambda r: CircularRecord(r[:], id="ignored", features=[]))
    for probe in (str(record.seq)[-2:] + str(record.seq)[:2], str(record.seq) * 2, "", "Z"):
        run("{} {!r} in".format(tag, probe), record, lambda r: probe in r)
    run(tag + " +", record, lambda r: r + r)
    run(tag + " radd", record, lambda r: "AC" + r)
    run(tag + " +=", record, lambda r: r.__add__("AC"))


def oddities():
    def make(**kw):
        return lambda _: CircularRecord(**kw)

    nothing = SeqRecord(Seq("ACGT"), id="dummy")
    run("odd linear", nothing, make(seq=Seq("ACGT"), annotations={"topology": "linear"}))
    run("odd LINEAR", nothing, make(seq=Seq("ACGT"), annotations={"topology": "LINEAR"}))
    run("odd topology=5", nothing, make(seq=Seq("ACGT"), annotations={"topology": 5}))
    run("odd topology=None", nothing, make(seq=Seq("ACGT"), annotations={"topology": None}))
    run("odd annotations=[]", nothing, make(seq=Seq("ACGT"), annotations=[]))
    run("odd str seq", nothing, make(seq="ACGT"))
    run("odd bad letters", nothing, make(seq=Seq("ACGT"), letter_annotations={"q": [1]}))
    linear = SeqRecord(Seq("ACGT"), id="lin", annotations={"topology": "linear"})
    run("odd from linear", linear, lambda r: CircularRecord(r))
    run("odd from linear, overridden", linear, lambda r: CircularRecord(r, annotations={}))
    empty = CircularRecord(Seq(""), id="empty")
    run("odd empty in", empty, lambda r: "" in r)
    run("odd empty >>", empty, lambda r: r >> 1)
    run("odd empty <<", empty, lambda r: r << 1)
    run("odd empty rc", empty, lambda r: r.reverse_complement())
    run("odd noseq rc", nothing, lambda _: CircularRecord(None, id="noseq").reverse_complement())
    run("odd noseq >>", nothing, lambda _: CircularRecord(None, id="noseq") >> 1)
    protein = CircularRecord(Seq("MKV"), id="prot", annotations={"molecule_type": "protein"})
    run("odd protein rc", protein, lambda r: r.reverse_complement())
    run("odd protein >>", protein, lambda r: r >> 1)
    rna = CircularRecord(
        Seq("ACGU"),
        id="rna",
        annotations={"molecule_type": "RNA"},
        features=[SeqFeature(FeatureLocation(3, 5, -1), type="x", id="r0")],
    )
    run("odd rna rc", rna, lambda r: r.reverse_complement())
    run("odd rna rc<<", rna, lambda r: r.reverse_complement(annotations=True) << 3)
    plain = CircularRecord(Seq("ACGTAC"), id="p")
    run("odd >>1.5", plain, lambda r: r >> 1.5)
    run("odd >>'a'", plain, lambda r: r >> "a")
    run("odd <<None", plain, lambda r: r << None)
    run("odd >>True", plain, lambda r: r >> True)
    out("names", CircularRecord.__add__.__name__, CircularRecord.__radd__.__name__)
    out("docs", CircularRecord.__add__.__doc__, CircularRecord.__radd__.__doc__)
    out(
        "public",
        sorted(k for k in vars(CircularRecord) if not k.startswith("_") or k.startswith("__")),
    )
    import inspect

    for name in ("__init__", "reverse_complement", "__getitem__", "__rshift__", "__lshift__"):
        out("signature", name, inspect.signature(getattr(CircularRecord, name)))


def main():
    rng = random.Random(14002)
    for number in range(300):
        try:
            record = random_record(rng, number)
        except Exception as err:  # noqa
            out("#{}".format(number), "CONSTRUCTION RAISED", type(err).__name__, str(err))
            continue
        exercise(rng, number, record)
    oddities()
    if sys.argv[1:] == ["dump"]:
        for line in LINES:
            print(line)
    raised = sum(1 for line in LINES if " | RAISED | " in line)
    print("records: 300, observations: {}, of which exceptions: {}".format(len(LINES), raised))
    print("digest:", hashlib.sha256("\n".join(LINES).encode("utf-8")).hexdigest())


if __name__ == "__main__":
    main()
