import sys

sys.path.insert(0, "/tmp/agentsR4/R16")
import tests  # noqa: F401,E402  (splices the kit packages into the moclo namespace)

import hashlib  # noqa: E402
import random  # noqa: E402
import re  # noqa: E402
import warnings  # noqa: E402

from Bio.Seq import Seq  # noqa: E402
from Bio.SeqRecord import SeqRecord  # noqa: E402
from Bio.SeqFeature import (  # noqa: E402
    SeqFeature,
    FeatureLocation,
    CompoundLocation,
    Reference,
)
from Bio.Restriction import BpiI, BsaI, BsmBI, BsrDI, SapI, EcoRV, AllEnzymes  # noqa: E402

from moclo import errors  # noqa: E402
from moclo.record import CircularRecord  # noqa: E402
from moclo.regex import DNARegex, SeqMatch  # noqa: E402,F401
from moclo.core.modules import AbstractModule, Entry, Product  # noqa: E402,F401
from moclo.core.vectors import AbstractVector, EntryVector  # noqa: E402,F401
from moclo.core.parts import AbstractPart  # noqa: E402

warnings.simplefilter("always")

# --- dumping ----------------------------------------------------------------

RESULTS = []


def dump_ref(ref):
    if isinstance(ref, Reference):
        return (
            "Reference",
            [repr(l) for l in ref.location],
            ref.authors,
            ref.title,
            ref.journal,
            ref.pubmed_id,
            ref.comment,
        )
    return repr(ref)


def dump_value(value):
    if isinstance(value, (list, tuple)):
        return [type(value).__name__] + [dump_value(v) for v in value]
    if isinstance(value, dict):
        return [type(value).__name__] + [(k, dump_value(v)) for k, v in value.items()]
    if isinstance(value, Reference):
        return dump_ref(value)
    if isinstance(value, Seq):
        return ("Seq", str(value))
    return repr(value)


def dump_feature(feature):
    loc = feature.location
    return (
        feature.type,
        feature.id,
        None if loc is None else (type(loc).__name__, repr(loc)),
        type(feature.qualifiers).__name__,
        [(k, dump_value(v)) for k, v in feature.qualifiers.items()],
    )


def dump_record(rec):
    if rec is None:
        return None
    if isinstance(rec, Seq):
        return ("Seq", str(rec))
    if isinstance(rec, str):
        return ("str", rec)
    return (
        type(rec).__name__,
        str(rec.seq),
        rec.id,
        rec.name,
        rec.description,
        list(rec.dbxrefs),
        [(k, dump_value(v)) for k, v in rec.annotations.items()],
        [(k, dump_value(v)) for k, v in rec.letter_annotations.items()],
        [dump_feature(f) for f in rec.features],
    )


def dump_exc(exc):
    extra = []
    for attr in ("duplicates", "remaining"):
        if hasattr(exc, attr):
            extra.append((attr, [getattr(x, "record", x) is not x and x.record.id for x in getattr(exc, attr)]))
    for attr in ("details", "start_overhang"):
        extra.append((attr, dump_value(getattr(exc, attr, None))))
    message = re.sub(r"0x[0-9a-fA-F]+", "0x?", str(exc))
    return ("EXC", type(exc).__name__, message, extra)


def attempt(label, func, dump=dump_value):
    """Run func, record its outcome (value or exception) and the warnings."""
    with warnings.catch_warnings(record=True) as caught:
        warnings.simplefilter("always")
        try:
            out = ("OK", dump(func()))
        except Exception as exc:  # noqa
            out = dump_exc(exc)
    warns = [(w.category.__name__, re.sub(r"0x[0-9a-fA-F]+", "0x?", str(w.message))) for w in caught]
    RESULTS.append((label, out, warns))
    return out


def finish():
    blob = repr(RESULTS).encode("utf-8")
    print(len(RESULTS), "results")
    print(hashlib.sha256(blob).hexdigest())


# --- sequence generation ----------------------------------------------------

SITES = ["GAAGAC", "GTCTTC", "GGTCTC", "GAGACC", "CGTCTC", "GAGACG", "GCAATG", "CATTGC", "GCTCTTC", "GAAGAGC"]


def revcomp(s):
    return str(Seq(s).reverse_complement())


def clean_dna(rng, n, extra=()):
    """Random DNA of length n without any Type IIS site used here."""
    while True:
        s = "".join(rng.choice("ACGT") for _ in range(n))
        probe = "TT" + s + "TT"
        if not any(site in probe for site in SITES):
            return s


def random_overhang(rng, k=4):
    return "".join(rng.choice("ACGT") for _ in range(k))


def distinct_overhangs(rng, count, k=4):
    """Overhangs that are pairwise different, non palindromic and not
    reverse complements of each other."""
    out = []
    while len(out) < count:
        o = random_overhang(rng, k)
        rc = revcomp(o)
        if o == rc or o in out or rc in out:
            continue
        if any(site.startswith(o) or site.endswith(o) for site in SITES):
            continue
        out.append(o)
    return out


def randcase(rng, s, mode):
    if mode == "upper":
        return s
    if mode == "lower":
        return s.lower()
    return "".join(c.lower() if rng.random() < 0.5 else c for c in s)


# site, spacer for the 5' overhang Type IIS enzymes used below
ENZYMES = {
    "BpiI": (BpiI, "GAAGAC", 2),
    "BsaI": (BsaI, "GGTCTC", 1),
    "BsmBI": (BsmBI, "CGTCTC", 1),
}


def module_seq(rng, site, spacer, ovs, target, ove, backbone):
    return (
        site
        + clean_dna(rng, spacer)
        + ovs
        + target
        + ove
        + clean_dna(rng, spacer)
        + revcomp(site)
        + backbone
    )


def vector_seq(rng, site, spacer, ov_end, placeholder, ov_start, backbone):
    # <ov_end> NN <rc site> placeholder <site> NN <ov_start> backbone
    return (
        ov_end
        + clean_dna(rng, spacer)
        + revcomp(site)
        + placeholder
        + site
        + clean_dna(rng, spacer)
        + ov_start
        + backbone
    )


def make_reference(rng, n):
    ref = Reference()
    ref.title = "title %d %d" % (n, rng.randrange(1000))
    ref.authors = "author %d" % n
    ref.journal = "journal %d" % rng.randrange(10)
    return ref


def random_location(rng, n):
    kind = rng.random()
    strand = rng.choice([1, -1, None, 0])
    if n < 4:
        return FeatureLocation(0, n, strand)
    if kind < 0.6:
        a = rng.randrange(0, n - 1)
        b = rng.randrange(a + 1, n + 1)
        return FeatureLocation(a, b, strand)
    if kind < 0.8:
        cuts = sorted(rng.sample(range(0, n + 1), 4))
        if len(set(cuts)) < 4:
            return FeatureLocation(0, n, strand)
        return CompoundLocation(
            [FeatureLocation(cuts[0], cuts[1], strand), FeatureLocation(cuts[2], cuts[3], strand)]
        )
    # a location that wraps the origin
    a = rng.randrange(n // 2, n)
    b = rng.randrange(1, max(2, n // 2))
    return CompoundLocation([FeatureLocation(a, n, strand), FeatureLocation(0, b, strand)])


def decorate(rng, rec, citations="valid", nfeat=None, source=False, letters=False):
    """Add random features, references, citations to a record (in place)."""
    n = len(rec)
    nrefs = rng.randrange(0, 4)
    if nrefs or rng.random() < 0.3:
        rec.annotations["references"] = [make_reference(rng, i) for i in range(nrefs)]
    if nrefs > 1 and rng.random() < 0.3:
        # duplicated (equal but not identical) reference
        dup = make_reference(rng, 0)
        first = rec.annotations["references"][0]
        dup.title, dup.authors, dup.journal = first.title, first.authors, first.journal
        rec.annotations["references"].append(dup)
    if nfeat is None:
        nfeat = rng.randrange(0, 5)
    for i in range(nfeat):
        quals = {"label": ["feat%d" % i]}
        if rng.random() < 0.3:
            quals["note"] = ["note %d" % rng.randrange(100)]
        total = len(rec.annotations.get("references", []))
        if total and rng.random() < 0.7:
            quals["citation"] = [
                "[%d]" % rng.randrange(1, total + 1) for _ in range(rng.randrange(1, 4))
            ]
        elif rng.random() < 0.1:
            quals["citation"] = []
        feat = SeqFeature(random_location(rng, n), type=rng.choice(["CDS", "misc_feature", "promoter", "source"]), id="f%d" % i, qualifiers=quals)
        rec.features.append(feat)
    if source:
        rec.features.append(SeqFeature(FeatureLocation(0, n), type="source", qualifiers={"organism": ["x"]}))
    if letters:
        rec.letter_annotations["phred_quality"] = [rng.randrange(0, 60) for _ in range(n)]
        rec.letter_annotations["mark"] = "".join(rng.choice("abcdef") for _ in range(n))
    if citations != "valid":
        bad = {
            "text": "see ref",
            "empty": "[]",
            "range": "[99]",
            "zero": "[0]",
            "tail": "[1] and more",
        }[citations]
        rec.annotations.setdefault("references", [make_reference(rng, 7)])
        if not rec.annotations["references"]:
            rec.annotations["references"].append(make_reference(rng, 8))
        quals = {"citation": ["[1]", bad, "[1]"]}
        rec.features.append(SeqFeature(FeatureLocation(0, min(3, n)), type="misc_feature", qualifiers=quals))
    return rec


def make_record(rng, seq, ident, circular=True, topology="default", rotate=True, **deco):
    annotations = {}
    if topology == "circular":
        annotations["topology"] = rng.choice(["circular", "Circular", "CIRCULAR"])
    elif topology == "linear":
        annotations["topology"] = "linear"
    if rng.random() < 0.5:
        annotations["molecule_type"] = "DNA"
    if circular:
        rec = CircularRecord(Seq(seq), id=ident, name=ident + "_name", description="desc " + ident, annotations=annotations)
    else:
        rec = SeqRecord(Seq(seq), id=ident, name=ident + "_name", description="desc " + ident, annotations=annotations)
    decorate(rng, rec, **deco)
    if circular and rotate:
        mode = rng.randrange(5)
        n = len(rec)
        if mode == 0:
            rec = rec >> rng.randrange(0, n)
        elif mode == 1:
            rec = rec << rng.randrange(0, n)
        elif mode == 2:
            rec = rec >> (rng.randrange(0, n) + n * rng.randrange(1, 4))
        elif mode == 3:
            rec = rec >> -rng.randrange(0, 3 * n)
        # mode 4: not rotated
    return rec


# --- mock classes -----------------------------------------------------------


class VBpi(AbstractVector):
    cutter = BpiI


class MBpi(AbstractModule):
    cutter = BpiI


class VBsa(EntryVector):
    cutter = BsaI


class MBsa(Entry):
    cutter = BsaI


class VBsmB(AbstractVector):
    cutter = BsmBI


class MBsmB(Product):
    cutter = BsmBI


CLASSES = {"BpiI": (VBpi, MBpi), "BsaI": (VBsa, MBsa), "BsmBI": (VBsmB, MBsmB)}


# --- assembly scenarios -------------------------------------------------------

SCENARIOS = [
    "ok",
    "ok",
    "ok",
    "unused",
    "duplicate",
    "twice",
    "revcomp",
    "palindrome",
    "missing",
    "missing_first",
    "vector_same",
    "invalid_module",
    "invalid_vector",
    "illegal_module",
    "illegal_vector",
    "bad_citation_module",
    "bad_citation_vector",
    "linear_module",
    "unused_many",
    "duplicate_late_invalid",
]


def build_scenario(rng, kind):
    """Return (vector, modules, kwargs, records) for one assembly scenario."""
    enz = rng.choice(sorted(ENZYMES))
    _, site, spacer = ENZYMES[enz]
    vcls, mcls = CLASSES[enz]
    case = rng.choice(["upper", "upper", "lower", "mixed"])
    k = rng.randrange(1, 5)
    ovs = distinct_overhangs(rng, k + 4)
    chain, spare = ovs[: k + 1], ovs[k + 1 :]

    def dna(n):
        return clean_dna(rng, n)

    cite = "valid"
    mods = []
    for i in range(k):
        seq = module_seq(rng, site, spacer, chain[i], dna(rng.randrange(2, 40)), chain[i + 1], dna(rng.randrange(0, 30)))
        mods.append([seq, "mod%d" % i, {}])
    vseq = vector_seq(rng, site, spacer, chain[0], dna(rng.randrange(0, 20)), chain[k], dna(rng.randrange(1, 40)))
    vopts = {}

    if kind in ("unused", "unused_many"):
        for j in range(1 if kind == "unused" else 3):
            a, b = distinct_overhangs(rng, 2)
            if a in ovs or b in ovs or revcomp(a) in ovs or revcomp(b) in ovs:
                a, b = spare[0], spare[1]
                if j:
                    continue
            mods.append([module_seq(rng, site, spacer, a, dna(10), b, dna(5)), "extra%d" % j, {}])
    elif kind == "duplicate":
        i = rng.randrange(k)
        mods.append([module_seq(rng, site, spacer, chain[i], dna(12), spare[0], dna(5)), "dup", {}])
    elif kind == "revcomp":
        i = rng.randrange(k)
        mods.append([module_seq(rng, site, spacer, revcomp(chain[i]), dna(12), spare[0], dna(5)), "rc", {}])
    elif kind == "palindrome":
        pal = rng.choice(["ACGT", "AATT", "GATC", "TGCA"])
        mods.append([module_seq(rng, site, spacer, pal, dna(12), spare[0], dna(5)), "pal", {}])
    elif kind == "missing" and k > 1:
        del mods[rng.randrange(1, k)]
    elif kind == "missing_first":
        del mods[0]
        if not mods:
            mods.append([module_seq(rng, site, spacer, spare[0], dna(12), spare[1], dna(5)), "lonely", {}])
    elif kind == "vector_same":
        vseq = vector_seq(rng, site, spacer, chain[0], dna(8), randcase(rng, chain[0], "mixed"), dna(20))
    elif kind == "invalid_module":
        mods[rng.randrange(k)][0] = dna(50)
    elif kind == "invalid_vector":
        vseq = dna(60)
    elif kind == "illegal_module":
        i = rng.randrange(k)
        mods[i][0] = module_seq(rng, site, spacer, chain[i], dna(5) + site + dna(5), chain[i + 1], dna(9))
    elif kind == "illegal_vector":
        vseq = vector_seq(rng, site, spacer, chain[0], dna(6), chain[k], dna(7) + site + dna(7))
    elif kind == "bad_citation_module":
        mods[rng.randrange(k)][2]["citations"] = rng.choice(["text", "empty", "range", "zero", "tail"])
    elif kind == "bad_citation_vector":
        vopts["citations"] = rng.choice(["text", "empty", "range", "zero", "tail"])
    elif kind == "duplicate_late_invalid":
        mods.insert(rng.randrange(len(mods) + 1), [module_seq(rng, site, spacer, chain[0], dna(12), spare[0], dna(5)), "dup", {}])
        mods.append([dna(40), "junk", {}])

    records = []
    modules = []
    for seq, ident, opts in mods:
        linear = kind == "linear_module" and rng.random() < 0.6
        rec = make_record(
            rng,
            randcase(rng, seq, case),
            ident,
            circular=not linear,
            topology="linear" if linear else rng.choice(["default", "circular"]),
            letters=rng.random() < 0.2,
            source=rng.random() < 0.2,
            **opts
        )
        records.append(rec)
        modules.append(mcls(rec))
    vrec = make_record(rng, randcase(rng, vseq, case), "vec", topology=rng.choice(["default", "circular"]), **vopts)
    records.append(vrec)
    vector = vcls(vrec)
    if kind == "twice":
        modules.append(modules[rng.randrange(len(modules))])
    rng.shuffle(modules)
    kwargs = rng.choice([{}, {}, {"name": "nm"}, {"id": "ident"}, {"id": "I", "name": "N"}])
    return vector, modules, kwargs, records


def run_assemblies(seed, count):
    rng = random.Random(seed)
    for n in range(count):
        kind = SCENARIOS[n % len(SCENARIOS)]
        vector, modules, kwargs, records = build_scenario(rng, kind)
        before = [dump_record(r) for r in records]
        attempt(("assemble", n, kind), lambda: vector.assemble(*modules, **kwargs), dump_record)
        after = [dump_record(r) for r in records]
        RESULTS.append(("mutation", n, before == after, after))
        # a second run on the same (possibly mutated) objects
        if n % 3 == 0:
            attempt(("assemble-again", n, kind), lambda: vector.assemble(*modules, **kwargs), dump_record)
        for m in modules[:2]:
            attempt(("m.valid", n), m.is_valid)
            attempt(("m.ovs", n), m.overhang_start, dump_record)
            attempt(("m.ove", n), m.overhang_end, dump_record)
            attempt(("m.target", n), m.target_sequence, dump_record)
        attempt(("v.valid", n), vector.is_valid)
        attempt(("v.ovs", n), vector.overhang_start, dump_record)
        attempt(("v.ove", n), vector.overhang_end, dump_record)
        attempt(("v.target", n), vector.target_sequence, dump_record)
        attempt(("v.placeholder", n), vector.placeholder_sequence, dump_record)


# --- focus: DNARegex._transcribe / DNARegex.search ---------------------------


def dump_match(m):
    if m is None:
        return None
    ngroups = m.match.re.groups
    return (
        type(m).__name__,
        m.start(),
        m.end(),
        m.span(),
        m.shift,
        [m.span(i) for i in range(ngroups + 1)],
        [dump_record(m.group(i)) for i in range(ngroups + 1)],
        type(m.rec).__name__,
    )


class LowerRegex(DNARegex):
    _lettermap = dict(DNARegex._lettermap, n="[acgtn]", X="[ACGT]{2}", **{"*": "*?"})


def run_regex(seed, count):
    rng = random.Random(seed)
    alphabet = "ACGTBDHKMNRSVWYacgtbdhkmnrsvwy"
    specials = ["(", ")", "*", "+", "?", "N*", "(N)", "N{2}", "[AC]", ".", "|", "X", "n", "^", "$"]
    for n in range(count):
        # random patterns: IUPAC letters of both cases + some regex syntax
        parts = []
        for _ in range(rng.randrange(0, 7)):
            r = rng.random()
            if r < 0.7:
                parts.append(rng.choice(alphabet))
            elif r < 0.8:
                parts.append("(" + "".join(rng.choice(alphabet) for _ in range(rng.randrange(1, 4))) + ")")
            else:
                parts.append(rng.choice(specials))
        pattern = "".join(parts)
        for cls in (DNARegex, LowerRegex):
            def compiled():
                rx = cls(pattern)
                return (rx.pattern, rx.regex.pattern, rx.regex.flags, rx.regex.groups)
            out = attempt(("transcribe", n, cls.__name__, pattern), compiled)
            if out[0] != "OK":
                continue
            rx = cls(pattern)
            for j in range(3):
                size = rng.choice([0, 1, 2, 5, 12, 30])
                text = randcase(rng, "".join(rng.choice("ACGTN") for _ in range(size)), rng.choice(["upper", "lower", "mixed"]))
                kind = rng.randrange(4)
                if kind == 0:
                    target = Seq(text)
                elif kind == 1:
                    target = SeqRecord(Seq(text), id="lin")
                elif kind == 2:
                    target = CircularRecord(Seq(text), id="circ")
                else:
                    target = decorate(rng, CircularRecord(Seq(text), id="deco"), letters=True) if size else CircularRecord(Seq(text), id="deco")
                kw = {}
                if rng.random() < 0.5:
                    kw["pos"] = rng.choice([0, 1, 2, -1, -3, size, size + 3, size // 2])
                if rng.random() < 0.4:
                    kw["endpos"] = rng.choice([0, 1, 3, size, size - 1, size + 5, -1, 10 ** 30])
                if rng.random() < 0.4:
                    kw["linear"] = rng.choice([True, False])
                attempt(("search", n, j, text, sorted(kw.items())), lambda: rx.search(target, **kw), dump_match)
    # non sequence arguments and odd positions
    rx = DNARegex("ANNT")
    for bad in ("ACGT", b"ACGT", None, 12, ["A"], Seq("AGGT")):
        attempt(("search-type", repr(bad)), lambda: rx.search(bad), dump_match)
    for kw in ({"pos": None}, {"pos": "1"}, {"pos": 1.5}, {"endpos": None}, {"endpos": "3"}, {"endpos": 2.5}, {"pos": True}):
        attempt(("search-kw", repr(kw)), lambda: rx.search(Seq("AGGTAGGT"), **kw), dump_match)
        attempt(("search-kw-circ", repr(kw)), lambda: rx.search(CircularRecord(Seq("GTAG")), **kw), dump_match)
    for bad in (None, 12, b"AN", ["A", "N"], ("A", "NN"), ""):
        attempt(("pattern-type", repr(bad)), lambda: DNARegex(bad).regex.pattern)

    # wrapping matches on circular records, every rotation
    base = "GGTCTCAATGCTTTTTTCGTATGAGACC" + "ACACAC"
    rx = DNARegex("GGTCTCN(NNNN)(NN*N)(NNNN)NGAGACC")
    for shift in range(-len(base) - 2, 2 * len(base) + 3):
        rec = CircularRecord(Seq(base), id="w") >> shift
        attempt(("wrap", shift), lambda: rx.search(rec), dump_match)
        attempt(("wrap-lin", shift), lambda: rx.search(rec.seq), dump_match)
        attempt(("wrap-seq-nonlin", shift), lambda: rx.search(rec.seq, linear=False), dump_match)
        attempt(("wrap-pos", shift), lambda: rx.search(rec, pos=shift % 7, endpos=len(base) - shift % 5), dump_match)


run_regex(1601, 400)
run_assemblies(1611, 120)
finish()
