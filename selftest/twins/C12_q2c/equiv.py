# coding: utf-8
"""Differential test: prints a digest of everything observable.

Run as:  cd /tmp/agents6/C12 && /venv/bin/python pairs_out/C12_q2/equiv.py
The digest must be identical on the pristine tree and with clean.diff applied.
"""
import sys

sys.path.insert(0, "/tmp/agents6/C12")
import tests  # noqa: F401,E402  (splices the kits in the moclo namespace)

import copy  # noqa: E402
import hashlib  # noqa: E402
import random  # noqa: E402
import re  # noqa: E402
import warnings  # noqa: E402

from Bio import Restriction  # noqa: E402
from Bio.Seq import Seq  # noqa: E402
from Bio.SeqFeature import (  # noqa: E402
    SeqFeature,
    FeatureLocation,
    CompoundLocation,
    BeforePosition,
    AfterPosition,
)
from Bio.SeqRecord import SeqRecord  # noqa: E402

from moclo.record import CircularRecord  # noqa: E402
from moclo.regex import DNARegex, SeqMatch  # noqa: E402
from moclo.core import (  # noqa: E402
    AbstractModule,
    AbstractVector,
    AbstractPart,
    Product,
    Entry,
    Cassette,
    Device,
    EntryVector,
    CassetteVector,
    DeviceVector,
)
from moclo.core._assembly import AssemblyManager  # noqa: E402
from moclo.core._utils import cutter_check, add_as_source  # noqa: E402

RNG = random.Random(20240612)
LINES = []
ADDR = re.compile(r"0x[0-9a-fA-F]+")


def out(*items):
    LINES.append(ADDR.sub("0x?", " | ".join(str(i) for i in items)))


def revcomp(text):
    return str(Seq(text).reverse_complement())


# --- serialisation -----------------------------------------------------------


def dump_location(loc):
    if loc is None:
        return "None"
    return "{}:{!r}".format(type(loc).__name__, loc)


def dump_feature(feat):
    quals = sorted((k, repr(v)) for k, v in feat.qualifiers.items())
    return "F({} {} id={!r} {})".format(
        feat.type, dump_location(feat.location), feat.id, quals
    )


def dump_record(rec):
    if rec is None:
        return "None"
    if isinstance(rec, Seq):
        return "Seq({})".format(str(rec))
    if not isinstance(rec, SeqRecord):
        return repr(rec)
    ann = sorted((k, repr(v)) for k, v in rec.annotations.items())
    let = sorted((k, repr(v)) for k, v in rec.letter_annotations.items())
    return "{}(seq={} id={!r} name={!r} desc={!r} dbx={!r} ann={} let={} feats=[{}])".format(
        type(rec).__name__,
        str(rec.seq),
        rec.id,
        rec.name,
        rec.description,
        rec.dbxrefs,
        ann,
        let,
        "; ".join(dump_feature(f) for f in rec.features),
    )


def dump(value):
    if isinstance(value, (SeqRecord, Seq)):
        return dump_record(value)
    if isinstance(value, SeqMatch):
        spans = [value.span(i) for i in range((value.match.re.groups or 0) + 1)]
        groups = []
        for i in range(len(spans)):
            try:
                groups.append(dump(value.group(i)))
            except Exception as err:  # noqa
                groups.append("!{}: {}".format(type(err).__name__, err))
        return "Match(start={} end={} spans={} groups={} string={})".format(
            value.start(), value.end(), spans, groups, value.match.string
        )
    if isinstance(value, tuple):
        return "(" + ", ".join(dump(v) for v in value) + ")"
    return repr(value)


def attempt(label, func, *args, **kwargs):
    """Call, record the result or the exception, and the warnings."""
    with warnings.catch_warnings(record=True) as caught:
        warnings.simplefilter("always")
        try:
            result = func(*args, **kwargs)
            text = dump(result)
        except Exception as err:  # noqa
            result = None
            text = "!{}: {}".format(type(err).__name__, err)
    warns = [
        "{}: {}".format(w.category.__name__, w.message)
        for w in caught
        if "pkg_resources" not in str(w.message)
    ]
    out(label, text, warns)
    return result


# --- input builders ----------------------------------------------------------

ENZYMES = ["BsaI", "BsmBI", "BpiI", "BbsI", "SapI", "FokI", "BsmAI", "AarI", "BtgZI"]
ALL_ENZYMES = ENZYMES + [
    "MspJI", "LpnPI", "AspBHI", "MmeI", "BseGI", "EcoRI", "EcoRV", "BsrDI", "HgaI",
    "BceAI", "BcefI", "PleI", "AcuI", "NotI", "KpnI", "BglI", "SfiI", "BstXI",
]


def layout(enzyme):
    """site, spacer length and overhang length of a 5' type IIS enzyme."""
    text = enzyme.elucidate()
    site = enzyme.site
    spacer = text.index("^") - len(site)
    ovhg = text.index("_") - text.index("^") - 1
    return site, spacer, ovhg


def sites_in(text, enzyme, circular=True):
    site = enzyme.site
    hay = (text + text[: len(site) - 1]) if circular else text
    hay = hay.upper()
    n = 0
    for s in {site, revcomp(site)}:
        start = hay.find(s)
        while start >= 0:
            n += 1
            start = hay.find(s, start + 1)
    return n


def rand_dna(n, alphabet="ACGT"):
    return "".join(RNG.choice(alphabet) for _ in range(n))


def clean_dna(n, enzyme):
    while True:
        text = rand_dna(n)
        if sites_in(text, enzyme, circular=False) == 0:
            return text


def rand_overhangs(count, size):
    result = []
    while len(result) < count:
        o = rand_dna(size)
        if o == revcomp(o) or o in result or revcomp(o) in result:
            continue
        result.append(o)
    return result


def module_text(enzyme, up, down, body_len=None, backbone_len=None):
    site, spacer, _ = layout(enzyme)
    while True:
        body = clean_dna(body_len if body_len is not None else RNG.randint(2, 14), enzyme)
        back = clean_dna(backbone_len if backbone_len is not None else RNG.randint(0, 12), enzyme)
        text = "".join(
            [site, rand_dna(spacer), up, body, down, rand_dna(spacer), revcomp(site), back]
        )
        if sites_in(text, enzyme) == 2:
            return text


def vector_text(enzyme, up, down, hole_len=None, backbone_len=None):
    # ``up``: upstream overhang of the vector (where the last module ends),
    # ``down``: downstream overhang (where the first module starts)
    site, spacer, _ = layout(enzyme)
    while True:
        hole = clean_dna(hole_len if hole_len is not None else RNG.randint(0, 9), enzyme)
        back = clean_dna(backbone_len if backbone_len is not None else RNG.randint(2, 14), enzyme)
        text = "".join(
            [down, rand_dna(spacer), revcomp(site), hole, site, rand_dna(spacer), up, back]
        )
        if sites_in(text, enzyme) == 2:
            return text


def rotate(text, k):
    k %= len(text)
    return text[k:] + text[:k]


def mixed_case(text):
    return "".join(c.lower() if RNG.random() < 0.5 else c for c in text)


def decorate(record, with_citations=True):
    """Add features (plain, fuzzy, compound, source, citations) to a record."""
    n = len(record)
    feats = []
    for i in range(RNG.randint(0, 4)):
        a = RNG.randrange(0, n)
        b = RNG.randrange(a, n) + 1
        strand = RNG.choice([1, -1, None])
        kind = RNG.random()
        if kind < 0.2:
            loc = FeatureLocation(BeforePosition(a), AfterPosition(b), strand=strand)
        elif kind < 0.4 and b - a >= 2:
            mid = RNG.randrange(a + 1, b)
            loc = CompoundLocation(
                [FeatureLocation(a, mid, strand=strand), FeatureLocation(mid, b, strand=strand)]
            )
        else:
            loc = FeatureLocation(a, b, strand=strand)
        quals = {"label": ["f{}".format(i)]}
        if with_citations and RNG.random() < 0.5:
            quals["citation"] = ["[{}]".format(RNG.randint(1, 2))]
            if RNG.random() < 0.3:
                quals["citation"].append("[1]")
        feats.append(SeqFeature(loc, type=RNG.choice(["CDS", "misc_feature", "promoter"]), id="x{}".format(i), qualifiers=quals))
    if RNG.random() < 0.4:
        feats.append(SeqFeature(FeatureLocation(0, n), type="source", qualifiers={"organism": ["thing"]}))
    record.features.extend(feats)
    if with_citations:
        record.annotations["references"] = ["ref-A-{}".format(record.id), "ref-B"]
    if RNG.random() < 0.5:
        record.letter_annotations["phred_quality"] = [RNG.randint(0, 40) for _ in range(n)]
    if RNG.random() < 0.5:
        record.dbxrefs.append("db:{}".format(record.id))
    return record


def make_record(text, rid, kind):
    if kind == "circular":
        return CircularRecord(Seq(text), id=rid, name=rid + "_n", description=rid + " d")
    if kind == "circular-ann":
        return CircularRecord(
            Seq(text), id=rid, name=rid + "_n", annotations={"topology": "circular", "molecule_type": "DNA"}
        )
    if kind == "plain":
        return SeqRecord(Seq(text), id=rid, name=rid + "_n")
    if kind == "plain-circular":
        return SeqRecord(Seq(text), id=rid, annotations={"topology": "circular"})
    if kind == "plain-linear":
        return SeqRecord(Seq(text), id=rid, annotations={"topology": "linear", "molecule_type": "DNA"})
    if kind == "plain-upper-topology":
        return SeqRecord(Seq(text), id=rid, annotations={"topology": "CIRCULAR"})
    raise ValueError(kind)


KINDS = ["circular", "circular-ann", "plain", "plain-circular", "plain-linear", "plain-upper-topology"]

_CLASSES = {}


def classes_for(name):
    if name not in _CLASSES:
        enzyme = getattr(Restriction, name)
        _CLASSES[name] = (
            type(str("Mod" + name), (AbstractModule,), {"cutter": enzyme}),
            type(str("Vec" + name), (AbstractVector,), {"cutter": enzyme}),
        )
    return _CLASSES[name]


def inspect_entity(label, entity):
    attempt(label + " valid", entity.is_valid)
    attempt(label + " valid again", entity.is_valid)
    attempt(label + " ovh start", entity.overhang_start)
    attempt(label + " ovh end", entity.overhang_end)
    attempt(label + " target", entity.target_sequence)
    attempt(label + " target again", entity.target_sequence)
    if hasattr(entity, "placeholder_sequence"):
        attempt(label + " placeholder", entity.placeholder_sequence)
    out(label + " record after", dump_record(entity.record))


# --- 1. the pattern matcher --------------------------------------------------


def section_regex():
    out("== regex")
    for pattern in ["AA(NN)", "GGTCTCN(NNNN)(NN*N)(NNNN)NGAGACC", "N(NNNN)(NGAGACCN*GGTCTCN)(NNNN)N",
                    "A(T)?(G)", "(RY)(KM)*B", "CGTCTCN(NNGG)(TCTCNNNNNN*?NNNNNGA)(GACC)NGAGACG", "", "NN"]:
        attempt("transcribe " + pattern, DNARegex._transcribe, pattern)
        rx = attempt("compile " + pattern, DNARegex, pattern)
        if rx is None:
            continue
        out("pattern attr", rx.pattern, rx.regex.pattern, rx.regex.flags)
        for trial in range(14):
            n = RNG.choice([0, 1, 2, 5, 9, 17, 30, 48])
            text = rand_dna(n)
            if trial % 3 == 0 and n >= 30:
                text = rotate("GGTCTCA" + rand_dna(4) + rand_dna(n - 30 + 4) + rand_dna(4) + "TGAGACC" + rand_dna(4), RNG.randrange(n))
            if trial % 4 == 1:
                text = mixed_case(text)
            for target in (Seq(text), SeqRecord(Seq(text), id="r"), CircularRecord(Seq(text), id="c")):
                for kwargs in ({}, {"linear": False}, {"pos": 3}, {"pos": 2, "endpos": 7, "linear": False}, {"endpos": 0}):
                    attempt("search {} {} {}".format(pattern, type(target).__name__, sorted(kwargs.items())), rx.search, target, **kwargs)
        for bad in ("ATGC", None, 12, [Seq("AT")]):
            attempt("search bad {!r}".format(bad), rx.search, bad)
    # SeqMatch built by hand, on all kinds of spans
    rec = decorate(CircularRecord(Seq("ATGCATGGCCAATTGGCA"), id="hand"), with_citations=False)
    plain = SeqRecord(Seq("ATGCATGGCCAATTGGCA"), id="hand2")
    doubled = str(rec.seq) * 2
    for a in range(0, 2 * len(rec), 5):
        for width in (0, 1, 4, 7, len(rec)):
            m = re.compile("(.{%d})(.?)" % width).match(doubled, a)
            if m is None:
                continue
            for target in (rec, plain, rec.seq):
                sm = SeqMatch(m, target)
                attempt("handmade {} {} {}".format(a, width, type(target).__name__), lambda: sm)


# --- 2. structures -----------------------------------------------------------


def section_structures():
    out("== structures")
    for name in ALL_ENZYMES:
        enzyme = getattr(Restriction, name)
        for base in (AbstractModule, Product, Entry, Cassette, Device, AbstractVector, EntryVector, CassetteVector, DeviceVector):
            cls = type(str("S" + name), (base,), {"cutter": enzyme})
            attempt("structure {} {}".format(name, base.__name__), cls.structure)
            attempt("structure again {} {}".format(name, base.__name__), cls.structure)
            attempt("regex {} {}".format(name, base.__name__), lambda: cls._get_regex().regex.pattern)
            attempt("new {} {}".format(name, base.__name__), lambda: type(cls(SeqRecord(Seq("ATGC"), id="q"))).__name__)
        for sig in (("ATGC", "GGCA"), ("NNNN", "GGGA"), ("AT", "C")):
            for base in (Entry, CassetteVector):
                cls = type(str("P" + name), (AbstractPart, base), {"cutter": enzyme, "signature": sig})
                attempt("part structure {} {} {}".format(name, base.__name__, sig), cls.structure)
        cls = type(str("P" + name), (AbstractPart, Entry), {"cutter": enzyme})
        attempt("part no signature " + name, cls.structure)
        cls = type(str("P" + name), (AbstractPart,), {"cutter": enzyme, "signature": ("AAAA", "CCCC")})
        attempt("part alone " + name, cls.structure)
        attempt("part alone new " + name, lambda: cls(SeqRecord(Seq("ATGC"), id="q")).is_valid())
    for base in (AbstractModule, AbstractVector, AbstractPart, Entry, DeviceVector):
        attempt("no cutter " + base.__name__, base, SeqRecord(Seq("ATGC"), id="q"))
    attempt("cutter_check blunt", cutter_check, Restriction.EcoRV, name="X")
    attempt("cutter_check ok", cutter_check, Restriction.BsaI, name="X")
    attempt("cutter_check none", cutter_check, NotImplemented, name="X")


# --- 3. modules and vectors at all rotations ---------------------------------


def section_entities():
    out("== entities")
    for name in ENZYMES:
        enzyme = getattr(Restriction, name)
        mod_cls, vec_cls = classes_for(name)
        _, _, size = layout(enzyme)
        a, b = rand_overhangs(2, size)
        mtext = module_text(enzyme, a, b)
        vtext = vector_text(enzyme, b, a)
        for text, cls, tag in ((mtext, mod_cls, "mod"), (vtext, vec_cls, "vec")):
            for k in range(len(text)):
                kind = KINDS[(k // 2) % len(KINDS)] if k % 2 else "circular"
                rotated = rotate(text, k)
                if k % 5 == 3:
                    rotated = mixed_case(rotated)
                rec = make_record(rotated, "{}{}{}".format(tag, name, k), kind)
                if k % 3 == 0:
                    decorate(rec)
                inspect_entity("{} {} rot{} {}".format(name, tag, k, kind), cls(rec))
            # the wrong class, the reverse strand, broken records
            other = vec_cls if cls is mod_cls else mod_cls
            inspect_entity("{} {} as other".format(name, tag), other(CircularRecord(Seq(text), id="o")))
            flipped = CircularRecord(Seq(text), id="rc").reverse_complement(id=True)
            inspect_entity("{} {} flipped".format(name, tag), cls(flipped))
            site = enzyme.site
            extra = text + "AA" + site + "AA"
            inspect_entity("{} {} third site".format(name, tag), cls(CircularRecord(Seq(extra), id="x3")))
            inspect_entity("{} {} third site rot".format(name, tag), cls(CircularRecord(Seq(rotate(extra, len(text) // 2)), id="x3r")))
            inspect_entity("{} {} one site".format(name, tag), cls(CircularRecord(Seq(text.replace(site, "A" * len(site), 1)), id="x1")))
            inspect_entity("{} {} empty".format(name, tag), cls(CircularRecord(Seq(""), id="e")))
            inspect_entity("{} {} tiny".format(name, tag), cls(SeqRecord(Seq("ATG"), id="t")))


# --- 4. assemblies -----------------------------------------------------------


def snapshot(entities):
    return [dump_record(e.record) for e in entities]


def section_assemblies():
    out("== assemblies")
    for round_ in range(40):
        name = ENZYMES[round_ % len(ENZYMES)]
        enzyme = getattr(Restriction, name)
        mod_cls, vec_cls = classes_for(name)
        _, _, size = layout(enzyme)
        count = RNG.randint(1, 4)
        ovhs = rand_overhangs(count + 1, size)
        mods = []
        for i in range(count):
            text = rotate(module_text(enzyme, ovhs[i], ovhs[i + 1]), RNG.randrange(0, 60))
            if round_ % 4 == 1:
                text = mixed_case(text)
            rec = CircularRecord(Seq(text), id="m{}_{}".format(round_, i), name="mod{}".format(i))
            if round_ % 2 == 0:
                decorate(rec)
            mods.append(mod_cls(rec))
        vtext = rotate(vector_text(enzyme, ovhs[-1], ovhs[0]), RNG.randrange(0, 60))
        if round_ % 4 == 2:
            vtext = mixed_case(vtext)
        vrec = CircularRecord(Seq(vtext), id="v{}".format(round_), name="vec")
        if round_ % 2 == 0:
            decorate(vrec)
        vector = vec_cls(vrec)
        RNG.shuffle(mods)
        everything = mods + [vector]
        before = snapshot(everything)
        scenario = round_ % 10
        args = list(mods)
        kwargs = {}
        if scenario == 3 and count > 1:
            args = args[1:]  # a module is missing
        elif scenario == 4:
            extra = rand_overhangs(2, size)
            args.append(mod_cls(CircularRecord(Seq(module_text(enzyme, extra[0], extra[1])), id="spare")))
        elif scenario == 5:
            args.append(mod_cls(CircularRecord(Seq(module_text(enzyme, ovhs[0], ovhs[1] if count > 1 else ovhs[-1])), id="twin")))
        elif scenario == 6:
            args.append(mod_cls(CircularRecord(Seq(module_text(enzyme, revcomp(ovhs[0]), ovhs[0])), id="mirror")))
        elif scenario == 7:
            kwargs = {"id": "custom-id", "name": "custom-name"}
        elif scenario == 8:
            args.append(mod_cls(CircularRecord(Seq("ATGCATGC"), id="junk")))
        elif scenario == 9:
            extra = rand_overhangs(2, size)
            bad = CircularRecord(Seq(rotate(module_text(enzyme, extra[0], extra[1]), 3)), id="badcite")
            bad.features.append(SeqFeature(FeatureLocation(0, 3), type="CDS", qualifiers={"citation": ["nope"]}))
            args.append(mod_cls(bad))
        result = attempt("assemble {} {} scenario {}".format(round_, name, scenario), vector.assemble, *args, **kwargs)
        out("inputs unchanged", before == snapshot(everything))
        out("inputs after", snapshot(everything))
        if result is not None:
            out("result type", type(result).__name__)
        # a second run on the very same objects
        attempt("assemble again {}".format(round_), vector.assemble, *args, **kwargs)
        out("inputs after second", snapshot(everything))
    # vectors that cannot be used, managers built by hand
    mod_cls, vec_cls = classes_for("BpiI")
    vector = vec_cls(CircularRecord(Seq("CCATGCTTGTCTTCCACAGAAGACTTATGCGG"), id="same"))
    module = mod_cls(CircularRecord(Seq("GAAGACTTATGCCACAATGCTTGTCTTC"), id="module"))
    attempt("same overhangs", vector.assemble, module)
    vector = vec_cls(CircularRecord(Seq("CCatgcTTGTCTTCCACAGAAGACTTATGCGG"), id="samecase"))
    attempt("same overhangs, case", vector.assemble, module)
    vector = vec_cls(CircularRecord(Seq("CCATGCTTGTCTTCCACAGAAGACTTCGTAGG"), id="vector"))
    mgr = attempt("manager", lambda: AssemblyManager(vector, [module], id_="i", name="n"))
    if mgr is not None:
        out("manager attrs", mgr.vector is vector, mgr.modules == [module], mgr.elements == [module, vector], mgr.name, mgr.id)
        attempt("manager assemble", mgr.assemble)
    attempt("not a vector", vec_cls(CircularRecord(Seq("ATGCATGCATGC"), id="nv")).assemble, module)
    rec = SeqRecord(Seq("ATGCATGCAA"), id="cite", annotations={"references": ["r1", "r2"]})
    rec.features.append(SeqFeature(FeatureLocation(0, 3), type="CDS", qualifiers={"citation": ["[2]", "[1]"]}))
    rec.features.append(SeqFeature(FeatureLocation(2, 5), type="CDS", qualifiers={"citation": []}))
    rec.features.append(SeqFeature(FeatureLocation(2, 6), type="CDS", qualifiers={}))
    if mgr is not None:
        attempt("deref", mgr._deref_citations, rec)
        out("after deref", dump_record(rec))
        rec.features[0].qualifiers["citation"].append("r3")
        attempt("ref", mgr._ref_citations, rec)
        out("after ref", dump_record(rec))
        bare = SeqRecord(Seq("ATGC"), id="bare")
        bare.features.append(SeqFeature(FeatureLocation(0, 3), type="CDS", qualifiers={"citation": ["[1]"]}))
        attempt("deref without references", mgr._deref_citations, bare)
        attempt("ref without references", mgr._ref_citations, bare)
        out("after bare", dump_record(bare))
    attempt("add_as_source", add_as_source, SeqRecord(Seq("AT"), id="src"), SeqRecord(Seq("ATGC"), id="dst"))
    attempt("add_as_source loc", add_as_source, SeqRecord(Seq("AT"), id="src"), SeqRecord(Seq("ATGC"), id="dst"), FeatureLocation(1, 2))


# --- 5. circular records -----------------------------------------------------


def section_records():
    out("== records")
    for trial in range(30):
        n = RNG.choice([1, 2, 7, 12, 25])
        base = SeqRecord(Seq(rand_dna(n)), id="b{}".format(trial), name="nm", description="ds")
        if n > 2:
            decorate(base)
        if trial % 4 == 0:
            base.annotations["topology"] = "circular"
        if trial % 7 == 3:
            base.annotations["topology"] = "linear"
        rec = attempt("wrap {}".format(trial), CircularRecord, base)
        out("source after wrap", dump_record(base))
        if rec is None:
            continue
        out("independent copies", rec.features is not base.features, rec.annotations is not base.annotations)
        for k in (0, 1, n - 1, n, n + 3, -2, 3 * n + 1):
            attempt("rshift {} {}".format(trial, k), lambda: rec >> k)
            attempt("lshift {} {}".format(trial, k), lambda: rec << k)
        out("same object on zero shift", (rec >> 0) is rec, (rec << n) is rec)
        for kwargs in ({}, {"id": True, "name": True, "description": True, "annotations": True, "dbxrefs": True},
                       {"features": False, "letter_annotations": False}, {"id": "other", "annotations": {"k": "v"}}):
            flipped = attempt("revcomp {} {}".format(trial, sorted(kwargs)), rec.reverse_complement, **kwargs)
            if flipped is not None:
                out("revcomp type", type(flipped).__name__)
                attempt("revcomp twice", flipped.reverse_complement, **kwargs)
        for index in (0, -1, slice(0, 3), slice(2, None), slice(None, None, 2), slice(5, 2)):
            attempt("getitem {} {}".format(trial, index), lambda: rec[index])
        for probe in ("A", str(rec.seq), str(rec.seq)[-2:] + str(rec.seq)[:2], str(rec.seq) * 2, ""):
            attempt("contains {} {}".format(trial, probe), lambda: probe in rec)
        attempt("add", lambda: rec + rec)
        attempt("radd", lambda: "AT" + rec)
        out("record after", dump_record(rec))
    attempt("linear rejected", CircularRecord, Seq("ATGC"), annotations={"topology": "linear"})
    attempt("upper accepted", CircularRecord, Seq("ATGC"), annotations={"topology": "Circular"})
    attempt("defaults", CircularRecord, Seq("ATGC"))


# --- 6. bundled kits ---------------------------------------------------------


def section_kits():
    out("== kits")
    from moclo.kits import ytk, cidar, ecoflex, moclo as moclo_kit, plant

    for kit in (ytk, cidar, ecoflex, moclo_kit, plant):
        for attr in sorted(dir(kit)):
            obj = getattr(kit, attr)
            if isinstance(obj, type) and issubclass(obj, (AbstractModule, AbstractVector, AbstractPart)):
                attempt("kit {} {}".format(kit.__name__, attr), obj.structure)
                attempt("kit new {} {}".format(kit.__name__, attr), lambda: obj(CircularRecord(Seq("ATGCATGC"), id="k")).is_valid())
    a, b, c = "ATGC", "GGCA", "TTAG"
    enzyme = Restriction.BsaI
    m1 = CircularRecord(Seq(rotate(module_text(enzyme, a, b), 11)), id="k1")
    m2 = CircularRecord(Seq(rotate(module_text(enzyme, b, c), 5)), id="k2")
    v = CircularRecord(Seq(rotate(vector_text(enzyme, c, a), 17)), id="kv")
    for rec in (m1, m2, v):
        decorate(rec)
    attempt("ytk assembly", ytk.YTKCassetteVector(v).assemble, ytk.YTKEntry(m1), ytk.YTKEntry(m2))
    attempt("cidar assembly", cidar.CIDARCassetteVector(v).assemble, cidar.CIDAREntry(m1), cidar.CIDAREntry(m2))
    out("kit inputs after", snapshot([ytk.YTKEntry(m1), ytk.YTKEntry(m2), ytk.YTKCassetteVector(v)]))
    attempt("characterize", ytk.YTKPart.characterize, m1)


def main():
    for section in (section_regex, section_structures, section_entities, section_assemblies, section_records, section_kits):
        section()
    digest = hashlib.sha256("\n".join(LINES).encode("utf-8")).hexdigest()
    if "--dump" in sys.argv:
        print("\n".join(LINES))
    print("observations: {}".format(len(LINES)))
    print("digest: {}".format(digest))


if __name__ == "__main__":
    main()
