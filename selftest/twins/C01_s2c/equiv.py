# coding: utf-8
"""Differential test: prints a digest of everything observable through the
existing API of the code touched by the pull request.

Run as: cd /tmp/agents8/C01 && /venv/bin/python pairs_out/C01_s2/equiv.py
The digest must be the same on the pristine tree and with clean.diff applied.
"""
import hashlib
import inspect
import json
import random
import re
import sys
import warnings

sys.path.insert(0, "/tmp/agents8/C01")
warnings.simplefilter("ignore")
import tests  # noqa: E402,F401

from Bio.Seq import Seq  # noqa: E402
from Bio.SeqFeature import SeqFeature, FeatureLocation, Reference  # noqa: E402
from Bio.SeqRecord import SeqRecord  # noqa: E402
from Bio.Restriction import AllEnzymes  # noqa: E402
from Bio import Restriction  # noqa: E402

import moclo.core  # noqa: E402
from moclo import errors  # noqa: E402
from moclo._utils import isabstract  # noqa: E402
from moclo.record import CircularRecord  # noqa: E402
from moclo.regex import DNARegex  # noqa: E402
from moclo.core import (  # noqa: E402
    AbstractModule,
    AbstractVector,
    AbstractPart,
    Product,
    Entry,
    Cassette,
    Device,
    EntryVector,
    CassetteVector,
    DeviceVector,
)
from moclo.core._structured import StructuredRecord  # noqa: E402
from moclo.kits import cidar, ecoflex, moclo as moclokit, plant, ytk  # noqa: E402
from moclo.registry.cidar import CIDARRegistry  # noqa: E402
from moclo.registry.ecoflex import EcoFlexRegistry  # noqa: E402
from moclo.registry.plant import PlantRegistry  # noqa: E402
from moclo.registry.ytk import YTKRegistry, PTKRegistry  # noqa: E402

OUT = []
COUNT = {"ok": 0, "exc": 0}


def emit(*row):
    OUT.append(json.dumps(row, sort_keys=True, default=str))


def scrub(text):
    # no object addresses in the digest
    return re.sub(r" at 0x[0-9a-fA-F]+", " at 0x?", text)


def outcome(func, *args, **kwargs):
    """Call and describe: value or exception, plus the warnings raised."""
    with warnings.catch_warnings(record=True) as caught:
        warnings.simplefilter("always")
        try:
            value = ("ok", describe(func(*args, **kwargs)))
            COUNT["ok"] += 1
        except Exception as exc:  # noqa
            value = ("exc", type(exc).__name__, scrub(str(exc)))
            COUNT["exc"] += 1
    warns = [(type(w.message).__name__, scrub(str(w.message))) for w in caught]
    return value, warns


def describe_feature(f):
    return (f.type, str(f.location), f.id, sorted((k, describe(v)) for k, v in f.qualifiers.items()))


def describe(x):
    if isinstance(x, SeqRecord):
        return {
            "cls": type(x).__name__,
            "seq": str(x.seq),
            "id": x.id,
            "name": x.name,
            "desc": x.description,
            "dbxrefs": list(x.dbxrefs),
            "ann": sorted((k, describe(v)) for k, v in x.annotations.items()),
            "feat": [describe_feature(f) for f in x.features],
            "letter": sorted((k, str(v)) for k, v in x.letter_annotations.items()),
        }
    if isinstance(x, Seq):
        return ("Seq", str(x))
    if isinstance(x, Reference):
        return ("Reference", x.title, x.authors, [str(l) for l in x.location])
    if isinstance(x, (list, tuple)):
        return [describe(i) for i in x]
    if isinstance(x, dict):
        return sorted((str(k), describe(v)) for k, v in x.items())
    if isinstance(x, (str, int, float, bool)) or x is None:
        return x
    if isinstance(x, StructuredRecord):
        return ("entity", type(x).__name__, x.record.id)
    if isinstance(x, type):
        return ("class", x.__name__)
    return ("obj", type(x).__name__)


# --- 1. classes ---------------------------------------------------------------

KIT_MODULES = [cidar, ecoflex, moclokit, plant, ytk]
CORE_MODULES = [moclo.core, moclo.core.modules, moclo.core.vectors, moclo.core.parts]


def kit_classes():
    seen = [StructuredRecord]
    for mod in CORE_MODULES + KIT_MODULES:
        for name, obj in sorted(vars(mod).items()):
            if isinstance(obj, type) and issubclass(obj, StructuredRecord):
                if obj not in seen and obj.__module__.startswith("moclo."):
                    seen.append(obj)
    return seen


ALL_CLASSES = kit_classes()
# names of classes that exist in the pristine tree (new helper bases which a
# pull request may introduce are not part of the comparison)
KNOWN = {
    "object", "StructuredRecord", "AbstractModule", "AbstractVector", "AbstractPart",
    "Product", "Entry", "Cassette", "Device", "EntryVector", "CassetteVector", "DeviceVector",
}
KNOWN |= {c.__name__ for c in ALL_CLASSES if c.__module__.startswith("moclo.kits")}

for cls in ALL_CLASSES:
    if cls.__name__ not in KNOWN:
        continue
    emit(
        "class",
        cls.__module__,
        cls.__name__,
        [c.__name__ for c in cls.__mro__ if c.__name__ in KNOWN],
        str(getattr(cls, "cutter", None)),
        describe(getattr(cls, "signature", None)),
        getattr(cls, "_level", "missing"),
        isabstract(cls),
        inspect.isabstract(cls),
        outcome(cls.structure),
        (cls.__doc__ or "")[:60],
        sorted(
            n for n in ("structure", "overhang_start", "overhang_end", "target_sequence",
                        "placeholder_sequence", "assemble", "is_valid", "characterize")
            if callable(getattr(cls, n, None))
        ),
    )
    for other in ALL_CLASSES:
        if other.__name__ in KNOWN and issubclass(cls, other) and cls is not other:
            emit("issubclass", cls.__name__, other.__name__)
    # instantiation on a dummy record (cutter check / abstract check)
    emit("new", cls.__name__, outcome(lambda: type(cls(CircularRecord(Seq("ATGC"), "x"))).__name__))


# --- 2. generic classes over every enzyme -------------------------------------

ENZYMES = sorted(AllEnzymes, key=str)


def generic(enzyme, sig=("ATGC", "CCGA")):
    ns = {"cutter": enzyme}
    M = type(str("M"), (AbstractModule,), dict(ns))
    V = type(str("V"), (AbstractVector,), dict(ns))
    PM = type(str("PM"), (AbstractPart, Entry), dict(ns, signature=sig))
    PV = type(str("PV"), (AbstractPart, CassetteVector), dict(ns, signature=sig))
    PX = type(str("PX"), (AbstractPart,), dict(ns, signature=sig))
    return M, V, PM, PV, PX


for enzyme in ENZYMES:
    row = [str(enzyme)]
    for cls in generic(enzyme):
        row.append(outcome(cls.structure))
        row.append(outcome(lambda: cls(CircularRecord(Seq("ATGCATGCATGCATGCATGCATGC"), "r")).is_valid()))
    emit("enzyme", *row)

emit("nocutter", outcome(AbstractModule.structure), outcome(AbstractVector.structure),
     outcome(AbstractPart.structure), outcome(lambda: AbstractModule(None)),
     outcome(lambda: AbstractVector(None)), outcome(lambda: AbstractPart(None)))


# --- 3. assemblies built from the structures ----------------------------------

COMP = {"A": "T", "C": "G", "G": "C", "T": "A"}
IUPAC = {
    "A": "A", "C": "C", "G": "G", "T": "T", "N": "ACGT", "B": "CGT", "D": "AGT", "H": "ACT",
    "K": "GT", "M": "AC", "R": "AG", "S": "CG", "V": "ACG", "W": "AT", "Y": "CT",
}


def rc(s):
    return "".join(COMP[c] for c in reversed(s))


def instantiate(pattern, rng, inner, g1=None, g3=None):
    """Build a sequence matching a structure pattern (3 groups)."""
    m = re.match(r"^([^()]*)\(([^()]*)\)\(([^()]*)\)\(([^()]*)\)([^()]*)$", pattern)
    if m is None:
        return None
    pre, a, b, c, post = m.groups()

    def fill(piece, forced=None):
        if forced is not None and set(piece) <= set("N"):
            return forced
        piece = piece.replace("N*?", "*").replace("N*", "*")
        out = []
        for letter in piece:
            if letter == "*":
                out.append("".join(rng.choice("ACGT") for _ in range(inner)))
            else:
                out.append(rng.choice(IUPAC.get(letter, letter)))
        return "".join(out)

    return fill(pre) + fill(a, g1) + fill(b) + fill(c, g3) + fill(post)


def plasmid(cls, rng, inner, backbone, g1=None, g3=None, rotation=0, case=None, ident="r"):
    try:
        pattern = cls.structure()
    except Exception:
        return None
    core = instantiate(pattern, rng, inner, g1, g3)
    if core is None:
        return None
    seq = core + "".join(rng.choice("ACGT") for _ in range(backbone))
    rotation %= len(seq)
    seq = seq[rotation:] + seq[:rotation]
    if case == "lower":
        seq = seq.lower()
    elif case == "mixed":
        seq = "".join(ch.lower() if rng.random() < 0.5 else ch for ch in seq)
    return seq


def annotated(seq, ident, rng, citations=False, cls=CircularRecord):
    rec = cls(Seq(seq), id=ident, name=ident + "_name", description="desc " + ident)
    n = len(seq)
    a, b = sorted(rng.sample(range(n), 2))
    rec.features.append(SeqFeature(FeatureLocation(a, b, 1), type="misc_feature", qualifiers={"label": [ident + "_f1"]}))
    rec.features.append(SeqFeature(FeatureLocation(0, n, 1), type="source", qualifiers={"organism": ["x"]}))
    if citations:
        ref = Reference()
        ref.title = "title " + ident
        ref.authors = "auth"
        rec.annotations["references"] = [ref]
        rec.features[0].qualifiers["citation"] = ["[1]"]
    rec.annotations["topology"] = "circular"
    return rec


def entity_report(ent):
    """Everything observable on a module / vector / part instance."""
    rep = [type(ent).__name__]
    rep.append(outcome(ent.is_valid))
    rep.append(outcome(ent.is_valid))
    for name in ("overhang_start", "overhang_end", "target_sequence", "placeholder_sequence"):
        meth = getattr(ent, name, None)
        if meth is not None:
            rep.append((name, outcome(meth)))
    rep.append(("record-after", describe(ent.record)))
    return rep


def assemble_report(tag, vec, mods, **kw):
    res = outcome(lambda: vec.assemble(*mods, **kw))
    emit("assembly", tag, res, [describe(m.record) for m in mods], describe(vec.record))


def chain_case(tag, V, M, rng, nmod, case=None, citations=False, reccls=CircularRecord, oh=4):
    """A vector and `nmod` chained modules of the given classes."""
    ovs = []
    while len(ovs) < nmod + 1:
        o = "".join(rng.choice("ACGT") for _ in range(oh))
        if o == rc(o) or o in ovs or rc(o) in ovs:
            if oh == 1 and len(ovs) >= 2:
                break
            continue
        ovs.append(o)
    nmod = len(ovs) - 1
    vs = plasmid(V, rng, rng.choice([0, 3, 11]), rng.choice([2, 5, 30]), g1=ovs[0], g3=ovs[nmod],
                 rotation=rng.randrange(200), case=case)
    if vs is None:
        emit("assembly", tag, "no-structure")
        return
    vec = V(annotated(vs, "vec", rng, citations, reccls))
    mods = []
    for i in range(nmod):
        ms = plasmid(M, rng, rng.choice([0, 2, 9]), rng.choice([0, 1, 17]), g1=ovs[i], g3=ovs[i + 1],
                     rotation=rng.randrange(200), case=case)
        mods.append(M(annotated(ms, "mod%d" % i, rng, citations, reccls)))
    order = list(range(nmod))
    rng.shuffle(order)
    emit("entity", tag, entity_report(V(annotated(vs, "vec", rng, citations, reccls))))
    for m in mods[:2]:
        emit("entity", tag, entity_report(M(annotated(str(m.record.seq), m.record.id, rng, citations, reccls))))
    assemble_report(tag, vec, [mods[i] for i in order])
    return vec, mods


def type2s(e):
    if e.is_blunt() or e.is_unknown() or e.cut_twice() or e.is_palindromic():
        return False
    if set(e.site) - set("ACGT") or len(e.site) < 5:
        return False
    return True


rng = random.Random(20260927)
seen_geo = {}
for e in ENZYMES:
    if type2s(e):
        key = (e.is_5overhang(), len(e.site), e.fst5, e.fst3, e.ovhg)
        seen_geo.setdefault(key, e)
GEO = [seen_geo[k] for k in sorted(seen_geo)]
emit("geometries", [str(e) for e in GEO])

for e in GEO:
    M, V, PM, PV, PX = generic(e)
    oh = abs(e.ovhg) or 1
    for k, nmod in enumerate((1, 2, 4)):
        chain_case("generic-%s-%d" % (e, k), V, M, rng, nmod, oh=oh)
    # parts: signature-bound module into a free vector, free modules into a part vector
    sig = ("".join(rng.choice("ACGT") for _ in range(oh)), "".join(rng.choice("ACGT") for _ in range(oh)))
    M2, V2, PM2, PV2, PX2 = generic(e, sig)
    # a part vector receiving (a, b) modules has the signature (b, a)
    _, _, _, PVr, _ = generic(e, (sig[1], sig[0]))
    for P, W, tag in ((PM2, V2, "partmod"), (M2, PVr, "partvec"), (PM2, PVr, "partboth"), (PM2, PV2, "partmismatch")):
        vs = plasmid(W, rng, 5, 9, g1=sig[0], g3=sig[1], rotation=rng.randrange(100))
        ms = plasmid(P, rng, 4, 6, g1=sig[0], g3=sig[1], rotation=rng.randrange(100))
        if vs is None or ms is None:
            emit("assembly", tag, str(e), "no-structure")
            continue
        assemble_report("%s-%s" % (tag, e), W(annotated(vs, "vec", rng)), [P(annotated(ms, "mod", rng))])
    emit("purepart", str(e), outcome(lambda: PX2(annotated("ATGCATGCATGCATGC", "p", rng)).is_valid()))

# every rotation of one small assembly per bundled enzyme
for e in (Restriction.BsaI, Restriction.BpiI, Restriction.BsmBI, Restriction.BbsI, Restriction.SapI):
    M, V, _, _, _ = generic(e)
    oh = abs(e.ovhg)
    up, down = "ACGTA"[:oh], "TTGCA"[:oh]
    vs0 = plasmid(V, rng, 2, 4, g1=up, g3=down)
    ms0 = plasmid(M, rng, 3, 2, g1=up, g3=down)
    for r in range(len(vs0)):
        vs = vs0[r:] + vs0[:r]
        res = outcome(lambda: V(CircularRecord(Seq(vs), "v")).assemble(M(CircularRecord(Seq(ms0), "m"))))
        emit("rot-v", str(e), r, res)
    for r in range(len(ms0)):
        ms = ms0[r:] + ms0[:r]
        res = outcome(lambda: V(CircularRecord(Seq(vs0), "v")).assemble(M(CircularRecord(Seq(ms), "m"))))
        emit("rot-m", str(e), r, res)
        emit("rot-e", str(e), r, entity_report(M(CircularRecord(Seq(ms), "m"))))

# letter case, citations, record classes, names
for case in (None, "lower", "mixed"):
    for cit in (False, True):
        M, V, _, _, _ = generic(Restriction.BsaI)
        chain_case("case-%s-%s" % (case, cit), V, M, rng, 3, case=case, citations=cit)
M, V, _, _, _ = generic(Restriction.BpiI)
chain_case("seqrecord", V, M, rng, 2, reccls=SeqRecord)
got = chain_case("named", V, M, rng, 2)
if got:
    vec, mods = got
    assemble_report("named-kw", vec, mods, name="my_name", id="my_id")
    assemble_report("again", vec, mods)  # same objects a second time
    assemble_report("twice-same", vec, mods + mods[:1])
    assemble_report("missing", vec, mods[:1])
    assemble_report("reversed", vec, list(reversed(mods)))

# linear topology
seqv = "CCATGCTTGTCTTCCACAGAAGACTTCGTAGG"
for topo in ("linear", "circular", "Circular", None):
    rec = SeqRecord(Seq(seqv), "vector")
    if topo is not None:
        rec.annotations["topology"] = topo
    for r in (0, 7, 20):
        rec2 = SeqRecord(Seq(seqv[r:] + seqv[:r]), "vector", annotations=dict(rec.annotations))
        emit("topology", topo, r, entity_report(V(rec2)))

# failing assemblies of the test-suite kind, and others
V_, M_ = V, M


def mk(cls, s, i):
    return cls(CircularRecord(Seq(s), i))


assemble_report("invalid-vector", mk(V_, "CCATGCTTGTCTTCCACAGAAGACTTATGCGG", "vector"),
                [mk(M_, "GAAGACTTATGCCACAATGCTTGTCTTC", "module")])
assemble_report("duplicates", mk(V_, "CCATGCTTGTCTTCCACAGAAGACTTCGTAGG", "vector"),
                [mk(M_, "GAAGACTTATGCCACACGTATTGTCTTC", "mod1"), mk(M_, "GAAGACTTATGCTATACGTATTGTCTTC", "mod2")])
assemble_report("missing", mk(V_, "CCATGCTTGTCTTCCACAGAAGACTTCGTAGG", "vector"),
                [mk(M_, "GAAGACTTATGACACACGTATTGTCTTC", "mod1")])
assemble_report("unused", mk(V_, "CCATGCTTGTCTTCCACAGAAGACTTCGTAGG", "vector"),
                [mk(M_, "GAAGACTTATGCTATACGTATTGTCTTC", "mod1"), mk(M_, "GAAGACTTAAAACACACCCCTTGTCTTC", "mod2")])
assemble_report("revcomp", mk(V_, "CCATGCTTGTCTTCCACAGAAGACTTCGTAGG", "vector"),
                [mk(M_, "GAAGACTTCGTATATAGCATTTGTCTTC", "mod1"), mk(M_, "GAAGACTTATGCCACACGTATTGTCTTC", "mod2")])
assemble_report("illegal-site", mk(V_, "CCATGCTTGTCTTCCACAGAAGACTTCGTAGG", "vector"),
                [mk(M_, "GAAGACTTCGTATAGAAGACTATGCTTGTCTTC", "mod1")])
assemble_report("not-a-module", mk(V_, "CCATGCTTGTCTTCCACAGAAGACTTCGTAGG", "vector"),
                [mk(M_, "ATGCATGCATGCTTGACTGACTG", "mod1")])
assemble_report("not-a-vector", mk(V_, "ATGCATGCATGCTTGACTGACTG", "vector"),
                [mk(M_, "GAAGACTTCGTATATAGCATTTGTCTTC", "mod1")])
bad = mk(M_, "GAAGACTTCGTATAGAAGACTATGCTTGTCTTC", "mod1")
emit("illegal-twice", outcome(bad.is_valid), outcome(bad.is_valid), outcome(bad.target_sequence))


# --- 4. kit classes on generated plasmids -------------------------------------

for cls in ALL_CLASSES:
    if cls.__name__ not in KNOWN or not cls.__module__.startswith("moclo.kits"):
        continue
    for k in range(3):
        s = plasmid(cls, rng, rng.choice([2, 8, 40]), rng.choice([3, 25]), rotation=rng.randrange(300),
                    case=(None, None, "mixed")[k])
        if s is None:
            emit("kit-entity", cls.__name__, k, "no-structure")
            continue
        emit("kit-entity", cls.__name__, k, outcome(lambda: entity_report(cls(annotated(s, "k", rng)))))

KIT_CHAINS = [
    ("cidar-l-1", cidar.CIDAREntryVector, cidar.CIDARProduct),
    ("cidar-l0", cidar.CIDARCassetteVector, cidar.CIDAREntry),
    ("cidar-l1", cidar.CIDARDeviceVector, cidar.CIDARCassette),
    ("moclo-l-1", moclokit.MoCloEntryVector, moclokit.MoCloProduct),
    ("moclo-l0", moclokit.MoCloCassetteVector, moclokit.MoCloEntry),
    ("moclo-l0s", moclokit.MoCloSingleCassetteVector, moclokit.MoCloEntry),
    ("moclo-l1", moclokit.MoCloDeviceVector, moclokit.MoCloCassette),
    ("ecoflex-l0", ecoflex.EcoFlexCassetteVector, ecoflex.EcoFlexEntry),
    ("ecoflex-l1", ecoflex.EcoFlexDeviceVector, ecoflex.EcoFlexCassette),
    ("ytk-l-1", ytk.YTKEntryVector, ytk.YTKProduct),
    ("ytk-l0", ytk.YTKCassetteVector, ytk.YTKEntry),
    ("ytk-l1", ytk.YTKDeviceVector, ytk.YTKCassette),
]
for tag, V, M in KIT_CHAINS:
    for nmod in (1, 3):
        chain_case("%s-%d" % (tag, nmod), V, M, rng, nmod)

# signature-driven kit chains
PART_CHAINS = [
    ("cidar-parts", cidar.CIDARCassetteVector, ("GGAG", "GCTT"),
     [cidar.CIDARPromoter, cidar.CIDARRibosomeBindingSite, cidar.CIDARCodingSequence, cidar.CIDARTerminator]),
    ("ecoflex-parts", ecoflex.EcoFlexCassetteVector, ("CTAT", "TGTT"),
     [ecoflex.EcoFlexPromoterRBS, ecoflex.EcoFlexCodingSequence, ecoflex.EcoFlexTerminator]),
    ("ecoflex-parts-pal", ecoflex.EcoFlexCassetteVector, ("CTAT", "TGTT"),
     [ecoflex.EcoFlexPromoter, ecoflex.EcoFlexRBS, ecoflex.EcoFlexCodingSequence, ecoflex.EcoFlexTerminator]),
    ("moclo-parts", moclokit.MoCloCassetteVector, ("GGAG", "CGCT"),
     [moclokit.MoCloPro, moclokit.MoClo5U, moclokit.MoCloCDS1, moclokit.MoClo3U, moclokit.MoCloTer]),
    ("plant-parts", moclokit.MoCloCassetteVector, ("GGAG", "CGCT"),
     [plant.PlantPro5U, plant.PlantCDS, plant.PlantCSignal, plant.Plant3U, plant.PlantTer]),
    ("ytk-parts", ytk.YTKPart8, None,
     [ytk.YTKPart1, ytk.YTKPart2, ytk.YTKPart3, ytk.YTKPart4, ytk.YTKPart5, ytk.YTKPart6, ytk.YTKPart7]),
    ("ytk-parts-ab", ytk.YTKPart8a, None,
     [ytk.YTKPart1, ytk.YTKPart2, ytk.YTKPart3a, ytk.YTKPart3b, ytk.YTKPart4a, ytk.YTKPart4b,
      ytk.YTKPart5, ytk.YTKPart6, ytk.YTKPart7, ytk.YTKPart8b]),
    ("ytk-678", ytk.YTKPart678, None, [ytk.YTKPart1, ytk.YTKPart234, ytk.YTKPart5]),
    ("ytk-234r", ytk.YTKPart678, None, [ytk.YTKPart1, ytk.YTKPart234r, ytk.YTKPart5]),
]
for tag, V, ends, parts in PART_CHAINS:
    for trial in range(2):
        first = parts[0].signature[0]
        last = parts[-1].signature[1]
        g1 = ends[0] if ends and set(first) <= set("N") else None
        vs = plasmid(V, rng, 12, 30, g1=(ends[0] if ends else None), g3=(ends[1] if ends else None),
                     rotation=rng.randrange(500))
        vec = V(annotated(vs, "vec", rng, citations=bool(trial)))
        mods = []
        for i, P in enumerate(parts):
            up = ends[0] if (ends and i == 0) else None
            down = ends[1] if (ends and i == len(parts) - 1) else None
            ms = plasmid(P, rng, 10 + i, 20, g1=up, g3=down, rotation=rng.randrange(500))
            mods.append(P(annotated(ms, "p%d" % i, rng, citations=bool(trial))))
        rng.shuffle(mods)
        assemble_report("%s-%d" % (tag, trial), vec, mods)


# --- 5. registries ------------------------------------------------------------

for Reg in (CIDARRegistry, EcoFlexRegistry, PlantRegistry, YTKRegistry, PTKRegistry):
    reg = Reg()
    for ident in sorted(reg):
        item = reg[ident]
        ent = item.entity
        rep = [type(ent).__name__, outcome(ent.is_valid)]
        for name in ("overhang_start", "overhang_end"):
            rep.append(outcome(getattr(ent, name)))
        tgt = outcome(lambda: hashlib.sha1(str(ent.target_sequence().seq).encode()).hexdigest())
        rep.append(tgt)
        emit("registry", Reg.__name__, ident, item.name, item.resistance, rep)

ytkreg = YTKRegistry()
for ident, base in (("pYTK002", ytk.YTKPart), ("pYTK095", ytk.YTKPart), ("pYTK047", ytk.YTKPart),
                    ("pYTK002", ytk.YTKEntry), ("pYTK001", ytk.YTKPart)):
    rec = ytkreg[ident].entity.record
    emit("characterize", ident, base.__name__, outcome(lambda: type(base.characterize(rec)).__name__))

# a real-world assembly from the registry (the YTK paper's cassette)
cass = ["pYTK002", "pYTK011", "pYTK033", "pYTK051", "pYTK067", "pYTK074", "pYTK081"]
vec = ytkreg["pYTK084"].entity if "pYTK084" in list(ytkreg) else None
if vec is not None:
    res = outcome(lambda: vec.assemble(*[ytkreg[i].entity for i in cass]))
    emit("ytk-real", res if res[0][0] == "exc" else (hashlib.sha1(json.dumps(res, default=str).encode()).hexdigest()))
cidreg = CIDARRegistry()
emit("cidar-ids", sorted(cidreg)[:5])


# --- 6. pattern matcher and circular records ----------------------------------

from moclo.regex import SeqMatch  # noqa: E402
from moclo.core._assembly import AssemblyManager  # noqa: E402

emit("lettermap", sorted(DNARegex._lettermap.items()), len(DNARegex._lettermap),
     [DNARegex._lettermap.get(k) for k in "ABN?"], "N" in DNARegex._lettermap,
     DNARegex._transcribe("GGTCTCN(NNNN)(NBDHKMRSVWY*)"))
emit("regex-type", outcome(lambda: DNARegex("NN").search("ATGC")), outcome(lambda: DNARegex("NN").search(None)),
     outcome(lambda: DNARegex(None)))


def match_report(m):
    if m is None:
        return None
    rep = [m.start(), m.end(), m.span(), m.shift]
    for g in range(m.match.re.groups + 1):
        rep.append((m.span(g), outcome(m.group, g)))
    rep.append(outcome(m.group, m.match.re.groups + 1))
    return rep


PATTERNS = ["AA(NN)", "(A)(N*)(T)", "G(AT)?(C)", "(NNN)(N*)(ACG)", "(CGTCTCN)(NNNN)(N*?)(NNNN)(NGAGACG)"]
SEQS = ["ATGCAGCATA", "CGTCTCAGGATCAATGCCCGTTTTAGAGACGGG", "aaTTaa", "GC", "TTGACGAAACGT"]
for pat in PATTERNS:
    rx = DNARegex(pat)
    emit("pattern", pat, rx.pattern, rx.regex.pattern)
    for text in SEQS:
        for r in range(len(text)):
            rot = text[r:] + text[:r]
            forms = [
                ("seq-lin", Seq(rot), {}),
                ("seq-circ", Seq(rot), {"linear": False}),
                ("rec-lin", SeqRecord(Seq(rot), "r"), {}),
                ("rec-circ", SeqRecord(Seq(rot), "r"), {"linear": False}),
                ("circ", annotated(rot, "c", rng) if len(rot) > 2 else CircularRecord(Seq(rot), "c"), {}),
                ("circ-lin", CircularRecord(Seq(rot), "c"), {"linear": True}),
            ]
            for tag, obj, kw in forms:
                emit("search", pat, tag, r, outcome(lambda: match_report(rx.search(obj, **kw))))
        for pos, endpos in ((0, 3), (2, 100), (5, 5), (-2, 4), (len(text) - 1, len(text)), (len(text), 50)):
            emit("search-pos", pat, text, pos, endpos,
                 outcome(lambda: match_report(rx.search(Seq(text), pos, endpos))),
                 outcome(lambda: match_report(rx.search(Seq(text), pos=pos, endpos=endpos, linear=False))),
                 outcome(lambda: match_report(rx.search(CircularRecord(Seq(text), "c"), pos, endpos))))

# rotations of annotated circular records
base = annotated("ATGCATGGCCTTAAGGCATCGATCGGATTACA", "rot", rng, citations=True)
base.features.append(SeqFeature(FeatureLocation(28, 32, -1) + FeatureLocation(0, 5, -1), type="join"))
base.features.append(SeqFeature(None, type="nowhere"))
base.letter_annotations["phred_quality"] = list(range(len(base)))
base.dbxrefs.append("db:1")
for index in list(range(-40, 75)) + [10 ** 6, -(10 ** 6)]:
    emit("rshift", index, outcome(lambda: base >> index))
    emit("lshift", index, outcome(lambda: base << index))
emit("shift-same", (base >> 0) is base, (base << 32) is base, (base >> 64) is base, (base >> 1) is base)
emit("shift-bad", outcome(lambda: base >> "1"), outcome(lambda: base << None), outcome(lambda: base >> 1.5),
     outcome(lambda: CircularRecord(Seq(""), "e") >> 1), outcome(lambda: CircularRecord(Seq(""), "e") << 0))
emit("rot-after", describe(base))
emit("contains", "GATTACAATG" in base, "ATGCATGGCCTTAAGGCATCGATCGGATTACAA" in base, outcome(lambda: Seq("ACAATG") in base),
     outcome(lambda: base + base), outcome(lambda: "A" + base), outcome(lambda: base[30:]), outcome(lambda: base[3]),
     outcome(lambda: base.reverse_complement()))
emit("circular-init", outcome(lambda: CircularRecord(SeqRecord(Seq("ATGC"), "l", annotations={"topology": "linear"}))),
     outcome(lambda: CircularRecord(Seq("ATGC"), annotations={"topology": "Circular"})),
     outcome(lambda: CircularRecord(base)))

# the assembly manager used directly
M, V, _, _, _ = generic(Restriction.BpiI)
v = mk(V, "CCATGCTTGTCTTCCACAGAAGACTTCGTAGG", "vector")
m1 = mk(M, "GAAGACTTATGCTATACGTATTGTCTTC", "mod1")
m2 = mk(M, "GAAGACTTAAAACACACCCCTTGTCTTC", "mod2")
mods = [m1, m2]
mgr = AssemblyManager(v, mods, id_="i", name="n")
emit("manager", [m.record.id for m in mgr.modules], [e.record.id for e in mgr.elements], mgr.vector.record.id,
     mgr.id, mgr.name, outcome(mgr.assemble), [m.record.id for m in mods],
     outcome(lambda: AssemblyManager(v, (m1,))), outcome(lambda: AssemblyManager(v, [])),
     outcome(lambda: AssemblyManager(v, []).assemble()), outcome(lambda: AssemblyManager(v, [m1, m1]).assemble()))


m1b = M(m1.record)
emit("identity", m1 == m1, m1 == m1b, m1 != m1b, m1 != m1, m1 == "x", m1 != None, v == m1,  # noqa: E711
     hash(m1) == object.__hash__(m1), len({m1, m1b, m1}), m1 in [m1b], m1b in (m1, m1b),
     outcome(lambda: v.assemble(m1, m1b)), outcome(lambda: v.assemble(m1, m1)))


class Exploding(M):
    """A module whose fragment extraction fails with a KeyError."""

    def target_sequence(self):
        return {}["fragment"]


emit("manager-keyerror", outcome(lambda: v.assemble(mk(Exploding, "GAAGACTTATGCTATACGTATTGTCTTC", "boom"))))

digest = hashlib.sha256("\n".join(OUT).encode("utf-8")).hexdigest()
if len(sys.argv) > 1:
    with open(sys.argv[1], "w") as fh:
        fh.write("\n".join(OUT))
print("rows", len(OUT), "ok", COUNT["ok"], "exc", COUNT["exc"])
print("DIGEST", digest)
