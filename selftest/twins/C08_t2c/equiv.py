# coding: utf-8
"""Differential test for the C08 pull requests.

Exercises rotation / slicing / construction of `CircularRecord`, the
module and vector accessors (overhangs, target and placeholder sequences),
whole assemblies (succeeding and failing, with citations) and every record
of every embedded registry, then prints a digest of everything observed:
results, exception types / messages / args, warnings, and the state of the
inputs afterwards.
"""
from __future__ import print_function

import hashlib
import random
import re
import sys
import warnings

sys.path.insert(0, "/tmp/agents9/C08")
import tests  # noqa: F401,E402

from Bio.Seq import Seq  # noqa: E402
from Bio.SeqRecord import SeqRecord  # noqa: E402
from Bio.SeqFeature import (  # noqa: E402
    SeqFeature,
    FeatureLocation,
    CompoundLocation,
    BeforePosition,
    AfterPosition,
    ExactPosition,
    Reference,
)
from Bio.Restriction import BpiI, BsaI, BsmBI, BbsI, BseRI, EcoRV, SapI  # noqa: E402

from moclo import errors  # noqa: E402
from moclo.record import CircularRecord  # noqa: E402
from moclo.core import vectors, modules, parts  # noqa: E402,F401
from moclo.core._utils import add_as_source, cutter_check  # noqa: E402
from moclo.core._assembly import AssemblyManager  # noqa: E402

LOG = []
SECTIONS = []


_ADDRESS = re.compile(r" at 0x[0-9a-fA-F]+")


def log(*items):
    line = " | ".join(str(i) for i in items)
    LOG.append(_ADDRESS.sub(" at 0x?", line).replace("/tmp/agents9/C08", "<worktree>"))


def section(name):
    SECTIONS.append((name, len(LOG)))


# --- describing things ----------------------------------------------------


def d_pos(p):
    return "{}:{}".format(type(p).__name__, int(p))


def d_loc(loc):
    if loc is None:
        return "None"
    out = [type(loc).__name__, getattr(loc, "operator", "-")]
    for part in loc.parts:
        out.append(
            "({} {} {} {} {} {})".format(
                type(part).__name__,
                d_pos(part.start),
                d_pos(part.end),
                part.strand,
                part.ref,
                part.ref_db,
            )
        )
    return " ".join(out)


def d_quals(q):
    return "{}:{}".format(type(q).__name__, sorted((k, repr(v)) for k, v in q.items()))


def d_feat(f):
    return "<{} id={} {} {}>".format(f.type, f.id, d_loc(f.location), d_quals(f.qualifiers))


def d_rec(r):
    if r is None:
        return "None"
    if not isinstance(r, SeqRecord):
        return "{}:{!r}".format(type(r).__name__, r)
    return "\n    ".join(
        [
            "{} seq={}:{}".format(type(r).__name__, type(r.seq).__name__, str(r.seq)),
            "id={!r} name={!r} desc={!r}".format(r.id, r.name, r.description),
            "dbxrefs={!r}".format(r.dbxrefs),
            "annotations={}".format(sorted((k, repr(v)) for k, v in r.annotations.items())),
            "letter={}".format(sorted((k, repr(v)) for k, v in r.letter_annotations.items())),
        ]
        + [d_feat(f) for f in r.features]
    )


def d_exc(e):
    args = []
    for a in e.args:
        args.append(d_rec(a) if isinstance(a, SeqRecord) else repr(a))
    extra = []
    for attr in ("sequence", "details", "exc", "start_overhang"):
        if hasattr(e, attr):
            v = getattr(e, attr)
            extra.append("{}={}".format(attr, d_rec(v) if isinstance(v, SeqRecord) else repr(v)))
    for attr in ("duplicates", "remaining"):
        if hasattr(e, attr):
            extra.append("{}={}".format(attr, [x.record.id for x in getattr(e, attr)]))
    try:
        msg = str(e)
    except Exception as e2:  # noqa
        msg = "<str failed: {}>".format(type(e2).__name__)
    return "EXC {} msg={!r} args={} {} cause={} ctx={} suppress={}".format(
        type(e).__name__,
        msg,
        args,
        extra,
        type(e.__cause__).__name__,
        type(e.__context__).__name__,
        e.__suppress_context__,
    )


def attempt(label, func, *args, **kwargs):
    with warnings.catch_warnings(record=True) as caught:
        warnings.simplefilter("always")
        try:
            res = func(*args, **kwargs)
        except Exception as e:  # noqa
            res = e
    if isinstance(res, Exception):
        log(label, d_exc(res))
    elif isinstance(res, SeqRecord):
        log(label, d_rec(res))
    else:
        log(label, "{}:{!r}".format(type(res).__name__, res))
    for w in caught:
        if issubclass(w.category, DeprecationWarning):
            continue
        m = w.message
        log(label, "WARN", w.category.__name__, str(m), getattr(m, "details", "-"),
            [x.record.id for x in getattr(m, "remaining", ())])
    return res


# --- 1. records -----------------------------------------------------------

RNG = random.Random(8008)


def rand_seq(n, alphabet="ACGT"):
    return "".join(RNG.choice(alphabet) for _ in range(n))


def rand_location(L):
    kind = RNG.randrange(1, 9) if RNG.random() < 0.97 else 0
    strand = RNG.choice([1, -1, None, 0])
    if kind == 0:
        return None
    if kind in (1, 2, 3):
        a = RNG.randrange(0, L + 1)
        b = RNG.randrange(a, L + 1)
        return FeatureLocation(a, b, strand=strand)
    if kind == 4:  # fuzzy
        a = RNG.randrange(0, L)
        b = RNG.randrange(a, L + 1)
        return FeatureLocation(BeforePosition(a), AfterPosition(b), strand=strand)
    if kind == 5:  # with refs, possibly past the end
        a = RNG.randrange(0, 2 * L + 1)
        b = a + RNG.randrange(0, L + 1)
        return FeatureLocation(a, b, strand=strand, ref="REF1", ref_db="DB")
    if kind == 6:  # whole length
        return FeatureLocation(0, L, strand=strand)
    # compound
    n = RNG.randrange(2, 5)
    ps = []
    for _ in range(n):
        a = RNG.randrange(0, L + 1)
        b = RNG.randrange(a, L + 1)
        s = strand if kind == 7 else RNG.choice([1, -1, None])
        ps.append(FeatureLocation(a, b, strand=s))
    if RNG.random() < 0.3:  # spans everything
        ps[0] = FeatureLocation(0, ps[0].end, strand=ps[0].strand)
        ps[-1] = FeatureLocation(ps[-1].start, L, strand=ps[-1].strand)
    op = RNG.choice(["join", "order"])
    return CompoundLocation(ps, operator=op)


def rand_record(i):
    L = RNG.choice([1, 2, 3, 4, 5, 8, 13, 21, 34])
    seq = rand_seq(L, RNG.choice(["ACGT", "acgt", "ACGTacgtN"]))
    feats = []
    for j in range(RNG.randrange(0, 6)):
        loc = rand_location(L)
        type_ = RNG.choice(["source", "source", "CDS", "misc_feature", "gene"])
        quals = {"label": ["f{}".format(j)], "n": [j, "x"]}
        feats.append(SeqFeature(loc, type=type_, id="id{}".format(j), qualifiers=quals))
    ann = RNG.choice(
        [None, {}, {"topology": "circular"}, {"topology": "CIRCULAR", "k": [1, 2]},
         {"molecule_type": "DNA", "references": ["r1", "r2"]}]
    )
    letan = RNG.choice([None, {"phred_quality": list(range(L))}, {"x": rand_seq(L), "y": tuple(range(L))}])
    dbx = RNG.choice([None, [], ["DB:1", "DB:2"]])
    kw = dict(id="rec{}".format(i), name="n{}".format(i), description="d{}".format(i))
    if RNG.random() < 0.5:
        base = SeqRecord(Seq(seq), dbxrefs=dbx, features=feats, annotations=ann,
                         letter_annotations=letan, **kw)
        return CircularRecord(base), base
    return CircularRecord(Seq(seq), dbxrefs=dbx, features=feats, annotations=ann,
                          letter_annotations=letan, **kw), None


def records_section():
    section("records")
    for i in range(160):
        try:
            rec, base = rand_record(i)
        except Exception as e:  # noqa
            log("build", i, d_exc(e))
            continue
        log("rec", i, d_rec(rec))
        if base is not None:
            log("rec-base-shares", i, rec.features is base.features,
                [a is b for a, b in zip(rec.features, base.features)],
                rec.annotations is base.annotations)
        L = len(rec)
        before = d_rec(rec)
        for k in sorted({0, 1, 2, L - 1, L, L + 1, 2 * L + 3, -1, -L, -L - 2, RNG.randrange(-40, 40)}):
            for opname, op in ((">>", lambda r, k: r >> k), ("<<", lambda r, k: r << k)):
                res = attempt("rot {} {} {}".format(i, opname, k), op, rec, k)
                if isinstance(res, SeqRecord):
                    log("rot-ident", i, opname, k, res is rec, res.annotations is rec.annotations,
                        res.dbxrefs is rec.dbxrefs,
                        [a.qualifiers is b.qualifiers for a, b in zip(res.features, rec.features)],
                        [a.location is b.location for a, b in zip(res.features, rec.features)])
                    if k == 1:
                        attempt("rot2 {} {}".format(i, opname), op, res, 3)
        # slices and items
        for sl in (slice(None), slice(0, L), slice(1, None), slice(None, -1), slice(2, 5),
                   slice(None, None, -1), slice(None, None, 2), slice(L, 0), 0, -1, L, "a"):
            res = attempt("get {} {}".format(i, sl), rec.__getitem__, sl)
            if isinstance(res, SeqRecord):
                log("get-ident", i, sl, res.annotations is rec.annotations,
                    [any(f is g for g in rec.features) for f in res.features])
        attempt("rc {}".format(i), rec.reverse_complement)
        attempt("rc-all {}".format(i), rec.reverse_complement, id=True, name=True,
                description=True, annotations=True, dbxrefs=True)
        attempt("rc-none {}".format(i), rec.reverse_complement, features=False,
                letter_annotations=False)
        for needle in (str(rec.seq)[-2:] + str(rec.seq)[:2], "AC", str(rec.seq) * 2, ""):
            attempt("in {} {!r}".format(i, needle), rec.__contains__, needle)
        attempt("add {}".format(i), lambda: rec + rec)
        attempt("radd {}".format(i), lambda: "AC" + rec)
        attempt("copy {}".format(i), CircularRecord, rec)
        log("state-unchanged", i, before == d_rec(rec))
    # constructor edge cases
    attempt("linear", CircularRecord, SeqRecord(Seq("ACGT"), annotations={"topology": "linear"}))
    attempt("linear-kw", CircularRecord, Seq("ACGT"), annotations={"topology": "Linear"})
    attempt("topology-int", CircularRecord, Seq("ACGT"), annotations={"topology": 3})
    attempt("empty >>", lambda: CircularRecord(Seq("")) >> 1)
    attempt("empty <<", lambda: CircularRecord(Seq("")) << 1)
    attempt("str-shift", lambda: CircularRecord(Seq("ACGT")) >> "1")
    attempt("float-shift", lambda: CircularRecord(Seq("ACGT")) >> 1.0)
    attempt("positional", CircularRecord, Seq("ACGT"), "i", "n", "d", ["x"], [], {"a": 1}, {})
    attempt("from-rec-ignores", CircularRecord, SeqRecord(Seq("ACGT"), id="kept"), "ignored", features=[1])

    class Sub(CircularRecord):
        pass

    sub = Sub(Seq("ACGTAC"), id="sub", features=[SeqFeature(FeatureLocation(4, 6, strand=-1), type="x")])
    attempt("sub >>", lambda: sub >> 3)
    attempt("sub <<", lambda: sub << 1)
    attempt("sub rc", sub.reverse_complement)
    attempt("sub slice", lambda: sub[1:3])


# --- 2. modules and vectors ---------------------------------------------


def make_classes():
    out = {}
    for enz in (BpiI, BsaI, BsmBI, BbsI, SapI):
        out["V" + enz.__name__] = type(str("V" + enz.__name__), (vectors.AbstractVector,), {"cutter": enz})
        out["M" + enz.__name__] = type(str("M" + enz.__name__), (modules.AbstractModule,), {"cutter": enz})

    class M3(modules.AbstractModule):  # 3' overhang enzyme, own structure
        cutter = BseRI

        @staticmethod
        def structure():
            return "GAGGAGNNNNNNNN(NN)(NN*N)(NN)NNNNNNNNCTCCTC"

    class V3(vectors.AbstractVector):
        cutter = BseRI

        @staticmethod
        def structure():
            return "(NN)(NNNNNNNNCTCCTCN*GAGGAGNNNNNNNN)(NN)"

    class M3default(modules.AbstractModule):
        cutter = BseRI

    class V3default(vectors.AbstractVector):
        cutter = BseRI

    class MBlunt(modules.AbstractModule):
        cutter = EcoRV

    class VNone(vectors.AbstractVector):
        pass

    out.update(M3=M3, V3=V3, M3default=M3default, V3default=V3default, MBlunt=MBlunt, VNone=VNone)
    return out


CLASSES = make_classes()
SITES = ("GAAGAC", "GTCTTC", "GGTCTC", "GAGACC", "CGTCTC", "GAGACG", "GCTCTTC", "GAAGAGC",
         "GAGGAG", "CTCCTC", "GATATC")


def clean_seq(n):
    while True:
        s = rand_seq(n)
        if not any(x in s * 2 for x in SITES):
            return s


def mixcase(s, mode):
    if mode == 0:
        return s
    if mode == 1:
        return s.lower()
    return "".join(c.lower() if RNG.random() < 0.5 else c for c in s)


def annotate(rec, tag):
    L = len(rec)
    feats = []
    for j in range(0, L - 6, 5):
        strand = (1, -1)[j % 2]
        feats.append(SeqFeature(FeatureLocation(j, j + 6, strand=strand), type="misc_feature",
                                qualifiers={"label": ["{}-{}".format(tag, j)]}))
    feats.append(SeqFeature(CompoundLocation([FeatureLocation(L - 4, L, strand=1),
                                              FeatureLocation(0, 5, strand=1)]),
                            type="CDS", qualifiers={"label": [tag + "-wrap"]}))
    feats.append(SeqFeature(CompoundLocation([FeatureLocation(2, 6, strand=-1),
                                              FeatureLocation(9, 12, strand=1),
                                              FeatureLocation(20, 23, strand=-1)]),
                            type="mRNA", qualifiers={"label": [tag + "-mixed"]}))
    feats.append(SeqFeature(FeatureLocation(0, L, strand=1), type="source",
                            qualifiers={"label": [tag + "-source"]}))
    rec.features.extend(feats)
    return rec


def describe_entity(label, ent):
    attempt(label + " valid", ent.is_valid)
    attempt(label + " ovh-start", ent.overhang_start)
    attempt(label + " ovh-end", ent.overhang_end)
    before = d_rec(ent.record)
    attempt(label + " target", ent.target_sequence)
    attempt(label + " target-again", ent.target_sequence)
    if hasattr(ent, "placeholder_sequence"):
        attempt(label + " placeholder", ent.placeholder_sequence)
    log(label, "record-unchanged", before == d_rec(ent.record))


def site_pairs(enz):
    """(module prefix, module suffix, vector left, vector right) around overhangs."""
    return {
        "BpiI": ("GAAGACTT", "TTGTCTTC"),
        "BbsI": ("GAAGACTT", "TTGTCTTC"),
        "BsaI": ("GGTCTCT", "TGAGACC"),
        "BsmBI": ("CGTCTCT", "TGAGACG"),
        "SapI": ("GCTCTTCT", "TGAAGAGC"),
    }[enz]


def build_module(enz, ov1, ov2, n=22):
    pre, suf = site_pairs(enz)
    return clean_seq(9) + pre + ov1 + clean_seq(n) + ov2 + suf + clean_seq(14)


def build_vector(enz, ov_end, ov_start):
    pre, suf = site_pairs(enz)
    # vector: N (ov_end)(NN..site N* site ..NN)(ov_start) N
    return clean_seq(8) + "C" + ov_end + suf + clean_seq(6) + pre + ov_start + "G" + clean_seq(25)


def entities_section():
    section("entities")
    for name in ("MBlunt", "VNone", "M3default", "V3default"):
        attempt("new " + name, CLASSES[name], CircularRecord(Seq("ACGT")))
        attempt("structure " + name, CLASSES[name].structure)
    attempt("cutter_check NI", cutter_check, NotImplemented, "X")
    attempt("cutter_check blunt", cutter_check, EcoRV, name="X")
    attempt("cutter_check ok", cutter_check, BsaI, "X")
    for enz in ("BpiI", "BsaI", "BsmBI", "BbsI", "SapI"):
        n = 3 if enz == "SapI" else 4
        o1, o2 = ("ATGC", "CGTA") if n == 4 else ("ATG", "CGT")
        mseq = build_module(enz, o1, o2)
        vseq = build_vector(enz, o1, o2)
        for kind, seq, cls in (("M", mseq, CLASSES["M" + enz]), ("V", vseq, CLASSES["V" + enz])):
            log("structure", cls.__name__, cls.structure())
            for case in (0, 1, 2):
                base = annotate(CircularRecord(Seq(mixcase(seq, case)), id="{}{}{}".format(kind, enz, case)), kind)
                for r in sorted({0, 1, 5, 9, 13, 17, 21, 26, 30, len(seq) - 3, RNG.randrange(len(seq))}):
                    # rotated input built without the library
                    s = str(base.seq)
                    rot = CircularRecord(Seq(s[-r:] + s[:-r] if r else s), id=base.id,
                                         annotations={"topology": "circular", "references": ["a"]})
                    annotate(rot, kind)
                    describe_entity("{} {} case{} rot{}".format(kind, enz, case, r), cls(rot))
                    describe_entity("{} {} case{} lib-rot{}".format(kind, enz, case, r), cls(base >> r))
            # plain SeqRecord, linear annotation, linear record with broken site
            describe_entity(kind + enz + " plain", cls(SeqRecord(Seq(seq), id="plain")))
            describe_entity(kind + enz + " linear",
                            cls(SeqRecord(Seq(seq), id="lin", annotations={"topology": "linear"})))
            describe_entity(kind + enz + " linear-rot",
                            cls(SeqRecord(Seq(seq[20:] + seq[:20]), id="linrot", annotations={"topology": "linear"})))
            describe_entity(kind + enz + " nomatch", cls(CircularRecord(Seq(clean_seq(40)), id="nomatch")))
            pre, suf = site_pairs(enz)
            illegal = seq.replace(pre + o1, pre + o1 + "AC" + suf + "GT" + pre + "AA", 1) if kind == "M" else \
                seq.replace(suf, suf + "AA" + suf, 1)
            describe_entity(kind + enz + " illegal", cls(CircularRecord(Seq(illegal), id="illegal")))
    # 3' overhang enzyme with its own structure
    m3 = "ACGTAC" + "GAGGAG" + "ACGTACGT" + "AC" + "GCATTACGGATTACA" + "TC" + "ACGTACGT" + "CTCCTC" + "TTGACA"
    v3 = "TGCATT" + "AC" + "ACGTACGT" + "CTCCTC" + "ACGT" + "GAGGAG" + "ACGTACGT" + "TC" + "GGATTACAGGATTTACCA"
    for kind, seq, cls in (("M", m3, CLASSES["M3"]), ("V", v3, CLASSES["V3"])):
        log("structure", cls.__name__, cls.structure())
        for r in range(0, len(seq), 3):
            rot = annotate(CircularRecord(Seq(seq[-r:] + seq[:-r] if r else seq), id=kind + "3"), kind)
            describe_entity("{}3 rot{}".format(kind, r), cls(rot))
    # add_as_source
    dst = SeqRecord(Seq("ACGTACGT"), id="dst")
    src = SeqRecord(Seq("AC"), id="src")
    attempt("add_as_source", add_as_source, src, dst)
    attempt("add_as_source loc", add_as_source, src, dst, FeatureLocation(1, 3))
    attempt("add_as_source kw", add_as_source, src_record=src, dst_record=dst, location=None)
    attempt("add_as_source bad", add_as_source, src)


# --- 3. assemblies ------------------------------------------------------


def cite(rec, refs, cites):
    rec.annotations["references"] = list(refs)
    for f, c in zip(rec.features, cites):
        if c is not None:
            f.qualifiers["citation"] = list(c)
    return rec


def assemblies_section():
    section("assemblies")
    V, M = CLASSES["VBpiI"], CLASSES["MBpiI"]
    ref1 = Reference()
    ref1.title = "first"
    ref2 = Reference()
    ref2.title = "second"
    ovs = ["ATGC", "TTAC", "GGAT", "CGTA"]
    for trial in range(24):
        case = trial % 3
        vrec = annotate(CircularRecord(Seq(mixcase(build_vector("BpiI", "ATGC", "CGTA"), case)), id="v%d" % trial), "v")
        mrecs = []
        for i in range(3):
            s = mixcase(build_module("BpiI", ovs[i], ovs[i + 1]), (case + i) % 3)
            mrecs.append(annotate(CircularRecord(Seq(s), id="m%d_%d" % (trial, i)), "m%d" % i))
        rv = RNG.randrange(len(vrec))
        vrec = vrec >> rv
        mrecs = [m >> RNG.randrange(len(m)) for m in mrecs]
        if trial % 4 == 1:
            cite(vrec, [ref1, ref2], [["[2]"], None, ["[1]", "[2]"]])
            cite(mrecs[0], [ref2], [["[1]"]])
            cite(mrecs[1], ["plain"], [None, ["[1]"]])
        if trial % 4 == 3:
            cite(mrecs[2], [ref1], [["[7]"]] if trial % 8 == 3 else [["oops"]])
            cite(vrec, [ref1, ref2], [["[2]"]])
        mods = [M(m) for m in mrecs]
        RNG.shuffle(mods)
        before = [d_rec(x.record) for x in [V(vrec)] + mods]
        vec = V(vrec)
        scenario = trial % 6
        if scenario == 0:
            args = mods
        elif scenario == 1:
            args = mods[:2]  # missing
        elif scenario == 2:
            extra = M(annotate(CircularRecord(Seq(build_module("BpiI", "AAAA", "CCCC")), id="extra"), "x"))
            args = mods + [extra]  # unused
        elif scenario == 3:
            args = mods + [M(CircularRecord(Seq(build_module("BpiI", ovs[1], ovs[2])), id="dup"))]
        elif scenario == 4:
            args = mods + [M(CircularRecord(Seq(build_module("BpiI", "GTAA", "CCCC")), id="rcdup"))]
        else:
            args = mods
        kwargs = {} if trial % 2 else {"id": "prod%d" % trial, "name": "P%d" % trial}
        res = attempt("assemble %d s%d" % (trial, scenario), vec.assemble, *args, **kwargs)
        if isinstance(res, SeqRecord):
            attempt("assemble %d again" % trial, vec.assemble, *args, **kwargs)
        after = [d_rec(x.record) for x in [vec] + mods]
        log("inputs-unchanged", trial, before == after)
        if before != after:
            log("inputs-after", trial, *after)
    # vector with equal overhangs, plain records, manager directly
    bad = V(CircularRecord(Seq(build_vector("BpiI", "ATGC", "atgc")), id="badv"))
    m = M(CircularRecord(Seq(build_module("BpiI", "ATGC", "CGTA")), id="m"))
    attempt("invalid vector", bad.assemble, m)
    good = V(CircularRecord(Seq(build_vector("BpiI", "ATGC", "CGTA")), id="goodv"))
    attempt("plain module", good.assemble, M(SeqRecord(Seq(str(m.record.seq)), id="plainm")))
    attempt("plain module missing", good.assemble,
            M(SeqRecord(Seq(build_module("BpiI", "ATGC", "GGGG")), id="plainm2")))
    attempt("nomatch module", good.assemble, M(CircularRecord(Seq(clean_seq(30)), id="nm")))
    attempt("no module", good.assemble)
    mgr = AssemblyManager(good, [m], "theid", "thename")
    attempt("manager", mgr.assemble)
    attempt("manager again", mgr.assemble)
    log("manager attrs", mgr.id, mgr.name, mgr.vector is good, mgr.modules == [m], mgr.elements == [m, good])
    # other enzymes end to end, including the 3' overhang mock
    for enz in ("BsaI", "BsmBI", "BbsI"):
        vec = CLASSES["V" + enz](annotate(CircularRecord(Seq(build_vector(enz, "ATGC", "CGTA")), id="v" + enz), "v") >> 11)
        mod = CLASSES["M" + enz](annotate(CircularRecord(Seq(build_module(enz, "ATGC", "CGTA")), id="m" + enz), "m") >> 7)
        attempt("assemble " + enz, vec.assemble, mod)
    m3 = "ACGTAC" + "GAGGAG" + "ACGTACGT" + "AC" + "GCATTACGGATTACA" + "TC" + "ACGTACGT" + "CTCCTC" + "TTGACA"
    v3 = "TGCATT" + "AC" + "ACGTACGT" + "CTCCTC" + "ACGT" + "GAGGAG" + "ACGTACGT" + "TC" + "GGATTACAGGATTTACCA"
    for r in (0, 4, 19, 33):
        vec = CLASSES["V3"](annotate(CircularRecord(Seq(v3), id="v3"), "v") >> r)
        mod = CLASSES["M3"](annotate(CircularRecord(Seq(m3), id="m3"), "m") >> (r + 5))
        attempt("assemble 3' rot%d" % r, vec.assemble, mod)


# --- 4. registries ------------------------------------------------------


def registries_section():
    section("registries")
    from tests._utils import build_registries
    from moclo.registry.ytk import YTKRegistry, PTKRegistry
    from moclo.registry.cidar import CIDARRegistry
    from moclo.registry.ecoflex import EcoFlexRegistry
    from moclo.registry.plant import PlantRegistry

    for n in ("ytk", "cidar", "ecoflex", "plant"):
        build_registries(n)
    regs = {}
    for cls in (YTKRegistry, PTKRegistry, CIDARRegistry, EcoFlexRegistry, PlantRegistry):
        reg = regs[cls.__name__] = cls()
        for key in sorted(reg):
            item = reg[key]
            ent = item.entity
            label = "{} {} {}".format(cls.__name__, key, type(ent).__name__)
            h = hashlib.sha256()
            for name in ("overhang_start", "overhang_end", "target_sequence", "placeholder_sequence"):
                if not hasattr(ent, name):
                    continue
                try:
                    with warnings.catch_warnings():
                        warnings.simplefilter("ignore")
                        res = getattr(ent, name)()
                    txt = d_rec(res) if isinstance(res, SeqRecord) else repr(res)
                except Exception as e:  # noqa
                    txt = d_exc(e)
                h.update(txt.encode("utf-8"))
            # a rotation of the registry record, with all its features
            r = (len(ent.record) // 3) or 1
            h.update(d_rec(ent.record >> r).encode("utf-8"))
            h.update(d_rec(ent.record << 17).encode("utf-8"))
            log(label, h.hexdigest()[:20])
    cidar = regs["CIDARRegistry"]
    for vec, mods in (
        ("DVK_EF", ("J23102_EB", "BCD2_BC", "E1010m_CD", "B0015_DF")),
        ("DVK_AE", ("J23102_AB", "BCD2_BC", "E1010m_CD", "B0015_DE")),
        ("DVA_AE", ("J23102_AB", "BCD2_BC", "E1010m_CD", "B0015_DE")),
        ("DVA_AE", ("J23102_AB", "BCD2_BC", "B0015_DE")),
    ):
        res = attempt("cidar " + vec + " " + ",".join(mods),
                      cidar[vec].entity.assemble, *[cidar[m].entity for m in mods])
        if isinstance(res, SeqRecord):
            log("cidar product features", len(res.features))
    ytk = regs["YTKRegistry"]
    mods = [ytk[k].entity for k in ("pYTK008", "pYTK047", "pYTK073", "pYTK074", "pYTK086", "pYTK092")]
    from moclo.kits import ytk as ytkkit
    vec = ytkkit.YTKPart8a(ytk["pYTK089"].entity.record) if "pYTK089" in ytk else None
    if vec is not None:
        attempt("ytk integration", vec.assemble, *mods)
        attempt("ytk integration rotated", ytkkit.YTKPart8a(vec.record >> 1234).assemble,
                *[type(m)(m.record << 321) for m in mods])


def main():
    records_section()
    entities_section()
    assemblies_section()
    registries_section()
    SECTIONS.append(("end", len(LOG)))
    for (name, a), (_, b) in zip(SECTIONS, SECTIONS[1:]):
        h = hashlib.sha256("\n".join(LOG[a:b]).encode("utf-8")).hexdigest()
        print("{:<12} {:>6} lines  {}".format(name, b - a, h))
    print("DIGEST", hashlib.sha256("\n".join(LOG).encode("utf-8")).hexdigest())
    if len(sys.argv) > 1:
        with open(sys.argv[1], "w") as f:
            f.write("\n".join(LOG))


if __name__ == "__main__":
    main()
