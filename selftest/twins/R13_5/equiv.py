# coding: utf-8
# --- common differential-test harness (inlined in every equiv.py) ------------
import sys

sys.path.insert(0, "/tmp/agentsR3/R13")
import tests  # noqa: F401,E402  (splices the kit packages into the moclo namespace)

import atexit  # noqa: E402
import hashlib  # noqa: E402
import io  # noqa: E402
import os  # noqa: E402
import random  # noqa: E402
import shutil  # noqa: E402
import tarfile  # noqa: E402
import tempfile  # noqa: E402
import warnings  # noqa: E402

import Bio.SeqIO  # noqa: E402
import fs  # noqa: E402
from Bio.Seq import Seq  # noqa: E402
from Bio.SeqFeature import SeqFeature, FeatureLocation  # noqa: E402
from Bio.SeqRecord import SeqRecord  # noqa: E402

from tests._utils import build_registries  # noqa: E402

warnings.simplefilter("ignore")

RNG = random.Random(0x5EED13)
RESULTS = []

LABELS = [
    "KanR", "CamR", "CmR", "KnR", "AmpR", "SmR", "SpecR",  # known cassettes
    "kanr", "AMPR", "ampR", "Kanr", "specr",  # wrong letter case: not recognised
    "GFP", "ori", "AmpR promoter", "KanR-like", "",  # unrelated
]

PKG_NAME = "equivpkg_r13"
PKG_DIR = tempfile.mkdtemp(prefix="r13_equiv_")
atexit.register(shutil.rmtree, PKG_DIR, True)
os.mkdir(os.path.join(PKG_DIR, PKG_NAME))
with open(os.path.join(PKG_DIR, PKG_NAME, "__init__.py"), "w") as _f:
    _f.write("")
sys.path.insert(0, PKG_DIR)
_ARCHIVES = [0]


def log(*values):
    RESULTS.append(repr(values))


def attempt(tag, func, *args, **kwargs):
    """Run func, record either its described result or its exception."""
    try:
        out = func(*args, **kwargs)
    except BaseException as err:  # noqa: B902 (StopIteration & co. included)
        if isinstance(err, (KeyboardInterrupt, SystemExit)):
            raise
        log(tag, "EXC", type(err).__name__, str(err).replace(PKG_DIR, "<PKG>"))
        return None
    else:
        log(tag, "OK", describe(out))
        return out


def describe_record(rec):
    return (
        type(rec).__name__,
        rec.id,
        rec.name,
        rec.description,
        str(rec.seq),
        sorted((k, repr(v)) for k, v in rec.annotations.items()),
        [
            (f.type, str(f.location), sorted((k, list(v)) for k, v in f.qualifiers.items()))
            for f in rec.features
        ],
    )


def describe(obj):
    from moclo.registry.base import Item

    if isinstance(obj, Item):
        ent = obj.entity
        try:
            valid = ent.is_valid()
        except Exception as err:
            valid = (type(err).__name__, str(err))
        return (
            "Item",
            obj.id,
            obj.name,
            obj.resistance,
            type(ent).__module__,
            type(ent).__name__,
            valid,
            describe_record(ent.record),
            obj.record is ent.record,
        )
    if isinstance(obj, SeqRecord):
        return describe_record(obj)
    if isinstance(obj, (list, tuple)):
        return [describe(x) for x in obj]
    if isinstance(obj, dict):
        return [(k, describe(v)) for k, v in obj.items()]
    if isinstance(obj, type):
        return "<class {}.{}>".format(obj.__module__, obj.__name__)
    if obj is None or isinstance(obj, (str, bytes, int, float, bool)):
        return repr(obj)
    return "<{} object>".format(type(obj).__name__)  # no memory addresses in the digest


def rand_seq(n):
    return "".join(RNG.choice("ACGT") for _ in range(n))


def make_record(
    id_,
    name=None,
    description="synthetic",
    labels=(),
    comment=None,
    seq=None,
    upper=True,
):
    """Build a small annotated circular record.

    ``labels`` is a list of label lists: one feature per inner list.
    """
    seq = seq if seq is not None else rand_seq(RNG.randint(40, 120))
    if not upper:
        seq = "".join(RNG.choice((c, c.lower())) for c in seq)
    rec = SeqRecord(Seq(seq), id=id_, name=name or id_[:16], description=description)
    rec.annotations["molecule_type"] = "DNA"
    rec.annotations["topology"] = "circular"
    if comment is not None:
        rec.annotations["comment"] = comment
    for i, lbls in enumerate(labels):
        start = RNG.randint(0, len(seq) - 10)
        end = RNG.randint(start + 1, len(seq))
        quals = {"note": ["feature {}".format(i)]}
        if lbls:
            quals["label"] = list(lbls)
        rec.features.append(
            SeqFeature(
                FeatureLocation(start, end, RNG.choice((1, -1))),
                type=RNG.choice(("CDS", "misc_feature", "promoter")),
                qualifiers=quals,
            )
        )
    return rec


def rand_labels(kind=None):
    """Label lists for the features of a record.

    kind: "one" (exactly one cassette overall), "none", "multi" (one feature
    holding two cassettes), "two" (two features with one cassette each) or
    None (anything).
    """
    known = LABELS[:7]
    other = LABELS[7:]
    kind = kind or RNG.choice(("one", "one", "one", "none", "multi", "two", "any"))
    feats = [[RNG.choice(other)] if RNG.random() < 0.7 else [] for _ in range(RNG.randint(0, 2))]
    if kind == "one":
        feats.insert(RNG.randint(0, len(feats)), [RNG.choice(known)] + RNG.sample(other, RNG.randint(0, 2)))
    elif kind == "multi":
        feats.insert(RNG.randint(0, len(feats)), RNG.sample(known, 2) + RNG.sample(other, RNG.randint(0, 1)))
        if RNG.random() < 0.5:
            feats.append([RNG.choice(known)])
    elif kind == "two":
        feats.insert(RNG.randint(0, len(feats)), [RNG.choice(known)])
        feats.append([RNG.choice(known)] if RNG.random() < 0.5 else RNG.sample(known, 2))
    elif kind == "any":
        feats = [RNG.sample(LABELS, RNG.randint(0, 3)) for _ in range(RNG.randint(0, 4))]
    return feats


def to_genbank(rec):
    buff = io.StringIO()
    Bio.SeqIO.write([rec], buff, "genbank")
    return buff.getvalue()


def make_archive(records, names=None):
    """Write the records to a new tar.gz of the scratch package; return its name."""
    _ARCHIVES[0] += 1
    fname = "archive{:04d}.tar.gz".format(_ARCHIVES[0])
    with tarfile.open(os.path.join(PKG_DIR, PKG_NAME, fname), "w:gz") as tar:
        for i, rec in enumerate(records):
            data = (rec if isinstance(rec, str) else to_genbank(rec)).encode("utf-8")
            info = tarfile.TarInfo(names[i] if names else getattr(rec, "id", "entry{}".format(i)))
            info.size = len(data)
            tar.addfile(info, io.BytesIO(data))
    return fname


def subregistry(base, records, names=None, **attrs):
    """A user-defined subclass of an embedded registry over a scratch archive."""
    attrs.update(_module=PKG_NAME, _file=make_archive(records, names))
    return type(str("User" + base.__name__), (base,), attrs)


def dump_registry(tag, reg, extra_keys=("missing", "", None, 0)):
    """Exercise the whole Mapping API of a registry."""
    attempt((tag, "len"), len, reg)
    keys = attempt((tag, "iter"), lambda: list(reg)) or []
    attempt((tag, "keys"), lambda: list(reg.keys()))
    for key in list(keys) + list(extra_keys):
        attempt((tag, "getitem", key), reg.__getitem__, key)
        attempt((tag, "contains", key), reg.__contains__, key)
        attempt((tag, "get", key), reg.get, key)
    attempt((tag, "values"), lambda: list(reg.values()))
    attempt((tag, "items"), lambda: list(reg.items()))
    attempt((tag, "hash"), lambda: hash(reg) == hash(type(reg)()))
    attempt((tag, "eq"), lambda: (reg == type(reg)(), reg != type(reg)(), reg == 1))


def finish():
    digest = hashlib.sha256("\n".join(RESULTS).encode("utf-8")).hexdigest()
    print("{} results, digest {}".format(len(RESULTS), digest))
    if os.environ.get("EQUIV_DUMP"):  # debugging aid: keep the raw results
        with open(os.environ["EQUIV_DUMP"], "w") as out:
            out.write("\n".join(RESULTS))


# --- end of the common harness -----------------------------------------------
# --- R13_5: loops with early exit rewritten with next(...) --------------------
import collections
import copy

from moclo.kits import ytk, ecoflex
from moclo.record import CircularRecord
from moclo.registry.base import FilesystemRegistry, CombinedRegistry
from moclo.registry._utils import find_resistance
from moclo.registry.ecoflex import EcoFlexRegistry
from moclo.registry.ytk import YTKRegistry, PTKRegistry
from moclo.registry.cidar import CIDARRegistry
from moclo.registry.plant import PlantRegistry

for kit in ("cidar", "ytk", "ecoflex", "plant"):
    build_registries(kit)

# A. real registries
real = EcoFlexRegistry()
dump_registry("ecoflex", real)
real_items = list(real.values())
for cls in (YTKRegistry, PTKRegistry, CIDARRegistry, PlantRegistry):
    reg = cls()
    attempt((cls.__name__, "values"), lambda: [(i.id, i.name, i.resistance, type(i.entity).__name__) for i in reg.values()])

# B. find_resistance on in-memory records
for n in range(500):
    rec = make_record("REC{:03d}".format(n), labels=rand_labels())
    attempt(("find_resistance", n, [f.qualifiers.get("label") for f in rec.features]), find_resistance, rec)
    attempt(("find_resistance/circular", n), find_resistance, CircularRecord(rec))
    attempt(("find_resistance/rotated", n), find_resistance, CircularRecord(rec) >> RNG.randint(-200, 200))
    log("untouched", n, [f.qualifiers.get("label") for f in rec.features])  # labels are not consumed


class Explosive(dict):
    """Qualifiers that must not be looked at."""

    def get(self, key, default=None):
        raise Boom(key)


class Boom(Exception):
    pass


class Recording(dict):
    seen = []

    def get(self, key, default=None):
        Recording.seen.append((self["note"], key))
        return dict.get(self, key, default)


for n in range(200):
    rec = make_record("LAZY{:03d}".format(n), labels=rand_labels())
    for i, f in enumerate(rec.features):
        f.qualifiers = Recording(f.qualifiers, note=i)
    if rec.features and RNG.random() < 0.7:
        victim = RNG.choice(rec.features)
        victim.qualifiers = Explosive(victim.qualifiers)
    del Recording.seen[:]
    attempt(("lazy", n, [(type(f.qualifiers).__name__, dict.get(f.qualifiers, "label")) for f in rec.features]), find_resistance, rec)
    log("lazy-seen", n, list(Recording.seen))  # which features were inspected, in which order

ODD_QUALIFIERS = [
    {"label": "KanR"},  # a plain string instead of a list
    {"label": ("AmpR",)},
    {"label": ["AmpR", "AmpR"]},
    {"label": ["CamR", "CmR"]},  # two names of the same antibiotic: still "multiple"
    {"label": []},
    {"label": [["KanR"]]},  # unhashable
    {"label": None},
    {"label": 5},
    {"Label": ["KanR"]},
    {"label": ["KanR "]},
    {"label": [b"KanR"]},
    {},
]
for n, quals in enumerate(ODD_QUALIFIERS):
    for position in (0, 1):
        rec = make_record("ODD{}".format(n), labels=[["GFP"], ["SmR"]][: position + 1])
        rec.features.insert(position, SeqFeature(FeatureLocation(0, 5, 1), type="misc_feature", qualifiers=dict(quals)))
        attempt(("odd", n, position), find_resistance, rec)
for bad in (None, 1, "record", object(), SeqFeature(FeatureLocation(0, 5, 1))):
    attempt(("bad record", type(bad).__name__), find_resistance, bad)


class Lazy(object):
    """Not a record: features come from a one-shot iterator."""
    id = "lazy"

    def __init__(self, features):
        self.features = iter(features)


for n in range(50):
    rec = make_record("IT{}".format(n), labels=rand_labels())
    lazy = Lazy(rec.features)
    attempt(("one-shot", n), find_resistance, lazy)
    log("one-shot left", n, len(list(lazy.features)))  # features after the hit are left unconsumed

# C. user subclasses of EcoFlexRegistry: ids around the vector prefixes
IDS = ["pTU1", "pTU1-A-RFP", "pTU2-b", "pTU3-x", "pTU", "pTU4", "ptu1-a", "PTU1", "xpTU1", " pTU1", "pBP-x", "", "pTU2pTU1", "pTU12"]


def eco_records():
    records = []
    for k in range(RNG.choice((1, 1, 2, 3))):
        if RNG.random() < 0.9:
            src = copy.deepcopy(RNG.choice(real_items).entity.record)
            rec = SeqRecord(src.seq, id=src.id, name=src.name, description=src.description,
                            annotations=src.annotations, features=src.features)
        else:
            rec = make_record("SYN{}".format(k), labels=rand_labels(RNG.choice(("one", "one", None))))
        if RNG.random() < 0.6:
            rec.id = RNG.choice(IDS) or rec.id
        records.append(rec)
    return records


def counting(name):
    def factory(record):
        factory.calls.append(record.id)
        return ecoflex.EcoFlexCassetteVector(record)
    factory.calls = []
    factory.__name__ = name
    return factory


def failing(record):
    raise Boom("factory", record.id)


TABLES = [
    None,  # keep the inherited table
    {},
    collections.OrderedDict([("pTU", counting("short")), ("pTU1", counting("long"))]),  # overlapping: first wins
    collections.OrderedDict([("pTU1", counting("long")), ("pTU", counting("short"))]),
    {"": counting("everything")},
    {"pTU1": None},
    {"pTU1": failing, "pBP": failing},
    {("pTU1", "pBP"): counting("tuple")},
    {1: counting("int")},
    collections.OrderedDict([("pTU1", counting("ok")), (None, counting("none"))]),
    {"pTU2": ecoflex.EcoFlexPart, "pBP": ytk.YTKPart1},
    {"pTU1": ecoflex.EcoFlexPart.characterize},
    [("pTU1", counting("pairs"))],  # not a mapping
]
for n in range(260):
    records = eco_records()
    table = TABLES[n % len(TABLES)] if n % 3 else None
    attrs = {} if table is None else {"_VECTORS": table}
    log("eco", n, [(r.id,) for r in records], None if table is None else [repr(k) for k in (table if not isinstance(table, list) else dict(table))])
    reg = subregistry(EcoFlexRegistry, records, **attrs)()
    dump_registry(("eco", n), reg)
    if isinstance(table, dict):
        log("eco-calls", n, [(getattr(f, "__name__", "?"), list(getattr(f, "calls", ()))) for f in table.values()])
        for f in table.values():
            if hasattr(f, "calls"):
                del f.calls[:]


class Chatty(EcoFlexRegistry):
    def _load_entity(self, record):
        entity = super(Chatty, self)._load_entity(record)
        self.log = getattr(self, "log", []) + [(record.id, type(entity).__name__)]
        return entity


for n in range(40):
    reg = subregistry(Chatty, eco_records())()
    dump_registry(("chatty", n), reg)
    log("chatty-log", n, getattr(reg, "log", None))

# D. FilesystemRegistry: find_resistance without the wrapper of the embedded registries
for n in range(60):
    mem = fs.open_fs("mem://")
    for k in range(RNG.randint(1, 4)):
        rec = RNG.choice(real_items).entity.record if RNG.random() < 0.6 else make_record("FS{}".format(k), labels=rand_labels())
        with mem.open("f{}.gb".format(k), "w") as f:
            f.write(to_genbank(rec))
    dump_registry(("fsreg", n), FilesystemRegistry(mem, ecoflex.EcoFlexPart), extra_keys=("f9",))
    mem.close()

finish()
