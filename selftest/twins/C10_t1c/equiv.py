# coding: utf-8
"""Differential test: digest of the observable behaviour of the assembly code.

Run as: cd /tmp/agents9/C10 && /venv/bin/python pairs_out/C10_t1/equiv.py
The last line (DIGEST ...) must be the same before and after the refactoring.
"""
import sys

sys.path.insert(0, "/tmp/agents9/C10")
import tests  # noqa: F401,E402

import copy  # noqa: E402
import hashlib  # noqa: E402
import random  # noqa: E402
import re  # noqa: E402
import warnings  # noqa: E402

warnings.simplefilter("ignore")

from Bio.Seq import Seq  # noqa: E402
from Bio.SeqRecord import SeqRecord  # noqa: E402
from Bio.SeqFeature import (  # noqa: E402
    SeqFeature,
    FeatureLocation,
    CompoundLocation,
    Reference,
)
from Bio.Restriction import BpiI, BsaI, BsmBI, BsrDI, BtsI  # noqa: E402

from moclo import errors  # noqa: E402
from moclo.record import CircularRecord  # noqa: E402
from moclo.core import modules as core_modules, vectors as core_vectors  # noqa: E402
from moclo.core.modules import AbstractModule, Entry, Cassette  # noqa: E402
from moclo.core.vectors import AbstractVector, EntryVector  # noqa: E402
from moclo.core._assembly import AssemblyManager  # noqa: E402

LINES = []
COUNTS = {}


_ADDRESS = re.compile(r" at 0x[0-9a-fA-F]+")


def out(*items):
    LINES.append(_ADDRESS.sub(" at 0x?", " | ".join(str(i) for i in items)))


def count(key):
    COUNTS[key] = COUNTS.get(key, 0) + 1


# --- serialisation ------------------------------------------------------------


def ser_ref(r):
    if isinstance(r, Reference):
        return "REF<{}|{}|{}|{}|{}|{}>".format(
            r.title,
            r.authors,
            r.journal,
            r.pubmed_id,
            r.comment,
            [str(l) for l in r.location],
        )
    return "{}:{!r}".format(type(r).__name__, r)


def ser_value(v):
    if isinstance(v, (list, tuple)):
        return "{}[{}]".format(type(v).__name__, ", ".join(ser_value(x) for x in v))
    if isinstance(v, dict):
        return "{" + ", ".join(
            "{}: {}".format(k, ser_value(v[k])) for k in sorted(v, key=str)
        ) + "}"
    if isinstance(v, Reference):
        return ser_ref(v)
    if isinstance(v, SeqRecord):
        return "<record {}>".format(v.id)
    if isinstance(v, (AbstractModule, AbstractVector)):
        return "<{} {}>".format(type(v).__name__, v.record.id)
    return "{}:{!r}".format(type(v).__name__, v)


def ser_feature(f):
    return "F({} {} id={} {})".format(
        f.type, f.location, f.id, ser_value(dict(f.qualifiers))
    )


def ser_rec(rec):
    if rec is None:
        return "None"
    if isinstance(rec, Seq):
        return "Seq({})".format(str(rec))
    return "{}(seq={} id={} name={} desc={} dbx={} ann={} let={} feats=[{}])".format(
        type(rec).__name__,
        str(rec.seq),
        rec.id,
        rec.name,
        rec.description,
        rec.dbxrefs,
        ser_value(dict(rec.annotations)),
        ser_value(dict(rec.letter_annotations)),
        "; ".join(ser_feature(f) for f in rec.features),
    )


def ser_exc(e):
    extra = []
    for attr in ("details", "start_overhang", "exc"):
        if hasattr(e, attr):
            extra.append("{}={}".format(attr, ser_value(getattr(e, attr))))
    for attr in ("duplicates", "remaining"):
        if hasattr(e, attr):
            extra.append("{}={}".format(attr, ser_value(list(getattr(e, attr)))))
    if hasattr(e, "sequence"):
        extra.append("sequence={}".format(ser_value(e.sequence)))
    try:
        text = str(e)
    except Exception as e2:  # noqa
        text = "<str failed: {} {}>".format(type(e2).__name__, e2)
    return "EXC {} [{}] args={} {} cause={} ctx_suppressed={}".format(
        type(e).__name__,
        text,
        ser_value(list(e.args)),
        " ".join(extra),
        type(e.__cause__).__name__,
        e.__suppress_context__,
    )


def attempt(label, func, *args, **kwargs):
    """Call func, and record result / exception / warnings."""
    with warnings.catch_warnings(record=True) as caught:
        warnings.simplefilter(kwargs.pop("_filter", "always"))
        try:
            res = func(*args, **kwargs)
        except Exception as e:  # noqa
            res = e
    ws = [
        "W {} [{}]".format(type(w.message).__name__, ser_exc(w.message))
        for w in caught
        if isinstance(w.message, errors.MocloError)
    ]
    if isinstance(res, Exception):
        count(type(res).__name__)
        out(label, ser_exc(res), *ws)
    elif isinstance(res, (SeqRecord, Seq)):
        count("ok")
        out(label, ser_rec(res), *ws)
    else:
        count("ok")
        out(label, ser_value(res), *ws)
    for w in ws:
        count("warning")
    return res


# --- mock kits ----------------------------------------------------------------


class BpiIVector(AbstractVector):
    cutter = BpiI


class BpiIModule(AbstractModule):
    cutter = BpiI


class BsaIVector(EntryVector):
    cutter = BsaI


class BsaIModule(Entry):
    cutter = BsaI


class BsmBIVector(core_vectors.CassetteVector):
    cutter = BsmBI


class BsmBIModule(Cassette):
    cutter = BsmBI


class BsrDIVector(AbstractVector):
    cutter = BsrDI

    @classmethod
    def structure(cls):
        return "(NN)(CATTGCN*GCAATG)(NN)"


class BsrDIModule(AbstractModule):
    cutter = BsrDI

    @classmethod
    def structure(cls):
        return "GCAATG(NN)(NN*N)(NN)CATTGC"


class BtsIVector(core_vectors.DeviceVector):
    cutter = BtsI

    @classmethod
    def structure(cls):
        return "(NN)(CACTGCN*GCAGTG)(NN)"


class BtsIModule(core_modules.Device):
    cutter = BtsI

    @classmethod
    def structure(cls):
        return "GCAGTG(NN)(NN*N)(NN)CACTGC"


def rc(s):
    return str(Seq(s).reverse_complement())


KITS = {
    # name: (vector class, module class, site, spacer length, overhang length, 3')
    "BpiI": (BpiIVector, BpiIModule, "GAAGAC", 2, 4, False),
    "BsaI": (BsaIVector, BsaIModule, "GGTCTC", 1, 4, False),
    "BsmBI": (BsmBIVector, BsmBIModule, "CGTCTC", 1, 4, False),
    "BsrDI": (BsrDIVector, BsrDIModule, "GCAATG", 0, 2, True),
    "BtsI": (BtsIVector, BtsIModule, "GCAGTG", 0, 2, True),
}
ALL_SITES = [k[2] for k in KITS.values()] + [rc(k[2]) for k in KITS.values()]


def rand_dna(rng, n):
    while True:
        s = "".join(rng.choice("ACGT") for _ in range(n))
        if not any(site in (s + s) for site in ALL_SITES):
            return s


def clean_join(rng, parts):
    """Join parts; make sure no additional site arises at junctions."""
    s = "".join(parts)
    return s


def n_sites(text):
    d = text.upper() * 2
    n = 0
    for site in set(ALL_SITES):
        start = 0
        while True:
            i = d.find(site, start)
            if i < 0 or i >= len(text):
                break
            n += 1
            start = i + 1
    return n


def mixcase(rng, s, mode):
    if mode == 0:
        return s
    if mode == 1:
        return s.lower()
    return "".join(c.lower() if rng.random() < 0.5 else c for c in s)


TITLES = ["shared-A", "shared-B", "shared-C"]


def mkref(title, k=0):
    r = Reference()
    r.title = title
    r.authors = "Author of {}".format(title)
    r.journal = "J. {}".format(len(title))
    if k:
        r.pubmed_id = str(1000 + k)
    return r


def decorate(rng, rec, tag, nrefs, invalid=None):
    """Add references, features and citations to a record."""
    refs = []
    for i in range(nrefs):
        if rng.random() < 0.4:
            refs.append(mkref(rng.choice(TITLES)))
        else:
            refs.append(mkref("{}-own-{}".format(tag, i), i))
    if nrefs or rng.random() < 0.5:
        rec.annotations["references"] = refs
    n = len(rec)
    nfeat = rng.randint(0, 5)
    for j in range(nfeat):
        a = rng.randrange(0, n - 1)
        b = rng.randrange(a + 1, min(n, a + 12) + 1)
        quals = {"label": ["{}-f{}".format(tag, j)]}
        r = rng.random()
        if nrefs and r < 0.75:
            k = 1 if r < 0.35 else rng.randint(1, 3)
            quals["citation"] = [
                "[{}]".format(rng.randint(1, nrefs)) for _ in range(k)
            ]
        elif r > 0.9:
            quals["citation"] = []
        loc = FeatureLocation(a, b, strand=rng.choice([1, -1, None]))
        rec.features.append(
            SeqFeature(loc, type=rng.choice(["misc_feature", "CDS", "source"]), qualifiers=quals)
        )
    if invalid is not None:
        quals = {"citation": invalid}
        rec.features.append(
            SeqFeature(FeatureLocation(0, 3), type="misc_feature", qualifiers=quals)
        )
    return rec


def build_case(rng, kit, nmods, case_mode=0, rectype="circular", nrefs=None, invalid=None,
               broken=None):
    """Build a vector and a list of modules that assemble together."""
    vcls, mcls, site, spacer, ovl, three = KITS[kit]
    # distinct overhangs, no overhang equal to the reverse complement of another
    ovhs = []
    while len(ovhs) < nmods + 1:
        o = rand_dna(rng, ovl)
        if o in ovhs or rc(o) in ovhs or o == rc(o):
            continue
        ovhs.append(o)
    if broken == "same_vector_overhangs":
        ovhs[-1] = ovhs[0]
    records = []

    def finish(text, tag, n_r):
        text = mixcase(rng, text, case_mode)
        if rectype == "plain":
            rec = SeqRecord(Seq(text), id=tag, name=tag)
        elif rectype == "plain_linear":
            rec = SeqRecord(Seq(text), id=tag, name=tag, annotations={"topology": "linear"})
        else:
            rec = CircularRecord(Seq(text), id=tag, name=tag, description="desc " + tag)
            if rng.random() < 0.5:
                rec.annotations["topology"] = "circular"
        decorate(rng, rec, tag, n_r, invalid=invalid if tag.endswith("0") else None)
        if isinstance(rec, CircularRecord) and rng.random() < 0.7:
            rec = rec >> rng.randrange(0, len(rec))
        return rec

    sp = lambda: rand_dna(rng, spacer) if spacer else ""  # noqa: E731
    for attempt_i in range(50):
        # vector: bb1 ovhA sp rcsite dropout site sp ovhB bb2
        text = "".join(
            [
                rand_dna(rng, rng.randint(3, 15)),
                ovhs[0],
                sp(),
                rc(site),
                rand_dna(rng, rng.randint(0, 10)),
                site,
                sp(),
                ovhs[-1],
                rand_dna(rng, rng.randint(3, 15)),
            ]
        )
        if n_sites(text) == 2:
            break
    n_r = rng.randint(0, 3) if nrefs is None else nrefs
    vrec = finish(text, kit + "-vec0", n_r)
    mrecs = []
    for i in range(nmods):
        for attempt_i in range(50):
            text = "".join(
                [
                    rand_dna(rng, rng.randint(0, 12)),
                    site,
                    sp(),
                    ovhs[i],
                    rand_dna(rng, rng.randint(3, 14)),
                    ovhs[i + 1],
                    sp(),
                    rc(site),
                    rand_dna(rng, rng.randint(0, 12)),
                ]
            )
            if n_sites(text) == 2:
                break
        n_r = rng.randint(0, 3) if nrefs is None else nrefs
        mrecs.append(finish(text, "{}-mod{}".format(kit, i + 1), n_r))
    return vcls, mcls, vrec, mrecs


def snapshot(vrec, mrecs):
    return [ser_rec(r) for r in [vrec] + list(mrecs)]


def probe(label, entity):
    attempt(label + ".is_valid", entity.is_valid)
    attempt(label + ".overhang_start", entity.overhang_start)
    attempt(label + ".overhang_end", entity.overhang_end)
    attempt(label + ".target", entity.target_sequence)
    if isinstance(entity, AbstractVector):
        attempt(label + ".placeholder", entity.placeholder_sequence)


def run_case(label, rng, vcls, mcls, vrec, mrecs, history, drop=None, dup=False, extra=None,
             filter_="always"):
    vector = vcls(vrec)
    mods = [mcls(m) for m in mrecs]
    if drop is not None and mods:
        del mods[drop % len(mods)]
    if dup and mods:
        mods.append(mcls(copy.deepcopy(mods[0].record)))
    if extra is not None:
        mods.append(extra)
    rng.shuffle(mods)
    before = snapshot(vrec, mrecs)
    for step, action in enumerate(history):
        tag = "{}#{}:{}".format(label, step, action)
        if action == "assemble":
            if mods:
                attempt(tag, vector.assemble, *mods, _filter=filter_)
            else:
                attempt(tag, lambda: vector.assemble(), _filter=filter_)
        elif action == "assemble_named":
            attempt(tag, vector.assemble, *mods, id="myid", name="myname")
        elif action == "probe_vector":
            probe(tag, vector)
        elif action == "probe_modules":
            for i, m in enumerate(mods):
                probe("{}[{}]".format(tag, i), m)
        elif action == "manager":
            def use_manager():
                mgr = AssemblyManager(vector, list(mods), id_="mgr", name="mgrname")
                res = [mgr.id, mgr.name, len(mgr.elements), mgr._CITATION_RX.pattern]
                modmap = mgr._generate_modules_map()
                res.append(sorted(str(k) for k in modmap))
                mgr._deref_citations(vector.record)
                res.append(ser_rec(vector.record))
                mgr._ref_citations(vector.record)
                res.append(ser_rec(vector.record))
                asm = mgr._generate_assembly(modmap)
                res.append(ser_rec(asm))
                mgr._annotate_assembly(asm)
                mgr._ref_citations(asm)
                res.append(ser_rec(asm))
                res.append(ser_rec(mgr.assemble()))
                return res
            attempt(tag, use_manager)
        after = snapshot(vrec, mrecs)
        out(tag + ".inputs", "unchanged" if after == before else "CHANGED " + " || ".join(after))


def main():
    rng = random.Random(20240910)
    kits = sorted(KITS)
    histories = [
        ["assemble"],
        ["assemble", "assemble"],
        ["probe_modules", "assemble", "probe_modules"],
        ["probe_vector", "assemble", "probe_vector", "assemble"],
        ["assemble", "probe_modules", "probe_vector", "assemble_named"],
        ["manager", "assemble"],
        ["probe_modules", "probe_vector", "manager", "probe_modules"],
    ]
    n = 0
    # 1. valid assemblies, all kits, all letter cases, with citations
    for kit in kits:
        for nmods in (1, 2, 3):
            for case_mode in (0, 1, 2):
                for rep in range(3):
                    n += 1
                    vcls, mcls, vrec, mrecs = build_case(rng, kit, nmods, case_mode)
                    run_case("ok{}-{}".format(n, kit), rng, vcls, mcls, vrec, mrecs,
                             histories[n % len(histories)])
    # 2. failing assemblies: missing module, duplicates, unused, no modules
    for kit in kits:
        for rep in range(4):
            n += 1
            vcls, mcls, vrec, mrecs = build_case(rng, kit, 3, rep % 3)
            run_case("missing{}-{}".format(n, kit), rng, vcls, mcls, vrec, mrecs,
                     ["assemble", "probe_modules", "assemble"], drop=rep)
            n += 1
            vcls, mcls, vrec, mrecs = build_case(rng, kit, 2, rep % 3)
            run_case("dup{}-{}".format(n, kit), rng, vcls, mcls, vrec, mrecs,
                     ["assemble", "assemble"], dup=True)
            n += 1
            vcls, mcls, vrec, mrecs = build_case(rng, kit, 2, rep % 3)
            _, _, _, others = build_case(rng, kit, 2, rep % 3)
            extra = mcls(others[1])
            for filt in ("always", "error"):
                run_case("unused{}-{}-{}".format(n, kit, filt), rng, vcls, mcls, vrec, mrecs,
                         ["assemble", "probe_modules", "assemble"], extra=extra, filter_=filt)
            n += 1
            vcls, mcls, vrec, mrecs = build_case(rng, kit, 2, 0, broken="same_vector_overhangs")
            run_case("badvec{}-{}".format(n, kit), rng, vcls, mcls, vrec, mrecs,
                     ["assemble", "probe_vector"])
    # 3. reverse-complementing overhangs
    for kit in ("BpiI", "BsaI"):
        vcls, mcls, vrec, mrecs = build_case(rng, kit, 2, 0)
        m0 = mcls(mrecs[0])
        rcrec = mrecs[0].reverse_complement(id=True, name=True, description=True,
                                            annotations=True)
        n += 1
        run_case("revcomp{}-{}".format(n, kit), rng, vcls, mcls, vrec, mrecs,
                 ["assemble"], extra=mcls(rcrec))
        del m0
    # 4. invalid citations of various kinds
    invalids = [["[x]"], ["[]"], ["[9]"], ["[0]"], ["1"], "[1]", ["[1]junk"], ["[1]", "nope"],
                [""], ["[-1]"], ["[ 1]"], ["[01]"]]
    for kit in ("BpiI", "BsrDI"):
        for inv in invalids:
            n += 1
            vcls, mcls, vrec, mrecs = build_case(rng, kit, 2, 0, nrefs=2, invalid=inv)
            run_case("invalid{}-{}-{}".format(n, kit, inv), rng, vcls, mcls, vrec, mrecs,
                     ["assemble", "assemble"])
    # 5. plain SeqRecord inputs (circular by default, or explicitly linear)
    for kit in ("BpiI", "BsaI", "BsrDI"):
        for rectype in ("plain", "plain_linear"):
            n += 1
            vcls, mcls, vrec, mrecs = build_case(rng, kit, 1, 0, rectype=rectype, nrefs=1)
            run_case("plain{}-{}-{}".format(n, kit, rectype), rng, vcls, mcls, vrec, mrecs,
                     ["probe_vector", "probe_modules", "assemble"])
    # 6. the same record / the same module used twice, references shared by identity
    for kit in ("BpiI", "BtsI"):
        n += 1
        vcls, mcls, vrec, mrecs = build_case(rng, kit, 2, 0, nrefs=2)
        vector = vcls(vrec)
        m1, m2 = mcls(mrecs[0]), mcls(mrecs[1])
        attempt("twice{}-{}".format(n, kit), vector.assemble, m1, m2, m1)
        out("twice.inputs", *snapshot(vrec, mrecs))
        n += 1
        vcls, mcls, vrec, mrecs = build_case(rng, kit, 2, 0, nrefs=2)
        shared = mkref("identity-shared")
        for r in [vrec] + mrecs:
            r.annotations["references"].insert(0, shared)
            r.annotations["references"].append(mkref("identity-shared"))
            for f in r.features:
                if "citation" in f.qualifiers:
                    f.qualifiers["citation"].append("[{}]".format(len(r.annotations["references"])))
        run_case("sharedref{}-{}".format(n, kit), rng, vcls, mcls, vrec, mrecs,
                 ["assemble", "probe_modules", "assemble"])
    # 7. records that do not match / contain illegal sites
    for kit in kits:
        vcls, mcls, vrec, mrecs = build_case(rng, kit, 1, 0)
        site = KITS[kit][2]
        n += 1
        bad = CircularRecord(Seq(rand_dna(rng, 40)), id="nomatch")
        probe("nomatch{}-{}".format(n, kit), mcls(bad))
        probe("nomatchv{}-{}".format(n, kit), vcls(bad))
        attempt("nomatch-asm{}".format(n), vcls(vrec).assemble, mcls(bad))
        attempt("nomatch-asm2-{}".format(n), vcls(bad).assemble, mcls(mrecs[0]))
        out("nomatch.inputs", *snapshot(vrec, mrecs))
    # 8. abstract classes and cutter checks
    for cls in (AbstractModule, AbstractVector, core_modules.Product, core_vectors.DeviceVector):
        attempt("abstract-{}".format(cls.__name__), cls, CircularRecord(Seq("ACGT"), id="x"))
    # 9. error classes
    dummy = BpiIModule(CircularRecord(Seq("ACGT"), id="dummy"))
    for e in [
        errors.InvalidSequence("ACGT"),
        errors.InvalidSequence("ACGT", details="some details"),
        errors.InvalidSequence("ACGT", ValueError("x"), "other"),
        errors.IllegalSite(Seq("ACGT")),
        errors.IllegalSite(Seq("ACGT"), details="d"),
        errors.DuplicateModules(dummy, dummy),
        errors.DuplicateModules(dummy, details="why"),
        errors.MissingModule("ACGT"),
        errors.MissingModule(Seq("ACGT"), details="why"),
        errors.UnusedModules(dummy),
        errors.UnusedModules(dummy, dummy, details=3),
        errors.UnusedModules(dummy, details="with {} braces"),
        errors.DuplicateModules(dummy, dummy, details=3),
        errors.DuplicateModules(dummy, "not a module"),
        errors.MissingModule("ACGT", details=["x"]),
        errors.MissingModule("ACGT", details="{0}{0}", other="ignored"),
        errors.InvalidSequence("ACGT", details=4),
        errors.InvalidSequence(sequence="ACGT", exc=None, details="kw {}"),
        errors.DuplicateModules(),
        errors.UnusedModules(),
    ]:
        out("error", ser_exc(e), repr(e), isinstance(e, errors.MocloError),
            [c.__name__ for c in type(e).__mro__])
    for cls, args, kwargs in [
        (errors.MissingModule, (), {}),
        (errors.InvalidSequence, (), {}),
        (errors.InvalidSequence, ("a", "b", "c", "d"), {}),
        (errors.MissingModule, ("a", "b"), {}),
    ]:
        attempt("error-ctor-{}".format(cls.__name__), cls, *args, **kwargs)
    # 9b. helpers of moclo.core._utils and keyword handling of assemble
    from moclo.core._utils import add_as_source, cutter_check
    from Bio.Restriction import EcoRV, NotI
    src = CircularRecord(Seq("ACGTACGT"), id="src")
    for loc in (None, FeatureLocation(1, 3), FeatureLocation(0, 0)):
        dst = SeqRecord(Seq("ACGTAC"), id="dst")
        res = attempt("add_as_source-{}".format(loc), add_as_source, src, dst, loc)
        out("same object", res is dst)
    attempt("add_as_source-kw", add_as_source, src_record=src, dst_record=SeqRecord(Seq("AC")),
            location=FeatureLocation(0, 1))
    attempt("add_as_source-noid", add_as_source, "ACGT", SeqRecord(Seq("AC")))
    attempt("add_as_source-nolen", add_as_source, src, 3)
    for cutter in (NotImplemented, EcoRV, NotI, BpiI, BsrDI, None):
        attempt("cutter_check-{}".format(cutter), cutter_check, cutter, "SomeClass")
        attempt("cutter_check-kw-{}".format(cutter), cutter_check, cutter=cutter, name="Other")
    vcls, mcls, vrec, mrecs = build_case(rng, "BpiI", 2, 0, nrefs=2)
    vector, mods = vcls(vrec), [mcls(m) for m in mrecs]
    attempt("kw-id", vector.assemble, *mods, id="only-id")
    attempt("kw-name", vector.assemble, *mods, name="only-name")
    attempt("kw-both", vector.assemble, *mods, name="n", id="i", ignored=True, id_="also ignored")
    attempt("kw-none", vector.assemble, *mods, id=None, name=None)
    attempt("kw-nomodule", vector.assemble)
    attempt("mgr-defaults", lambda: AssemblyManager(vector, mods).assemble())
    attempt("mgr-positional", lambda: AssemblyManager(vector, mods, "pid", "pname").assemble())
    attempt("mgr-tuple", lambda: AssemblyManager(vector, tuple(mods)).assemble())
    attempt("mgr-badkw", lambda: AssemblyManager(vector, mods, id="x"))
    attempt("mgr-rx", lambda: (AssemblyManager._CITATION_RX.pattern,
                               AssemblyManager._CITATION_RX.match("[12]x").groups()))
    # 10. every registry, every item
    from moclo.registry.ytk import YTKRegistry, PTKRegistry
    from moclo.registry.cidar import CIDARRegistry
    from moclo.registry.ecoflex import EcoFlexRegistry
    from moclo.registry.plant import PlantRegistry
    try:
        from moclo.registry.moclo import MoCloRegistry  # noqa
        regs = [MoCloRegistry]
    except ImportError:
        regs = []
    byclass = {}
    for regcls in [YTKRegistry, PTKRegistry, CIDARRegistry, EcoFlexRegistry, PlantRegistry] + regs:
        reg = regcls()
        for key in sorted(reg):
            item = reg[key]
            ent = item.entity
            byclass.setdefault(type(ent).__name__, []).append(ent)
            h = hashlib.sha256()
            for fn in ("overhang_start", "overhang_end", "target_sequence"):
                try:
                    h.update(ser_rec(getattr(ent, fn)()).encode())
                except Exception as e:  # noqa
                    h.update(ser_exc(e).encode())
            if isinstance(ent, AbstractVector):
                h.update(ser_rec(ent.placeholder_sequence()).encode())
            out("registry", regcls.__name__, key, type(ent).__name__, h.hexdigest()[:16])
            count("registry item")
    # 11. real YTK cassettes, with citations grafted on copies of the registry records
    from moclo.kits import ytk
    def graft(ent, tag):
        rec = copy.deepcopy(ent.record)
        rec.annotations["references"] = [mkref("shared-A"), mkref(tag + "-own", 3)]
        k = 0
        for f in rec.features:
            if f.type != "source":
                k += 1
                f.qualifiers["citation"] = ["[{}]".format(1 + k % 2)] + (["[1]"] if k % 3 == 0 else [])
        return type(ent)(rec)
    for rep in range(6):
        try:
            parts = [
                graft(byclass[c][(rep * 3) % len(byclass[c])], c)
                for c in ("YTKPart1", "YTKPart2", "YTKPart3", "YTKPart4", "YTKPart5")
            ]
            vec = graft(byclass["YTKPart678"][rep % len(byclass["YTKPart678"])], "vec")
        except KeyError as e:
            out("ytk-real", "missing class", e)
            continue
        before = [ser_rec(p.record) for p in parts + [vec]]
        for k in range(2):
            res = attempt("ytk-real{}#{}".format(rep, k), vec.assemble, *parts)
            after = [ser_rec(p.record) for p in parts + [vec]]
            out("ytk-real.inputs", "unchanged" if before == after else "CHANGED")
    text = "\n".join(LINES)
    if "--dump" in sys.argv:
        print(text)
    for k in sorted(COUNTS):
        print("count", k, COUNTS[k])
    print("lines", len(LINES))
    print("DIGEST", hashlib.sha256(text.encode("utf-8")).hexdigest())


if __name__ == "__main__":
    main()
