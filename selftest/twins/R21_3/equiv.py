# coding: utf-8
"""Differential test: prints digests of the observable behaviour of moclo.

Run as ``cd /tmp/agentsR4/R21 && /venv/bin/python refactor_out/<dir>/equiv.py``.
The printed lines must be identical on the pristine tree and on the patched one.
"""
import sys

sys.path.insert(0, "/tmp/agentsR4/R21")
import tests  # noqa: E402,F401  (patches sys.path / namespace packages)

import copy  # noqa: E402
import decimal  # noqa: E402
import fractions  # noqa: E402
import gc  # noqa: E402
import hashlib  # noqa: E402
import io  # noqa: E402
import json  # noqa: E402
import os  # noqa: E402
import random  # noqa: E402
import re  # noqa: E402
import shutil  # noqa: E402
import tarfile  # noqa: E402
import tempfile  # noqa: E402
import urllib.request  # noqa: E402
import warnings  # noqa: E402

warnings.simplefilter("ignore")
gc.disable()  # keep ``__subclasses__`` listings deterministic

import Bio.SeqIO  # noqa: E402
import fs  # noqa: E402
from Bio import Restriction  # noqa: E402
from Bio.Restriction import (  # noqa: E402
    AllEnzymes,
    BsaI,
    BpiI,
    BsmBI,
    BbsI,
    SapI,
    BseRI,
    BsrDI,
    BtsI,
    EcoRI,
    Esp3I,
    MlyI,
)
from Bio.Seq import Seq  # noqa: E402
from Bio.SeqFeature import (  # noqa: E402
    SeqFeature,
    FeatureLocation,
    CompoundLocation,
    BeforePosition,
    AfterPosition,
    ExactPosition,
    Reference,
)
from Bio.SeqRecord import SeqRecord  # noqa: E402

import moclo  # noqa: E402
from moclo import errors  # noqa: E402
from moclo import _utils as moclo_utils  # noqa: E402
from moclo.record import CircularRecord  # noqa: E402
from moclo.regex import DNARegex, SeqMatch  # noqa: E402
from moclo import core  # noqa: E402
from moclo.core import (  # noqa: E402
    AbstractModule,
    AbstractPart,
    AbstractVector,
    Cassette,
    CassetteVector,
    Device,
    DeviceVector,
    Entry,
    EntryVector,
    Product,
)
from moclo.core import modules as core_modules  # noqa: E402
from moclo.core import parts as core_parts  # noqa: E402
from moclo.core import vectors as core_vectors  # noqa: E402
from moclo.kits import cidar, ecoflex, plant, ytk  # noqa: E402
from moclo.kits import moclo as moclokit  # noqa: E402
from moclo.registry import base as regbase  # noqa: E402
from moclo.registry.base import (  # noqa: E402
    AbstractRegistry,
    CombinedRegistry,
    EmbeddedRegistry,
    FilesystemRegistry,
    Item,
)
from moclo.registry.cidar import CIDARRegistry  # noqa: E402
from moclo.registry.ecoflex import EcoFlexRegistry  # noqa: E402
from moclo.registry.elabftw import ELabFTWRegistry  # noqa: E402
from moclo.registry.plant import PlantRegistry  # noqa: E402
from moclo.registry.ytk import PTKRegistry, YTKRegistry  # noqa: E402

KEEP_ALIVE = []  # dynamically created classes, never collected

# --------------------------------------------------------------------------
# Canonical description of values
# --------------------------------------------------------------------------

_ADDR = re.compile(r"0x[0-9a-fA-F]+")
_TMP = re.compile(r"equiv_R21_\d+")


def scrub(text):
    return _TMP.sub("equiv_R21_pid", _ADDR.sub("0x?", text))


def d_location(loc):
    if loc is None:
        return None
    return scrub(repr(loc))


def d_feature(f):
    return {
        "type": f.type,
        "id": f.id,
        "loc": d_location(f.location),
        "quals": d(f.qualifiers),
    }


def d_record(r):
    return {
        "cls": type(r).__name__,
        "seq": d(r.seq),
        "id": d(r.id),
        "name": d(r.name),
        "desc": d(r.description),
        "dbxrefs": d(r.dbxrefs),
        "annotations": d(r.annotations),
        "letters": d(dict(r.letter_annotations)),
        "features": [d_feature(f) for f in r.features],
    }


def d_exception(e):
    out = {
        "exc": type(e).__name__,
        "mro": [c.__name__ for c in type(e).__mro__],
        "msg": None,
        "cause": type(e.__cause__).__name__,
        "context": type(e.__context__).__name__,
        "suppress": e.__suppress_context__,
    }
    try:
        out["msg"] = scrub(str(e))
    except Exception as e2:  # __str__ itself may fail (details with braces, ...)
        out["msg"] = ["<str failed>", type(e2).__name__, scrub(str(e2))]
    try:
        out["args"] = d(list(e.args))
    except Exception as e2:
        out["args"] = ["<args failed>", type(e2).__name__]
    for attr in ("details", "start_overhang", "exc"):
        if hasattr(e, attr):
            out[attr] = d(getattr(e, attr))
    if hasattr(e, "sequence"):
        out["sequence"] = d(e.sequence)
    for attr in ("duplicates", "remaining"):
        if hasattr(e, attr):
            out[attr] = [d(x) for x in getattr(e, attr)]
    return out


def d(o):
    """Describe any value with JSON-compatible canonical data."""
    if o is None or isinstance(o, bool):
        return o
    if isinstance(o, (ExactPosition, BeforePosition, AfterPosition)):
        return repr(o)
    if isinstance(o, (int, float)):
        return [type(o).__name__, o]
    if isinstance(o, str):
        return scrub(o)
    if isinstance(o, bytes):
        return ["bytes", o.decode("latin-1")]
    if isinstance(o, Seq):
        return ["Seq", type(o).__name__, str(o)]
    if isinstance(o, SeqRecord):
        return d_record(o)
    if isinstance(o, SeqFeature):
        return d_feature(o)
    if isinstance(o, (FeatureLocation, CompoundLocation)):
        return d_location(o)
    if isinstance(o, Reference):
        return ["Reference", o.title, o.authors, o.journal, [d_location(x) for x in o.location]]
    if isinstance(o, SeqMatch):
        return d_match(o)
    if isinstance(o, BaseException):
        return d_exception(o)
    if isinstance(o, Item):
        return {
            "item": [d(o.id), d(o.name), d(o.resistance)],
            "entity": d(o.entity),
            "record_is": o.record is o.entity.record,
        }
    if isinstance(o, (AbstractModule, AbstractVector, AbstractPart)):
        return {"entity": type(o).__name__, "record": d(o.record), "seq_is": o.seq is o.record.seq}
    if isinstance(o, dict):
        return {"dict": [[d(k), d(v)] for k, v in o.items()]}
    if isinstance(o, (list, tuple)):
        return [type(o).__name__] + [d(x) for x in o]
    if isinstance(o, (set, frozenset)):
        return ["set"] + sorted(json.dumps(d(x), sort_keys=True) for x in o)
    if isinstance(o, type):
        return ["type", o.__name__]
    return ["obj", type(o).__name__, scrub(repr(o))]


def d_match(m):
    groups = m.match.re.groups
    out = {
        "shift": m.shift,
        "start": m.start(),
        "end": m.end(),
        "pattern": m.match.re.pattern,
        "spans": [list(m.span(i)) for i in range(groups + 1)],
        "span0": list(m.span()),
        "groups": [d(m.group(i)) for i in range(groups + 1)],
        "group0": d(m.group()),
    }
    return out


def attempt(fn, *args, **kwargs):
    """Run a callable, describing result or exception and warnings."""
    with warnings.catch_warnings(record=True) as caught:
        warnings.simplefilter("always")
        try:
            res = {"ok": d(fn(*args, **kwargs))}
        except Exception as e:  # noqa
            res = {"err": d_exception(e)}
    ws = [
        [type(w.message).__name__, w.category.__name__, d(w.message)]
        for w in caught
        if isinstance(w.message, errors.MocloError)
        or not issubclass(w.category, (DeprecationWarning, PendingDeprecationWarning))
    ]
    if ws:
        res["warnings"] = ws
    return res


def short(o):
    """A short hash of a described value (keeps the section dumps small)."""
    return hashlib.sha1(json.dumps(o, sort_keys=True).encode("utf-8")).hexdigest()[:16]


class Section(object):
    def __init__(self, name):
        self.name = name
        self.h = hashlib.sha256()
        self.n = 0
        self.ok = 0
        self.err = 0

    def add(self, label, value):
        blob = json.dumps([label, value], sort_keys=True)
        if os.environ.get("EQUIV_DUMP"):
            with open(os.environ["EQUIV_DUMP"], "a") as f:
                f.write(self.name + "\t" + blob[:4000] + "\n")
        self.h.update(blob.encode("utf-8"))
        self.n += 1
        if isinstance(value, dict):
            if "ok" in value:
                self.ok += 1
            if "err" in value:
                self.err += 1

    def run(self, label, fn, *args, **kwargs):
        self.add(label, attempt(fn, *args, **kwargs))

    def done(self):
        digest = self.h.hexdigest()
        print(
            "%-12s entries=%-6d ok=%-6d err=%-6d %s"
            % (self.name, self.n, self.ok, self.err, digest)
        )
        return digest


# --------------------------------------------------------------------------
# Generators
# --------------------------------------------------------------------------

IUPAC = {
    "A": "A",
    "C": "C",
    "G": "G",
    "T": "T",
    "B": "CGT",
    "D": "AGT",
    "H": "ACT",
    "K": "GT",
    "M": "AC",
    "N": "ACGT",
    "R": "AG",
    "S": "CG",
    "V": "ACG",
    "W": "AT",
    "Y": "CT",
}


def rand_dna(rng, n, alphabet="ACGT"):
    return "".join(rng.choice(alphabet) for _ in range(n))


def rand_case(rng, s, p=0.3):
    return "".join(c.lower() if rng.random() < p else c for c in s)


def from_pattern(rng, pattern, overrides=None, star=(0, 18), filler="ACGT"):
    """Generate a sequence matching a moclo structure pattern.

    ``overrides`` maps a group number to the literal content to emit.
    """
    overrides = overrides or {}
    out = []
    i = 0
    group = 0
    while i < len(pattern):
        c = pattern[i]
        if c == "(":
            group += 1
            if group in overrides:
                out.append(overrides[group])
                depth = 1
                i += 1
                while depth:
                    if pattern[i] == "(":
                        depth += 1
                    elif pattern[i] == ")":
                        depth -= 1
                    i += 1
                continue
            i += 1
            continue
        if c == ")":
            i += 1
            continue
        nxt = pattern[i + 1 : i + 3]
        if nxt.startswith("*"):
            count = rng.randint(*star)
            out.append("".join(rng.choice(filler) for _ in range(count)))
            i += 3 if nxt == "*?" else 2
            continue
        out.append(rng.choice(IUPAC.get(c.upper(), c.upper())))
        i += 1
    return "".join(out)


def rand_location(rng, n):
    kind = rng.randrange(8)
    strand = rng.choice([1, -1, 0, None])
    if n == 0:
        return FeatureLocation(0, 0, strand)
    a = rng.randrange(n)
    b = rng.randrange(a, n + 1)
    if kind == 0:  # wraps the origin
        a = rng.randrange(1, n + 1)
        b = rng.randrange(0, a)
        parts = [FeatureLocation(a, n, strand), FeatureLocation(0, b, strand)]
        if strand == -1:
            parts.reverse()
        return CompoundLocation(parts)
    if kind == 1:  # compound, several parts
        cuts = sorted(rng.randrange(n + 1) for _ in range(rng.choice([4, 6])))
        parts = [
            FeatureLocation(cuts[i], cuts[i + 1], strand) for i in range(0, len(cuts), 2)
        ]
        return CompoundLocation(parts, operator=rng.choice(["join", "order"]))
    if kind == 2:  # fuzzy
        return FeatureLocation(BeforePosition(a), AfterPosition(b), strand)
    if kind == 3:  # beyond the end (as left by previous shifts)
        k = rng.randrange(1, 3) * n
        return FeatureLocation(a + k, b + k, strand)
    if kind == 4:  # end beyond the length, start inside
        return FeatureLocation(a, b + n, strand)
    if kind == 5:  # with references
        return FeatureLocation(a, b, strand, ref="REF1", ref_db="DB")
    if kind == 6:  # whole length
        return FeatureLocation(0, n, strand)
    return FeatureLocation(a, b, strand)


def rand_record(rng, n=None, cls=CircularRecord, topology="auto", citations=False):
    if n is None:
        n = rng.randrange(1, 60)
    seq = rand_case(rng, rand_dna(rng, n, "ACGT" if rng.random() < 0.8 else "ACGTN"))
    features = []
    for i in range(rng.randrange(0, 6)):
        kind = rng.randrange(10)
        quals = {"label": ["f%d" % i], "note": ["x", "y"]}
        if kind == 0:
            f = SeqFeature(FeatureLocation(0, n), type="source", qualifiers=quals)
        elif kind == 1:
            f = SeqFeature(rand_location(rng, n), type="source", qualifiers=quals)
        elif kind == 2:
            f = SeqFeature(None, type=rng.choice(["misc", "source"]), qualifiers=quals)
        elif kind == 3 and n > 1:
            loc = CompoundLocation([FeatureLocation(0, n), FeatureLocation(0, 1)])
            f = SeqFeature(loc, type="source", id="src", qualifiers=quals)
        else:
            f = SeqFeature(
                rand_location(rng, n),
                type=rng.choice(["CDS", "promoter", "misc_feature", "Source"]),
                id="id%d" % i,
                qualifiers=quals,
            )
        features.append(f)
    annotations = {"molecule_type": "DNA", "k": [1, 2, {"z": 3}]}
    if topology == "auto":
        topology = rng.choice(["circular", "CIRCULAR", "Circular", None, None])
    if topology is not None:
        annotations["topology"] = topology
    if citations:
        refs = []
        for j in range(rng.randrange(1, 4)):
            ref = Reference()
            ref.title = "title %d" % j
            ref.authors = "author %d" % rng.randrange(3)
            refs.append(ref)
        annotations["references"] = refs
        for f in features:
            if rng.random() < 0.7:
                f.qualifiers["citation"] = [
                    "[%d]" % rng.randrange(1, len(refs) + 1)
                    for _ in range(rng.randrange(1, 3))
                ]
    letters = {}
    if rng.random() < 0.5:
        letters["phred_quality"] = [rng.randrange(40) for _ in range(n)]
    if rng.random() < 0.3:
        letters["struct"] = rand_dna(rng, n, ".()")
    rec = cls(
        Seq(seq),
        id="rec%d" % rng.randrange(1000),
        name="name%d" % rng.randrange(1000),
        description="desc %d" % rng.randrange(1000),
        dbxrefs=["db:%d" % rng.randrange(10)],
        features=features,
        annotations=annotations,
        letter_annotations=letters,
    )
    return rec


# --------------------------------------------------------------------------
# Section 1: CircularRecord
# --------------------------------------------------------------------------


class MyRecord(CircularRecord):
    """A user-defined subclass."""

    extra = "yes"


def section_record():
    S = Section("record")
    rng = random.Random(1001)

    def rotated(rec, op, k):
        before = d(rec)
        res = rec >> k if op == ">>" else rec << k
        info = {
            "res": d(res),
            "same": res is rec,
            "type": type(res).__name__,
            "untouched": d(rec) == before,
        }
        if res is not rec:
            info["share"] = [
                res.annotations is rec.annotations,
                res.dbxrefs is rec.dbxrefs,
                res.seq is rec.seq,
                [
                    (a.qualifiers is b.qualifiers, a.location is b.location, a is b)
                    for a, b in zip(res.features, rec.features)
                ],
                [res.letter_annotations.get(k_) is v for k_, v in rec.letter_annotations.items()],
            ]
        return info

    for case in range(260):
        cls = MyRecord if case % 5 == 0 else CircularRecord
        n = rng.choice([1, 2, 3, 5, 8, 13, 21, 34, 55]) if case % 3 else None
        rec = rand_record(rng, n, cls=cls)
        n = len(rec)
        shifts = [0, 1, -1, n, -n, n + 3, -n - 2, 2 * n, n // 2, 7 * n + 1]
        shifts += [rng.randrange(-5 * n, 5 * n + 1) for _ in range(3)]
        for k in shifts:
            S.run(("rshift", case, k), rotated, rec, ">>", k)
            S.run(("lshift", case, k), rotated, rec, "<<", k)
        # composition
        a, b = rng.randrange(-n, 2 * n), rng.randrange(-n, 2 * n)
        S.run(("compose", case), lambda: d((rec >> a) << b))
        S.run(("compose2", case), lambda: d(((rec << a) >> b) >> 1))
        # bad shift amounts
        for bad in (1.5, "2", None, True, decimal.Decimal(-3), decimal.Decimal(2),
                    fractions.Fraction(-3, 1), fractions.Fraction(5, 2), -2.0, float("nan")):
            S.run(("badshift", case, repr(bad)), lambda: rec >> bad)
            S.run(("badshift<<", case, repr(bad)), lambda: rec << bad)
        # containment
        doubled = str(rec.seq) * 3
        for _ in range(6):
            i = rng.randrange(n)
            ln = rng.randrange(0, n + 3)
            sub = doubled[i : i + ln]
            S.run(("in", case, sub), lambda: sub in rec)
            S.run(("in-lower", case, sub), lambda: sub.lower() in rec)
        S.run(("in-seq", case), lambda: rec.seq[:2] in rec)
        S.run(("in-rand", case), lambda: rand_dna(rng, 3) in rec)
        S.run(("in-int", case), lambda: 3 in rec)
        # item access
        for _ in range(6):
            i = rng.randrange(-n - 2, n + 2)
            j = rng.randrange(-n - 2, n + 2)
            st = rng.choice([None, None, 1, 2, -1])
            S.run(("getitem", case, i), lambda: rec[i])
            S.run(("slice", case, i, j, st), lambda: rec[i:j:st])
        S.run(("slice-all", case), lambda: rec[:])
        S.run(("slice-ann", case), lambda: (rec[:].annotations is rec.annotations))
        S.run(("getitem-bad", case), lambda: rec["a"])
        # reverse complement
        S.run(("rc", case), lambda: rec.reverse_complement())
        S.run(
            ("rc-opts", case),
            lambda: rec.reverse_complement(
                id=True, name="n", description=True, annotations=True, dbxrefs=True
            ),
        )
        S.run(
            ("rc-nofeat", case),
            lambda: rec.reverse_complement(features=False, letter_annotations=False),
        )
        S.run(("rc-type", case), lambda: type(rec.reverse_complement()).__name__)
        # ambiguous
        S.run(("add", case), lambda: rec + rec)
        S.run(("add-str", case), lambda: rec + "ACGT")
        S.run(("radd-str", case), lambda: "ACGT" + rec)
        S.run(("radd-seq", case), lambda: Seq("ACGT") + rec)
        S.run(("iadd", case), lambda: rec.__iadd__("A") if hasattr(rec, "__iadd__") else None)
        # conversion
        plain = SeqRecord(
            rec.seq,
            rec.id,
            rec.name,
            rec.description,
            rec.dbxrefs,
            rec.features,
            rec.annotations,
            dict(rec.letter_annotations),
        )

        def conv(src, klass):
            new = klass(src)
            return {
                "rec": d(new),
                "share": [
                    new.seq is src.seq,
                    new.features is src.features,
                    new.annotations is src.annotations,
                    new.dbxrefs is src.dbxrefs,
                    [a is b for a, b in zip(new.features, src.features)],
                ],
            }

        S.run(("conv", case), conv, plain, CircularRecord)
        S.run(("conv-sub", case), conv, rec, MyRecord)
        S.run(("conv-ignored", case), lambda: d(CircularRecord(plain, "other-id", "other-name")))
        lin = copy.deepcopy(plain)
        lin.annotations["topology"] = rng.choice(["linear", "LINEAR", "other"])
        S.run(("conv-linear", case), lambda: CircularRecord(lin))
        S.run(
            ("init-linear", case),
            lambda: CircularRecord(rec.seq, annotations={"topology": "Linear"}),
        )
        S.run(
            ("init-badtopo", case),
            lambda: CircularRecord(rec.seq, annotations={"topology": None}),
        )
        S.run(("init-min", case), lambda: CircularRecord(rec.seq))
        S.run(("init-str", case), lambda: CircularRecord(str(rec.seq)))
        S.run(("len", case), lambda: len(rec))
        S.run(("final", case), lambda: d(rec))

    # empty record
    empty = CircularRecord(Seq(""), id="empty")
    for k in (0, 1, -1):
        S.run(("empty>>", k), lambda: empty >> k)
        S.run(("empty<<", k), lambda: empty << k)
    S.run("empty-in", lambda: "" in empty)
    S.run("empty-in2", lambda: "A" in empty)
    S.run("empty-rc", lambda: empty.reverse_complement())
    S.run("doc", lambda: [CircularRecord.__doc__, CircularRecord.__rshift__.__name__,
                          CircularRecord.__add__.__name__, CircularRecord.__add__.__doc__,
                          CircularRecord.__radd__.__name__, CircularRecord.__radd__.__doc__])
    return S.done()


# --------------------------------------------------------------------------
# Section 2: DNARegex / SeqMatch
# --------------------------------------------------------------------------


class MyRegex(DNARegex):
    _lettermap = dict(DNARegex._lettermap, X="[AC]", N="[ACGT]")


def rand_pattern(rng):
    letters = "ACGT" * 3 + "NNNN" + "BDHKMRSVWY" + "acgtn"
    out = []
    ngroups = rng.randrange(0, 4)
    pieces = ngroups * 2 + 1
    opened = False
    for p in range(pieces):
        if p % 2 == 1:
            out.append("(")
            opened = True
        for _ in range(rng.randrange(0 if opened else 1, 5)):
            out.append(rng.choice(letters))
            r = rng.random()
            if r < 0.08:
                out.append("*")
            elif r < 0.12:
                out.append("*?")
            elif r < 0.15:
                out.append("?")
        if p % 2 == 1:
            out.append(")")
            opened = False
            if rng.random() < 0.15:
                out.append("?")
    return "".join(out)


def section_regex():
    S = Section("regex")
    rng = random.Random(2002)

    S.run("lettermap", lambda: d(dict(DNARegex._lettermap)))

    for case in range(420):
        pattern = rand_pattern(rng)
        klass = MyRegex if case % 7 == 0 else DNARegex
        if klass is MyRegex:
            pattern += "X"
        try:
            rx = klass(pattern)
        except re.error as e:
            S.add(("compile", case, pattern), d_exception(e))
            continue
        S.add(("compiled", case), [rx.pattern, rx.regex.pattern, rx.regex.flags])
        n = rng.randrange(1, 40)
        text = rand_case(rng, rand_dna(rng, n, "ACGT" if case % 4 else "ACGTN"))
        # plant the pattern sometimes so that matches are frequent
        if rng.random() < 0.8:
            planted = from_pattern(rng, pattern.replace("?", "").replace("X", "A"), star=(0, 4))
            pos = rng.randrange(0, n)
            text = text[:pos] + rand_case(rng, planted) + text[pos:]
            # rotate to make it wrap sometimes
            k = rng.randrange(len(text))
            text = text[k:] + text[:k]
        seq = Seq(text)
        subjects = {
            "Seq": seq,
            "SeqRecord": SeqRecord(seq, id="lin"),
            "Circular": CircularRecord(seq, id="circ"),
            "MyRecord": MyRecord(seq, id="mine"),
        }
        for sname, subject in subjects.items():
            for linear in (True, False):
                S.run(("search", case, sname, linear), rx.search, subject, linear=linear)
            pos = rng.randrange(0, len(text) + 2)
            endpos = rng.randrange(0, len(text) + 2)
            S.run(("search-pos", case, sname, pos), rx.search, subject, pos)
            S.run(("search-pos2", case, sname, pos, endpos), rx.search, subject, pos, endpos)
            S.run(
                ("search-kw", case, sname, pos, endpos),
                rx.search,
                subject,
                pos=pos,
                endpos=endpos,
                linear=False,
            )
            S.run(("search-neg", case, sname), rx.search, subject, -2)

            def identity():
                m = rx.search(subject, linear=False)
                if m is None:
                    return None
                return [m.rec is subject, type(m).__name__, m.match.pos, m.match.endpos,
                        m.match.string == str(seq) * 2]

            S.run(("identity", case, sname), identity)
        S.run(("search-str", case), rx.search, text)
        S.run(("search-none", case), rx.search, None)
        S.run(("search-bytes", case), rx.search, text.encode())

        # raw SeqMatch objects over every position of the doubled string
        doubled = text * 2
        for sname in ("Seq", "Circular", "SeqRecord"):
            subject = subjects[sname]
            for i in range(0, len(doubled), max(1, len(doubled) // 12)):
                m = rx.regex.match(doubled, i)
                if m is not None:
                    S.run(("seqmatch", case, sname, i), lambda: SeqMatch(m, subject, shift=i))
                m = rx.regex.search(doubled, i)
                if m is not None:
                    S.run(("seqmatch-s", case, sname, i), lambda: SeqMatch(m, subject))

    S.run("default-endpos", lambda: DNARegex.search.__defaults__)
    S.run("seqmatch-init-defaults", lambda: SeqMatch.__init__.__defaults__)
    S.run("empty-subject", DNARegex("N*").search, Seq(""))
    S.run("empty-subject-c", DNARegex("N*").search, CircularRecord(Seq("")))
    S.run("empty-pattern", DNARegex("").search, Seq("ACGT"))
    return S.done()


# --------------------------------------------------------------------------
# Section 3: kits on generated records / structures over all enzymes
# --------------------------------------------------------------------------

KIT_MODULES = [
    ("cidar", cidar),
    ("ecoflex", ecoflex),
    ("moclo", moclokit),
    ("plant", plant),
    ("ytk", ytk),
]


def kit_classes(module):
    out = []
    for name in sorted(vars(module)):
        obj = getattr(module, name)
        if (
            isinstance(obj, type)
            and issubclass(obj, (AbstractModule, AbstractVector, AbstractPart))
            and obj.__module__ == module.__name__
        ):
            out.append(obj)
    return out


def probe_entity(entity, twice=True):
    """Describe everything public an entity can do."""
    out = {"cls": type(entity).__name__}
    out["valid"] = attempt(entity.is_valid)
    if twice:
        out["valid2"] = attempt(entity.is_valid)
    for meth in ("overhang_start", "overhang_end", "target_sequence", "placeholder_sequence"):
        if hasattr(entity, meth):
            out[meth] = attempt(getattr(entity, meth))
    if hasattr(entity, "target_sequence"):
        out["target2"] = attempt(entity.target_sequence)  # must not accumulate state
    out["record"] = short(d(entity.record))
    out["seq_is"] = entity.seq is entity.record.seq
    return out


def section_structures():
    S = Section("structures")
    # core and kit classes
    for cls in (AbstractModule, AbstractVector, AbstractPart, Product, Entry, Cassette, Device,
                EntryVector, CassetteVector, DeviceVector):
        S.run(("structure", cls.__name__), cls.structure)
        S.run(("new", cls.__name__), lambda: cls(CircularRecord(Seq("ACGT"))))
        S.add(("level", cls.__name__), d(getattr(cls, "_level", "n/a")))
    for kname, module in KIT_MODULES:
        for cls in kit_classes(module):
            S.run(("structure", kname, cls.__name__), cls.structure)
            S.add(
                ("attrs", kname, cls.__name__),
                [
                    str(cls.cutter),
                    d(getattr(cls, "signature", "n/a")),
                    d(getattr(cls, "_level", "n/a")),
                    [c.__name__ for c in cls.__mro__],
                    moclo_utils.isabstract(cls),
                ],
            )
    # every enzyme Biopython knows about
    sigs = [("ATGC", "ggta"), ("NNNN", "TACT"), ("AATG", "NN"), ("", "")]
    for i, enz in enumerate(sorted(AllEnzymes, key=str)):
        name = str(enz)
        M = type(str("M_" + name), (AbstractModule,), {"cutter": enz})
        V = type(str("V_" + name), (AbstractVector,), {"cutter": enz})
        sig = sigs[i % len(sigs)]
        PM = type(str("PM_" + name), (AbstractPart, M), {"signature": sig})
        PV = type(str("PV_" + name), (AbstractPart, V), {"signature": sig})
        PX = type(str("PX_" + name), (AbstractPart,), {"cutter": enz, "signature": sig})
        PN = type(str("PN_" + name), (AbstractPart, M), {})
        KEEP_ALIVE.extend([M, V, PM, PV, PX, PN])
        for cls in (M, V, PM, PV, PX, PN):
            S.run(("enz-structure", name, cls.__name__[:2]), cls.structure)
        rec = CircularRecord(Seq("ACGTACGTACGT"), id="r")
        for cls in (M, V, PM, PX):
            S.run(("enz-new", name, cls.__name__[:2]), lambda: type(cls(rec)).__name__)
    # cutter / signature missing or malformed
    NoCut = type(str("NoCut"), (AbstractModule,), {})
    NoCutV = type(str("NoCutV"), (AbstractVector,), {})
    NoCutP = type(str("NoCutP"), (AbstractPart, AbstractModule), {"signature": ("A", "C")})
    BadSig = type(str("BadSig"), (AbstractPart, AbstractModule), {"cutter": BsaI, "signature": ("A",)})
    BadSig3 = type(str("BadSig3"), (AbstractPart, AbstractVector), {"cutter": BsaI, "signature": "ACG"})
    BadSigNoCut = type(str("BadSigNoCut"), (AbstractPart, AbstractVector), {"signature": "ACG"})
    NoSigNoCut = type(str("NoSigNoCut"), (AbstractPart, AbstractVector), {})
    Both = type(str("Both"), (AbstractPart, AbstractVector, AbstractModule), {"cutter": BsaI, "signature": ("AAAA", "CCCC")})
    Both2 = type(str("Both2"), (AbstractPart, AbstractModule, AbstractVector), {"cutter": BsmBI, "signature": ("AAAA", "CCCC")})
    KEEP_ALIVE.extend([NoCut, NoCutV, NoCutP, BadSig, BadSig3, BadSigNoCut, NoSigNoCut, Both, Both2])
    rec = CircularRecord(Seq("GGTCTCAAAAATTTTTTTCCCCAGAGACC"), id="r")
    for cls in (NoCut, NoCutV, NoCutP, BadSig, BadSig3, BadSigNoCut, NoSigNoCut, Both, Both2):
        S.run(("odd-structure", cls.__name__), cls.structure)
        S.run(("odd-new", cls.__name__), lambda: probe_entity(cls(rec)))
        S.run(("odd-new-args", cls.__name__), lambda: type(cls(rec, 1, 2, x=3)).__name__)
    return S.done()


def make_kit_record(rng, cls, idx, illegal=False):
    pattern = cls.structure()
    core_seq = from_pattern(rng, pattern)
    if illegal:
        site = cls.cutter.site
        # insert an extra site somewhere inside the construct
        pos = rng.randrange(8, max(9, len(core_seq) - 8))
        core_seq = core_seq[:pos] + site + core_seq[pos:]
    backbone = rand_dna(rng, rng.randrange(0, 40), "ACT")  # never creates a G-rich site
    full = rand_case(rng, core_seq + backbone, 0.15)
    k = rng.randrange(len(full))
    full = full[k:] + full[:k]
    n = len(full)
    feats = [
        SeqFeature(rand_location(rng, n), type="misc_feature", qualifiers={"label": ["m%d" % j]})
        for j in range(rng.randrange(0, 4))
    ]
    if rng.random() < 0.3:
        feats.append(SeqFeature(FeatureLocation(0, n), type="source", qualifiers={"label": ["old"]}))
    ann = {"topology": rng.choice(["circular", "Circular"])} if rng.random() < 0.5 else {}
    return CircularRecord(
        Seq(full), id="%s_%d" % (cls.__name__, idx), name="gen", features=feats, annotations=ann
    )


def section_kits_generated():
    S = Section("kits-gen")
    rng = random.Random(3003)
    for kname, module in KIT_MODULES:
        classes = kit_classes(module)
        for cls in classes:
            try:
                cls.structure()
            except Exception:
                continue
            for idx in range(3):
                rec = make_kit_record(rng, cls, idx, illegal=(idx == 2))
                S.add(("rec", kname, cls.__name__, idx), d(rec))
                for other in classes:
                    S.run(
                        ("probe", kname, cls.__name__, idx, other.__name__),
                        lambda: probe_entity(other(rec)),
                    )
                # linear copies of the same record
                lin = SeqRecord(rec.seq, id=rec.id, annotations={"topology": "linear"})
                lin2 = SeqRecord(rec.seq, id=rec.id)
                S.run(("probe-linear", kname, cls.__name__, idx), lambda: probe_entity(cls(lin)))
                S.run(("probe-linear2", kname, cls.__name__, idx), lambda: probe_entity(cls(lin2)))
                S.add(("rec-after", kname, cls.__name__, idx), d(rec))
        # characterize on the kit bases
        for base in classes:
            if base.__subclasses__():
                for idx in range(6):
                    target = rng.choice(classes)
                    try:
                        rec = make_kit_record(rng, target, idx)
                    except Exception:
                        continue
                    if hasattr(base, "characterize"):
                        S.run(
                            ("characterize", kname, base.__name__, target.__name__, idx),
                            lambda: base.characterize(rec),
                        )
    return S.done()


# --------------------------------------------------------------------------
# Section 4: registries
# --------------------------------------------------------------------------

REGISTRIES = [
    ("ytk", YTKRegistry, ytk),
    ("ptk", PTKRegistry, ytk),
    ("cidar", CIDARRegistry, cidar),
    ("ecoflex", EcoFlexRegistry, ecoflex),
    ("plant", PlantRegistry, moclokit),
]


def section_kits_registry():
    S = Section("kits-reg")
    for rname, factory, module in REGISTRIES:
        registry = factory()
        classes = kit_classes(module)
        if module is moclokit:
            classes = classes + kit_classes(plant)
        for key in sorted(registry):
            item = registry[key]
            S.add(("item", rname, key), short(d(item)))
            rec = item.entity.record
            for cls in classes:
                def probe():
                    ent = cls(rec)
                    out = {"valid": ent.is_valid()}
                    if out["valid"]:
                        out["start"] = d(ent.overhang_start())
                        out["end"] = d(ent.overhang_end())
                        out["target"] = short(d(ent.target_sequence()))
                        if hasattr(ent, "placeholder_sequence"):
                            out["placeholder"] = short(d(ent.placeholder_sequence()))
                    return out

                S.run(("probe", rname, key, cls.__name__), probe)
            S.add(("item-after", rname, key), short(d(item)))
        # rotated registry records: the match wraps the origin
        rng = random.Random(7000 + len(rname))
        keys = sorted(registry)
        for key in rng.sample(keys, min(12, len(keys))):
            item = registry[key]
            rec = item.entity.record
            for k in (rng.randrange(len(rec)), -rng.randrange(len(rec)), 3 * len(rec) + 17):
                rot = rec >> k
                S.run(
                    ("rotated", rname, key, k),
                    lambda: probe_entity(type(item.entity)(rot)),
                )
                low = CircularRecord(rot.seq.lower(), id=rot.id, features=rot.features)
                S.run(
                    ("lower", rname, key, k),
                    lambda: probe_entity(type(item.entity)(low)),
                )
    return S.done()


def gb_text(record):
    buff = io.StringIO()
    rec = copy.deepcopy(record)
    rec.annotations.setdefault("molecule_type", "DNA")
    with warnings.catch_warnings():
        warnings.simplefilter("ignore")
        Bio.SeqIO.write([rec], buff, "genbank")
    return buff.getvalue()


def describe_registry(S, label, registry, probe_keys=()):
    S.run((label, "len"), lambda: len(registry))
    S.run((label, "iter"), lambda: list(registry))
    S.run((label, "iter2"), lambda: list(iter(registry)))
    S.run((label, "keys"), lambda: list(registry.keys()))
    S.run((label, "values"), lambda: [short(d(v)) for v in registry.values()])
    S.run((label, "items"), lambda: [[k, short(d(v))] for k, v in registry.items()])
    for key in list(probe_keys) + ["missing-key", "", None, 42]:
        S.run((label, "get", repr(key)), lambda: registry[key])
        S.run((label, "contains", repr(key)), lambda: key in registry)
        S.run((label, "get-default", repr(key)), lambda: registry.get(key, "dflt"))


def section_registries():
    S = Section("registries")
    rng = random.Random(4004)

    # --- Embedded ----------------------------------------------------------
    instances = {}
    for rname, factory, module in REGISTRIES:
        registry = factory()
        instances[rname] = registry
        keys = sorted(registry)
        describe_registry(S, ("embedded", rname), registry, rng.sample(keys, 5))
        for key in keys:
            S.run(("embedded-item", rname, key), lambda: registry[key])
        S.run(("embedded-identity", rname), lambda: registry[keys[0]] is registry[keys[0]])
        S.run(("embedded-identity2", rname), lambda: factory()[keys[0]] is registry[keys[0]])
        S.add(
            ("embedded-attrs", rname),
            d([registry._module, registry._file, isinstance(registry, AbstractRegistry)]),
        )
    names = sorted(instances)
    for a in names:
        for b in names:
            S.run(("eq", a, b), lambda: [instances[a] == instances[b], instances[a] != instances[b],
                                         hash(instances[a]) == hash(instances[b])])
        S.run(("eq-other", a), lambda: [instances[a] == 3, instances[a] == {}, instances[a] == None])  # noqa
        S.run(("hash", a), lambda: hash(instances[a]) == hash((EmbeddedRegistry, instances[a]._file)))

    # --- user-defined embedded registry ------------------------------------
    tmp = os.path.join(tempfile.gettempdir(), "equiv_R21_%d" % os.getpid())
    shutil.rmtree(tmp, ignore_errors=True)
    os.mkdir(tmp)
    try:
        pkg = os.path.join(tmp, "equiv_embedded_pkg")
        os.mkdir(pkg)
        with open(os.path.join(pkg, "__init__.py"), "w") as f:
            f.write("")
        ytk_reg = instances["ytk"]

        def tar_of(path, records):
            with tarfile.open(path, "w:gz") as tar:
                for rec in records:
                    data = gb_text(rec).encode("utf-8")
                    info = tarfile.TarInfo(rec.id)
                    info.size = len(data)
                    tar.addfile(info, io.BytesIO(data))

        good = [copy.deepcopy(ytk_reg[k].entity.record) for k in ("pYTK002", "pYTK038", "pYTK095", "pYTK047")]
        tar_of(os.path.join(pkg, "good.tar.gz"), good)
        nores = copy.deepcopy(ytk_reg["pYTK002"].entity.record)
        for feat in nores.features:
            feat.qualifiers.pop("label", None)
        nores.id = "NoRes"
        tar_of(os.path.join(pkg, "nores.tar.gz"), [good[0], nores])
        multi = copy.deepcopy(ytk_reg["pYTK002"].entity.record)
        multi.id = "Multi"
        multi.features.insert(
            0, SeqFeature(FeatureLocation(1, 5), type="misc_feature", qualifiers={"label": ["AmpR", "KanR"]})
        )
        tar_of(os.path.join(pkg, "multi.tar.gz"), [multi])
        tar_of(os.path.join(pkg, "empty.tar.gz"), [])
        sys.path.insert(0, tmp)

        class Good(EmbeddedRegistry):
            _module = "equiv_embedded_pkg"
            _file = "good.tar.gz"
            calls = []

            def _load_entity(self, record):
                self.calls.append(("entity", record.id))
                return ytk.YTKPart.characterize(record)

        class Named(Good):
            def _load_name(self, record):
                self.calls.append(("name", record.id))
                return "custom " + record.id.lower()

            def _load_resistance(self, record):
                self.calls.append(("resistance", record.id))
                return super(Named, self)._load_resistance(record)

        class NoRes(Good):
            _file = "nores.tar.gz"

        class Multi(Good):
            _file = "multi.tar.gz"

        class Empty(Good):
            _file = "empty.tar.gz"

        class Failing(Good):
            def _load_entity(self, record):
                raise KeyError(record.id)

        class Wrong(Good):
            def _load_entity(self, record):
                return ytk.YTKPart8.characterize(record)

        class Missing(Good):
            _file = "does-not-exist.tar.gz"

        class Abstract(EmbeddedRegistry):
            _module = "equiv_embedded_pkg"
            _file = "good.tar.gz"

        for klass in (Good, Named, NoRes, Multi, Empty, Failing, Wrong, Missing, Abstract):
            S.run(("custom-new", klass.__name__), lambda: type(klass()).__name__)
            try:
                registry = klass()
            except Exception:
                continue
            describe_registry(S, ("custom", klass.__name__), registry, ["pYTK002", "NoRes", "Multi"])
            S.add(("custom-calls", klass.__name__), d(list(Good.calls)))
            del Good.calls[:]
            S.run(("custom-eq", klass.__name__), lambda: [registry == Good(), registry == instances["ytk"],
                                                           hash(registry) == hash(Good())])

        # --- Combined -------------------------------------------------------
        combined = CombinedRegistry()
        describe_registry(S, ("combined", "empty"), combined)
        S.run(("combined", "lshift"), lambda: (combined << instances["ytk"]) is combined)
        describe_registry(S, ("combined", "ytk"), combined, ["pYTK001", "pPTK001"])
        S.run(("combined", "chain"), lambda: (combined << instances["ptk"] << Named()) is combined)
        describe_registry(S, ("combined", "all"), combined, ["pYTK001", "pPTK001", "pYTK002"])
        S.run(("combined", "precedence"), lambda: combined["pYTK002"] is instances["ytk"]["pYTK002"])
        S.run(("combined", "add"), lambda: combined.add_registry(instances["cidar"]))
        S.run(("combined", "add-dict"), lambda: combined.add_registry({"x": instances["plant"][sorted(instances["plant"])[0]]}))
        S.run(("combined", "add-bad"), lambda: combined.add_registry([1, 2]))
        S.run(("combined", "add-bad2"), lambda: combined << 3)
        describe_registry(S, ("combined", "final"), combined, ["x", "DVA_AE"])
        S.run(
            ("combined", "precedence2"),
            lambda: d((CombinedRegistry() << Named() << instances["ytk"])["pYTK002"]),
        )

        # --- Filesystem -----------------------------------------------------
        memfs = fs.open_fs("mem://")
        names = ["pYTK002", "pYTK038", "pYTK095", "pYTK047", "pYTK008", "pYTK084"]
        for i, key in enumerate(names):
            ext = ["gb", "gbk", "genbank"][i % 3]
            with memfs.open("%s.%s" % (key, ext), "w") as f:
                f.write(gb_text(ytk_reg[key].entity.record))
        with memfs.open("pYTK002.gbk", "w") as f:  # both extensions exist
            f.write(gb_text(ytk_reg["pYTK003"].entity.record))
        with memfs.open("NoRes.gb", "w") as f:
            f.write(gb_text(nores))
        with memfs.open("Multi.gbk", "w") as f:
            f.write(gb_text(multi))
        with memfs.open("broken.gb", "w") as f:
            f.write("this is not genbank\n")
        with memfs.open("empty.gb", "w") as f:
            f.write("")
        with memfs.open("notes.txt", "w") as f:
            f.write("hello")
        memfs.makedir("sub.gb")
        memfs.makedir("nested")
        with memfs.open("nested/pYTK001.gb", "w") as f:
            f.write(gb_text(ytk_reg["pYTK001"].entity.record))
        with memfs.open("cidar.gb", "w") as f:
            f.write(gb_text(instances["cidar"]["DVA_AE"].entity.record))

        probe_keys = names + ["NoRes", "Multi", "broken", "empty", "notes", "sub", "nested/pYTK001", "cidar", "pYTK002.gb"]
        bases = [
            ("YTKPart", ytk.YTKPart),
            ("YTKPart8", ytk.YTKPart8),
            ("YTKPart1", ytk.YTKPart1),
            ("YTKEntry", ytk.YTKEntry),
            ("YTKCassetteVector", ytk.YTKCassetteVector),
            ("AbstractPart", AbstractPart),
            ("AbstractModule", AbstractModule),
            ("AbstractVector", AbstractVector),
            ("CIDAREntryVector", cidar.CIDAREntryVector),
        ]
        for bname, base in bases:
            S.run(("fs-new", bname), lambda: type(FilesystemRegistry(memfs, base)).__name__)
            registry = FilesystemRegistry(memfs, base)
            S.add(("fs-attrs", bname), d([registry.base, registry.fs is memfs, type(registry.fs).__name__]))
            if not hasattr(base, "characterize"):
                S.run(("fs-nochar", bname), lambda: registry["pYTK002"])
                S.run(("fs-nochar-list", bname), lambda: sorted(registry))
                continue
            describe_registry(S, ("fs", bname), registry, probe_keys)
        for exts in (("gb",), ("gbk", "gb"), ("genbank", "txt"), (), ["gb", "gb"]):
            S.run(("fs-ext-new", repr(exts)), lambda: type(FilesystemRegistry(memfs, ytk.YTKPart, exts)).__name__)
            registry = FilesystemRegistry(memfs, ytk.YTKPart, extensions=exts)
            describe_registry(S, ("fs-ext", repr(exts)), registry, ["pYTK002", "pYTK038", "pYTK095", "notes"])
        for bad in (None, "YTKPart", ytk.YTKPart1(ytk_reg["pYTK002"].entity.record), object, CircularRecord, int, 3):
            S.run(("fs-badbase", scrub(repr(bad))), lambda: FilesystemRegistry(memfs, bad))
        osdir = os.path.join(tmp, "osfs")
        os.mkdir(osdir)
        with open(os.path.join(osdir, "pYTK002.gb"), "w") as f:
            f.write(gb_text(ytk_reg["pYTK002"].entity.record))
        registry = FilesystemRegistry(osdir, ytk.YTKPart)
        describe_registry(S, ("fs", "osfs"), registry, ["pYTK002"])
        S.run(("fs", "readonly"), lambda: registry.fs.remove("pYTK002.gb"))
        S.run(("fs", "bad-url"), lambda: FilesystemRegistry(os.path.join(tmp, "nope"), ytk.YTKPart))
        registry.fs.close()

        # --- ELabFTW --------------------------------------------------------
        section_elabftw(S, ytk_reg, nores)
    finally:
        sys.path.remove(tmp)
        shutil.rmtree(tmp, ignore_errors=True)
    return S.done()


class FakeServer(object):
    def __init__(self, items, details, uploads):
        self.items = items
        self.details = details
        self.uploads = uploads
        self.log = []

    def urlopen(self, req, context=None, **kwargs):
        url = req.full_url
        ctx = None
        if context is not None:
            ctx = [context.check_hostname, int(context.verify_mode)]
        self.log.append([url, req.get_header("Authorization"), sorted(req.header_items()), ctx, sorted(kwargs)])
        m = re.search(r"/api/v1/items/(.*)$", url)
        if m is not None:
            if m.group(1) == "":
                return io.BytesIO(json.dumps(self.items).encode("utf-8"))
            return io.BytesIO(json.dumps(self.details[m.group(1)]).encode("utf-8"))
        m = re.search(r"/uploads/(.*)$", url)
        if m is not None:
            return io.BytesIO(self.uploads[m.group(1)])
        raise urllib.request.URLError("unknown url: " + url)


def section_elabftw(S, ytk_reg, nores):
    snap = copy.deepcopy(ytk_reg["pYTK038"].entity.record)
    snap.name = "Exported"
    uploads = {
        "a.gb": gb_text(ytk_reg["pYTK002"].entity.record).encode("utf-8"),
        "b.gb": gb_text(snap).encode("utf-8"),
        "bad.txt": b"not a genbank file",
        "bin.dat": b"\xff\xfe\x00\x9f\xff",
        "two.gb": (gb_text(ytk_reg["pYTK002"].entity.record) + gb_text(snap)).encode("utf-8"),
        "nores.gb": gb_text(nores).encode("utf-8"),
        "cidar.gb": gb_text(CIDARRegistry()["DVA_AE"].entity.record).encode("utf-8"),
        "p8.gb": gb_text(ytk_reg["pYTK095"].entity.record).encode("utf-8"),
    }
    items = [
        {"id": "1", "category": "Plasmids", "title": "Plasmid One", "tags": "ytk|part1"},
        {"id": "2", "category": "Plasmids", "title": "Plasmid Two", "tags": "ytk|snap"},
        {"id": "3", "category": "Plasmids", "title": "No file", "tags": None},
        {"id": "4", "category": "Plasmids", "title": "Bad files", "tags": ""},
        {"id": "5", "category": "Strains", "title": "A strain", "tags": "ytk"},
        {"id": "6", "category": "Plasmids", "title": "No resistance", "tags": "odd"},
        {"id": "7", "category": "Plasmids", "title": "Other kit", "tags": "cidar|odd"},
        {"id": "8", "category": "Vectors", "title": "Vector", "tags": "ytk|vector"},
        {"id": "9", "category": "Plasmids", "title": "Plasmid One", "tags": "dup"},
        {"id": 10, "category": "Plasmids", "title": "Mixed", "tags": "ytk|mixed"},
    ]
    details = {
        "1": {"title": "Plasmid One", "uploads": [{"long_name": "a.gb"}]},
        "2": {"title": "Plasmid Two", "uploads": [{"long_name": "bad.txt"}, {"long_name": "b.gb"}, {"long_name": "a.gb"}]},
        "3": {"title": "No file"},
        "4": {"title": "Bad files", "uploads": [{"long_name": "bad.txt"}, {"long_name": "bin.dat"}, {"long_name": "two.gb"}]},
        "5": {"title": "A strain", "uploads": [{"long_name": "a.gb"}]},
        "6": {"title": "No resistance", "uploads": [{"long_name": "nores.gb"}]},
        "7": {"title": "Other kit", "uploads": [{"long_name": "cidar.gb"}]},
        "8": {"title": "Vector", "uploads": [{"long_name": "p8.gb"}]},
        "9": {"title": "Plasmid Nine", "uploads": [{"long_name": "b.gb"}]},
        "10": {"title": "Mixed", "uploads": [{"long_name": "bin.dat"}, {"long_name": "a.gb"}]},
    }
    server = FakeServer(items, details, uploads)
    saved = urllib.request.urlopen
    urllib.request.urlopen = server.urlopen
    try:
        import six  # the pristine tree goes through six.moves

        six.moves.urllib.request.urlopen = server.urlopen
    except ImportError:
        six = None
    try:
        bad_args = [
            ("base-none", ("http://x", "tok", None), {}),
            ("base-inst", ("http://x", "tok", 3), {}),
            ("base-obj", ("http://x", "tok", object), {}),
            ("server-int", (42, "tok", ytk.YTKPart), {}),
            ("server-bytes", (b"http://x", "tok", ytk.YTKPart), {}),
            ("server-none", (None, "tok", ytk.YTKPart), {}),
            ("server-ftp", ("ftp://x", "tok", ytk.YTKPart), {}),
            ("server-empty", ("", "tok", ytk.YTKPart), {}),
            ("both-bad", (42, "tok", None), {}),
            ("ok-module", ("https://x", "tok", AbstractModule), {}),
            ("ok-vector", ("https://x", "tok", AbstractVector), {}),
        ]
        for label, args, kwargs in bad_args:
            S.run(("elab-new", label), lambda: type(ELabFTWRegistry(*args, **kwargs)).__name__)
        configs = [
            ("default", {}),
            ("strict", {"strict_ssl": True}),
            ("vectors", {"category": "Vectors"}),
            ("include", {"include_tags": ["ytk"]}),
            ("include-gen", {"include_tags": (t for t in ["part1", "mixed"])}),
            ("exclude", {"exclude_tags": ["snap", "odd"]}),
            ("both", {"include_tags": ["ytk", "odd"], "exclude_tags": ["cidar", "mixed"]}),
            ("include-empty", {"include_tags": []}),
            ("exclude-empty", {"exclude_tags": []}),
            ("raise", {"ignore_unknown": False}),
            ("raise-include", {"ignore_unknown": False, "include_tags": ["ytk"]}),
            ("raise-exclude", {"ignore_unknown": False, "exclude_tags": ["odd", "dup"], "category": "Plasmids"}),
            ("nothing", {"category": "Nothing"}),
        ]
        for bname, base in (("YTKPart", ytk.YTKPart), ("YTKPart8", ytk.YTKPart8)):
            for label, kwargs in configs:
                kwargs = dict(kwargs)
                if "include_tags" in kwargs and not isinstance(kwargs["include_tags"], list):
                    kwargs["include_tags"] = list(kwargs["include_tags"])
                registry = ELabFTWRegistry("http://elab.example.org:3418", "secret-token", base, **kwargs)
                S.add(
                    ("elab-attrs", bname, label),
                    d([registry.base, registry.server, registry.token, registry.category]),
                )
                describe_registry(
                    S,
                    ("elab", bname, label),
                    registry,
                    ["Plasmid One", "Plasmid Two", "No file", "Bad files", "A strain", "No resistance",
                     "Other kit", "Vector", "Plasmid Nine", "Mixed"],
                )
                S.run(("elab-hint", bname, label), lambda: registry.__length_hint__())
                S.add(("elab-log", bname, label), short(d(server.log)))
                S.add(("elab-log-n", bname, label), len(server.log))
                del server.log[:]
    finally:
        urllib.request.urlopen = saved
        if six is not None:
            six.moves.urllib.request.urlopen = saved


# --------------------------------------------------------------------------
# Section 5: assemblies
# --------------------------------------------------------------------------


def custom_kit(enz, tag):
    M = type(str("Mod" + tag), (AbstractModule,), {"cutter": enz})
    V = type(str("Vec" + tag), (AbstractVector,), {"cutter": enz})
    E = type(str("Ent" + tag), (Entry,), {"cutter": enz})
    C = type(str("CasVec" + tag), (CassetteVector,), {"cutter": enz})
    KEEP_ALIVE.extend([M, V, E, C])
    return M, V, E, C


def rand_overhangs(rng, size, count):
    """Distinct overhangs, none being the reverse complement of another."""
    seen = []
    while len(seen) < count:
        o = rand_dna(rng, size)
        rc = str(Seq(o).reverse_complement())
        if o == rc or o in seen or rc in seen:
            continue
        seen.append(o)
    return seen


def safe_filler(enz):
    """Letters that can never form the recognition site of the enzyme."""
    site = enz.site
    rc = str(Seq(site).reverse_complement())
    for letters in ("AT", "CT", "AG", "AC", "GT", "CG"):
        if not (set(site) <= set(letters) or set(rc) <= set(letters)):
            # the site needs some letter outside of this alphabet
            return letters
    return "A"


def build_part(rng, cls, start, end, idx, citations=False, lower=False, illegal=False, rotate=True):
    filler = safe_filler(cls.cutter)
    if cls.cutter.is_3overhang() or rng.random() < 0.35:
        # a user-defined part with its own signature (the only way to use
        # enzymes leaving 3' overhangs)
        sig = (rand_case(rng, start, 0.2), end)
        cls = type(str(cls.__name__ + "Part%d" % len(KEEP_ALIVE)), (AbstractPart, cls), {"signature": sig, "cutter": cls.cutter})
        KEEP_ALIVE.append(cls)
        overrides = {}
    elif issubclass(cls, AbstractModule):
        overrides = {1: start, 3: end}
    else:
        overrides = {1: end, 3: start}
    pattern = cls.structure()
    core_seq = from_pattern(rng, pattern, overrides, star=(3, 14), filler=filler)
    if illegal:
        pos = len(core_seq) // 2
        core_seq = core_seq[:pos] + cls.cutter.site + core_seq[pos:]
    full = core_seq + rand_dna(rng, rng.randrange(3, 25), filler)
    if lower:
        full = rand_case(rng, full, 0.4)
    n = len(full)
    feats = []
    for j in range(rng.randrange(1, 5)):
        feats.append(
            SeqFeature(
                rand_location(rng, n),
                type=rng.choice(["CDS", "misc_feature", "source"]),
                id="%s-%d-%d" % (cls.__name__, idx, j),
                qualifiers={"label": ["l%d" % j]},
            )
        )
    ann = {}
    if rng.random() < 0.5:
        ann["topology"] = "circular"
    if rng.random() < 0.5:
        ann["molecule_type"] = "DNA"
    if citations:
        refs = []
        for j in range(rng.randrange(1, 4)):
            ref = Reference()
            ref.title = "paper %d" % rng.randrange(4)  # shared between records
            ref.authors = "someone"
            refs.append(ref)
        ann["references"] = refs
        for f in feats:
            if rng.random() < 0.8:
                f.qualifiers["citation"] = [
                    "[%d]" % rng.randrange(1, len(refs) + 1) for _ in range(rng.randrange(1, 3))
                ]
    rec = CircularRecord(
        Seq(full),
        id="%s_%d" % (cls.__name__, idx),
        name="n%d" % idx,
        description="generated",
        features=feats,
        annotations=ann,
    )
    if rotate:
        rec = rec >> rng.randrange(-n, 2 * n)
    return cls(rec)


def run_assembly(vector, mods, **kwargs):
    """Assemble and describe result, failures, warnings and input state."""
    before = [short(d(e.record)) for e in list(mods) + [vector]]
    res = attempt(lambda: vector.assemble(*mods, **kwargs))
    after = [d(e.record) for e in list(mods) + [vector]]
    res["inputs-unchanged"] = [short(a) == b for a, b in zip(after, before)]
    res["inputs-after"] = short(after)
    return res


def section_assembly_generated():
    S = Section("assembly-gen")
    rng = random.Random(5005)
    enzymes = [BsaI, BpiI, BsmBI, BbsI, SapI, Esp3I, BseRI, BsrDI, BtsI]
    for e_i, enz in enumerate(enzymes):
        M, V, E, C = custom_kit(enz, str(enz))
        size = len(enz.ovhgseq)
        for case in range(34):
            k = rng.randrange(1, 6 if size > 2 else 3)  # only 6 usable 2-nt overhangs
            ovs = rand_overhangs(rng, size, k + 4)
            chain = ovs[: k + 1]
            cit = case % 3 == 0
            lower = case % 4 == 1
            mcls = rng.choice([M, E])
            vcls = rng.choice([V, C])
            vector = build_part(rng, vcls, chain[0], chain[-1], 0, cit, lower)
            # the insert starts at the vector's end overhang; modules are chained
            # from there up to the vector's start overhang
            stops = [chain[-1]] + [o for o in ovs[1:k]] + [chain[0]]
            mods = [
                build_part(rng, mcls, stops[i], stops[i + 1], i + 1, cit, lower)
                for i in range(len(stops) - 1)
            ]
            order = list(mods)
            rng.shuffle(order)
            label = (str(enz), case)
            S.add(("inputs", label), short([d(e.record) for e in order + [vector]]))
            S.run(("probe-vector", label), probe_entity, vector)
            for m_ in mods[:2]:
                S.run(("probe-module", label, m_.record.id), probe_entity, m_)
            scenario = case % 17
            if scenario in (0, 1, 2, 3):
                S.add(("ok", label), run_assembly(vector, order))
                S.add(("ok-again", label), run_assembly(vector, order))
                S.add(("ok-kwargs", label), run_assembly(vector, order, name="my name", id="my-id", foo=1))
            elif scenario == 4:  # missing module
                drop = rng.randrange(len(mods))
                rest = [m_ for i, m_ in enumerate(mods) if i != drop]
                if rest:
                    S.add(("missing", label), run_assembly(vector, rest))
                S.add(("missing-none", label), attempt(lambda: vector.assemble()))
            elif scenario == 5:  # duplicate start overhang
                twin = build_part(rng, mcls, stops[0], ovs[k + 1], 77, cit, lower)
                S.add(("dup-start", label), run_assembly(vector, order + [twin]))
                S.add(("dup-start-first", label), run_assembly(vector, [twin] + order))
            elif scenario == 6:  # reverse complemented overhangs
                rc = str(Seq(stops[0]).reverse_complement())
                twin = build_part(rng, mcls, rc, ovs[k + 2], 78, cit, lower)
                S.add(("dup-rc", label), run_assembly(vector, order + [twin]))
                S.add(("dup-rc-first", label), run_assembly(vector, [twin] + order))
            elif scenario == 7:  # unused modules
                extra1 = build_part(rng, mcls, ovs[k + 1], ovs[k + 2], 80, cit, lower)
                extra2 = build_part(rng, mcls, ovs[k + 2], ovs[k + 3], 81, cit, lower)
                S.add(("unused", label), run_assembly(vector, [extra2] + order + [extra1]))

                def as_error():
                    with warnings.catch_warnings():
                        warnings.simplefilter("error")
                        return vector.assemble(*([extra1] + order))

                S.add(("unused-error", label), attempt(as_error))
                S.add(("unused-after", label), short([d(e.record) for e in order + [vector, extra1]]))
            elif scenario == 8:  # vector with identical overhangs
                bad = build_part(rng, vcls, chain[0], chain[0], 90, cit, lower)
                S.add(("bad-vector", label), run_assembly(bad, order))
                mixed = build_part(rng, vcls, chain[0].lower(), chain[0].upper(), 91, cit)
                S.add(("bad-vector-case", label), run_assembly(mixed, order))
            elif scenario == 9:  # invalid module / vector sequences
                junk = type(order[0])(CircularRecord(Seq(rand_dna(rng, 40, "AT")), id="junk"))
                S.add(("invalid-module", label), run_assembly(vector, order + [junk]))
                junkv = type(vector)(CircularRecord(Seq(rand_dna(rng, 40, "AT")), id="junkv"))
                S.add(("invalid-vector", label), run_assembly(junkv, order))
                S.run(("invalid-probe", label), probe_entity, junk)
                S.run(("invalid-probe-v", label), probe_entity, junkv)
            elif scenario == 10:  # illegal sites
                ill = build_part(rng, mcls, stops[0], stops[1], 95, cit, lower, illegal=True)
                S.add(("illegal-module", label), run_assembly(vector, [ill] + order[1:]))
                S.run(("illegal-probe", label), probe_entity, ill)
                illv = build_part(rng, vcls, chain[0], chain[-1], 96, cit, lower, illegal=True)
                S.add(("illegal-vector", label), run_assembly(illv, order))
                S.run(("illegal-probe-v", label), probe_entity, illv)
            elif scenario == 11:  # mixed case overhangs
                lows = [
                    build_part(rng, mcls, rand_case(rng, stops[i], 0.6), rand_case(rng, stops[i + 1], 0.6), i + 1, cit, True)
                    for i in range(len(stops) - 1)
                ]
                S.add(("mixed-case", label), run_assembly(vector, lows))
            elif scenario == 12:  # same module twice / same record in two modules
                S.add(("twice", label), run_assembly(vector, order + [order[0]]))
                clone = type(order[0])(order[0].record)
                S.add(("same-record", label), run_assembly(vector, order + [clone]))
            elif scenario == 13:  # broken citations
                t_i = rng.randrange(len(order) + 1)
                for cname, cits in [
                    ("invalid", ["[1]", "nope"]),
                    ("range", ["[12]"]),
                    ("empty", ["[]"]),
                    ("zero", ["[0]"]),
                    ("none", []),
                    ("text", ["[1] and more"]),
                ]:
                    fresh = copy.deepcopy(order + [vector])
                    feat = SeqFeature(FeatureLocation(0, 3), type="misc_feature", qualifiers={"citation": cits})
                    fresh[t_i].record.features.insert(rng.randrange(2), feat)
                    S.add(("citation-" + cname, label), run_assembly(fresh[-1], fresh[:-1]))
                    S.add(("citation-again-" + cname, label), run_assembly(fresh[-1], fresh[:-1]))
            elif scenario == 14:  # linear / plain records
                plain = SeqRecord(order[0].record.seq, id="plain", annotations={"topology": "linear"})
                S.add(("plain-module", label), run_assembly(vector, [type(order[0])(plain)] + order[1:]))
                plainv = SeqRecord(vector.record.seq, id="plainv")
                S.add(("plain-vector", label), run_assembly(type(vector)(plainv), order))
            elif scenario == 15:  # palindromic overhang / single module
                if size % 2 == 0 and size:
                    half = rand_dna(rng, size // 2)
                    pal = half + str(Seq(half).reverse_complement())
                    m1 = build_part(rng, mcls, chain[-1], pal, 1, cit, lower)
                    m2 = build_part(rng, mcls, pal, chain[0], 2, cit, lower)
                    S.add(("palindrome", label), run_assembly(vector, [m1, m2]))
                single = build_part(rng, mcls, chain[-1], chain[0], 1, cit, lower)
                S.add(("single", label), run_assembly(vector, [single]))
                S.add(("single+rest", label), run_assembly(vector, [single] + order))
            else:  # modules given as other iterables / wrong types
                S.add(("ok16", label), run_assembly(vector, tuple(order)))
                S.add(("not-module", label), attempt(lambda: vector.assemble(order[0].record)))
                S.add(("vector-as-module", label), run_assembly(vector, order + [vector]))
                S.add(("none-module", label), attempt(lambda: vector.assemble(None)))
    return S.done()


def section_assembly_registry():
    S = Section("assembly-reg")
    rng = random.Random(6006)
    for rname, factory, module in REGISTRIES:
        registry = factory()
        keys = sorted(registry)
        vectors_ = [k for k in keys if isinstance(registry[k].entity, AbstractVector)]
        modules_ = [k for k in keys if isinstance(registry[k].entity, AbstractModule)]
        by_start = {}
        for k in modules_:
            ent = registry[k].entity
            try:
                by_start.setdefault(str(ent.overhang_start()).upper(), []).append(k)
            except errors.InvalidSequence:
                pass
        # guided walks: mostly successful assemblies
        for case in range(40 if vectors_ else 0):
            vk = rng.choice(vectors_)
            vector = registry[vk].entity
            try:
                nxt = str(vector.overhang_end()).upper()
                stop = str(vector.overhang_start()).upper()
            except errors.InvalidSequence:
                continue
            picked = []
            for _ in range(10):
                if nxt == stop and picked:
                    break
                cands = by_start.get(nxt)
                if not cands:
                    break
                mk = rng.choice(cands)
                picked.append(mk)
                nxt = str(registry[mk].entity.overhang_end()).upper()
            if not picked:
                continue
            if case % 5 == 4 and len(picked) > 1:
                picked.pop(rng.randrange(len(picked)))  # force a missing module
            if case % 7 == 6 and modules_:
                picked.append(rng.choice(modules_))  # duplicate or unused
            rng.shuffle(picked)
            mods = [registry[k].entity for k in picked]
            S.add(("guided", rname, case, vk, picked), run_assembly(vector, mods))
        # random draws: mostly failures
        for case in range(40 if vectors_ and modules_ else 0):
            vk = rng.choice(vectors_)
            picked = rng.sample(modules_, min(len(modules_), rng.randrange(1, 6)))
            mods = [registry[k].entity for k in picked]
            S.add(("random", rname, case, vk, picked), run_assembly(registry[vk].entity, mods))
    # reference cases shipped with the test-suite
    from tests._utils import AssemblyTestCase

    loader = AssemblyTestCase("load_data")
    try:
        result, vector, modules = loader.load_data("ytk_integration_vector")
    except Exception as e:  # pragma: no cover
        S.add("ytk-case-skipped", type(e).__name__)
    else:
        mods = [
            ytk.YTKPart1(modules["pYTK008.gb"]),
            ytk.YTKPart234r(modules["pYTK047.gb"]),
            ytk.YTKPart5(modules["pYTK073.gb"]),
            ytk.YTKPart6(modules["pYTK074.gb"]),
            ytk.YTKPart7(modules["pYTK086.gb"]),
            ytk.YTKPart8b(modules["pYTK092.gb"]),
        ]
        S.add("ytk-integration", run_assembly(ytk.YTKPart8a(vector), mods))
        S.add("ytk-integration-rev", run_assembly(ytk.YTKPart8a(vector), mods[::-1]))
        S.add("ytk-integration-missing", run_assembly(ytk.YTKPart8a(vector), mods[1:]))
    creg = CIDARRegistry()
    for vk, mks in [
        ("DVA_AE", ("J23102_AB", "BCD2_BC", "E1010m_CD", "B0015_DE")),
        ("DVK_AE", ("J23102_AB", "BCD2_BC", "E0040m_CD", "B0015_DE")),
        ("DVK_EF", ("J23102_EB", "BCD2_BC", "E0040m_CD", "B0015_DF")),
        ("DVA_AF", ("pJ02B2Rm_AE", "pJ02B2Gm_EF")),
    ]:
        S.add(("cidar", vk), run_assembly(creg[vk].entity, [creg[k].entity for k in mks]))
    return S.done()


# --------------------------------------------------------------------------
# Section 6: errors and helpers
# --------------------------------------------------------------------------


class FakeEntity(object):
    def __init__(self, id_):
        self.record = SeqRecord(Seq("A"), id=id_)


def section_misc():
    S = Section("misc")
    rec = SeqRecord(Seq("ACGT"), id="some")
    details = [None, "some details", "", "with {} braces", "with {0} index", "with {x}", 42, ["l"], b"bytes"]
    for det in details:
        tag = repr(det)
        S.run(("InvalidSequence", tag), lambda: errors.InvalidSequence(rec, details=det))
        S.run(("InvalidSequence-seq", tag), lambda: errors.InvalidSequence(Seq("AC{}GT"), ValueError("x"), det))
        S.run(("InvalidSequence-pos", tag), lambda: errors.InvalidSequence("seq", None, det))
        S.run(("IllegalSite", tag), lambda: errors.IllegalSite(Seq("ACGT"), details=det))
        S.run(("DuplicateModules", tag), lambda: errors.DuplicateModules(FakeEntity("a"), FakeEntity("b"), details=det))
        S.run(("DuplicateModules0", tag), lambda: errors.DuplicateModules(details=det, other=1))
        S.run(("MissingModule", tag), lambda: errors.MissingModule(Seq("ACGT"), details=det))
        S.run(("MissingModule-str", tag), lambda: errors.MissingModule("AC{}", details=det, other=2))
        S.run(("UnusedModules", tag), lambda: errors.UnusedModules(FakeEntity("a"), FakeEntity("b{}"), details=det))
        S.run(("UnusedModules0", tag), lambda: errors.UnusedModules(details=det, other=3))
    S.run("InvalidSequence-min", lambda: errors.InvalidSequence("x"))
    S.run("InvalidSequence-none", lambda: errors.InvalidSequence())
    S.run("MissingModule-none", lambda: errors.MissingModule())
    S.run("DuplicateModules-bad", lambda: errors.DuplicateModules(1, 2))
    for name in sorted(vars(errors)):
        obj = getattr(errors, name)
        if isinstance(obj, type) and issubclass(obj, BaseException):
            S.add(("error-class", name), [[c.__name__ for c in obj.__mro__], obj.__doc__, obj.__module__])
    S.add("version", [moclo.__version__, moclo.__author__])
    for kname, module in KIT_MODULES:
        S.add(("kit-version", kname), [module.__version__, module.__author__])

    # helpers
    class WithProp(object):
        @moclo_utils.classproperty
        def name(cls):
            return cls.__name__.lower()

    class Child(WithProp):
        pass

    S.run("classproperty", lambda: [WithProp.name, Child.name, WithProp().name, Child().name])
    for cls in (AbstractModule, AbstractVector, AbstractPart, ytk.YTKPart, ytk.YTKPart1, ytk.YTKEntry,
                cidar.CIDARPart, cidar.CIDARPromoter, EmbeddedRegistry, YTKRegistry, AbstractRegistry,
                CombinedRegistry, int, object):
        S.run(("isabstract", cls.__name__), moclo_utils.isabstract, cls)

    @moclo_utils.catch_warnings("ignore")
    def quiet(x, y=2):
        """doc"""
        warnings.warn("I'm warning you!")
        return x + y

    @moclo_utils.catch_warnings("error", category=UserWarning)
    def loud(x):
        warnings.warn("as error", UserWarning)
        return x

    @moclo_utils.catch_warnings("error", category=UserWarning)
    def other(x):
        warnings.warn("not an error", RuntimeWarning)
        return x

    S.run("catch-ignore", lambda: [quiet(1), quiet(1, y=5), quiet.__name__, quiet.__doc__])
    S.run("catch-error", loud, 1)
    S.run("catch-other", other, 1)
    S.run("assemble-wrapped", lambda: [AbstractVector.assemble.__name__, bool(AbstractVector.assemble.__doc__)])
    S.run("publics", lambda: [sorted(core.__all__), sorted(n for n in vars(regbase) if not n.startswith("_"))[:0]])
    for cls in (CircularRecord, DNARegex, SeqMatch, AbstractModule, AbstractVector, AbstractPart,
                Item, CombinedRegistry, EmbeddedRegistry, FilesystemRegistry, ELabFTWRegistry):
        names = sorted(n for n in dir(cls) if not n.startswith("_"))
        S.add(("public-api", cls.__name__), names)
    S.add("item-fields", [list(Item._fields), Item.__doc__])
    return S.done()


def main():
    sections = [
        ("misc", section_misc),
        ("record", section_record),
        ("regex", section_regex),
        ("structures", section_structures),
        ("kits-gen", section_kits_generated),
        ("kits-reg", section_kits_registry),
        ("registries", section_registries),
        ("assembly-gen", section_assembly_generated),
        ("assembly-reg", section_assembly_registry),
    ]
    only = os.environ.get("EQUIV_SECTIONS")  # debugging aid: run a subset
    if only:
        sections = [(n, f) for n, f in sections if n in only.split(",")]
    digests = [fn() for _, fn in sections]
    final = hashlib.sha256("".join(digests).encode("ascii")).hexdigest()
    print("DIGEST " + final)


if __name__ == "__main__":
    main()
