"""Differential test for C14 (circular records: flip, rotate, wrap, and their users).

Run as:  cd /tmp/agents7/C14 && /venv/bin/python pairs_out/C14_r1/equiv.py
Prints one digest; it must be identical before and after the pull request.
"""
import hashlib
import random
import re
import sys
import warnings

sys.path.insert(0, "/tmp/agents7/C14")
import tests  # noqa: E402,F401

from Bio.Seq import Seq, MutableSeq  # noqa: E402
from Bio.SeqRecord import SeqRecord  # noqa: E402
from Bio.SeqFeature import (  # noqa: E402
    SeqFeature,
    FeatureLocation,
    CompoundLocation,
    BeforePosition,
    AfterPosition,
)
from Bio.Restriction import BpiI, BsaI, BsmBI  # noqa: E402

from moclo.record import CircularRecord  # noqa: E402
from moclo.regex import DNARegex  # noqa: E402
from moclo.core._utils import add_as_source  # noqa: E402
from moclo.core.vectors import AbstractVector  # noqa: E402
from moclo.core.modules import AbstractModule  # noqa: E402

LINES = []


def show_record(rec):
    if not isinstance(rec, SeqRecord):
        return repr(rec)
    feats = [
        (
            repr(f.location),
            f.type,
            f.id,
            sorted((k, repr(v)) for k, v in f.qualifiers.items()),
        )
        for f in rec.features
    ]
    return repr(
        (
            type(rec).__name__,
            str(rec.seq),
            type(rec.seq).__name__,
            rec.id,
            rec.name,
            rec.description,
            rec.dbxrefs,
            feats,
            sorted((k, repr(v)) for k, v in rec.annotations.items()),
            sorted((k, repr(v)) for k, v in rec.letter_annotations.items()),
        )
    )


def run(label, func, *inputs):
    """Record the result / exception / warnings of func and the state of inputs."""
    with warnings.catch_warnings(record=True) as caught:
        warnings.simplefilter("always")
        try:
            result = func()
            if isinstance(result, (list, tuple)):
                out = "[" + ", ".join(show_record(r) for r in result) + "]"
            else:
                out = show_record(result)
        except Exception as e:  # noqa
            out = "EXC %s: %s" % (type(e).__name__, re.sub(r" at 0x[0-9a-f]+", "", str(e)))
    warns = [(w.category.__name__, str(w.message)) for w in caught]
    LINES.append("%s => %s | warnings=%r | inputs=%s" % (
        label, out, warns, [show_record(i) for i in inputs]))


def random_record(rng, n, cls=CircularRecord, mixed=False, mutable=False):
    alphabet = "ACGTacgtN" if mixed else "ACGT"
    text = "".join(rng.choice(alphabet) for _ in range(n))
    feats = []
    for i in range(rng.randrange(0, 6)):
        kind = rng.randrange(6)
        strand = rng.choice([1, -1, None, 0])
        a = rng.randrange(0, n)
        b = rng.randrange(a, n + 1)
        if kind == 0:
            loc = FeatureLocation(a, b, strand)
        elif kind == 1:
            loc = FeatureLocation(a, b + rng.randrange(0, n), strand)  # past the end
        elif kind == 2:
            c = rng.randrange(0, n)
            d = rng.randrange(c, n + 1)
            op = rng.choice(["join", "order"])
            loc = CompoundLocation(
                [FeatureLocation(a, b, strand), FeatureLocation(c, d, strand)], op
            )
        elif kind == 3:
            loc = FeatureLocation(0, n, strand)
        elif kind == 4:
            loc = FeatureLocation(BeforePosition(a), AfterPosition(b), strand)
        else:
            loc = FeatureLocation(a, b, strand, ref="X", ref_db=rng.choice([None, "db"]))
        type_ = rng.choice(["source", "CDS", "misc_feature"])
        quals = {"label": ["f%d" % i]}
        if rng.random() < 0.3:
            quals["citation"] = ["[1]"]
        feats.append(SeqFeature(loc, type=type_, id="id%d" % i, qualifiers=quals))
    if rng.random() < 0.05:
        feats.append(SeqFeature(None, type="misc_feature", qualifiers={"label": ["nowhere"]}))
    ann = rng.choice(
        [
            None,
            {},
            {"topology": "circular"},
            {"topology": "Circular", "molecule_type": "DNA", "references": ["ref-a"]},
        ]
    )
    letan = {"phred_quality": [rng.randrange(40) for _ in range(n)]} if rng.random() < 0.5 else None
    seq = MutableSeq(text) if mutable else Seq(text)
    return cls(
        seq,
        id="r%d" % n,
        name="name%d" % n,
        description="desc",
        dbxrefs=["db:1"] if rng.random() < 0.3 else None,
        features=feats,
        annotations=ann,
        letter_annotations=letan,
    )


def record_checks(rng):
    for case in range(160):
        n = rng.choice([1, 2, 5, 8, 13, 30])
        rec = random_record(rng, n, mixed=case % 3 == 0, mutable=case % 17 == 0)
        tag = "rec%d" % case
        run(tag + ".rc", lambda: rec.reverse_complement(), rec)
        run(tag + ".rc.rc", lambda: rec.reverse_complement().reverse_complement(), rec)
        run(
            tag + ".rc(all)",
            lambda: rec.reverse_complement(True, True, True, True, True, True, True),
            rec,
        )
        run(
            tag + ".rc(kw)",
            lambda: rec.reverse_complement(
                id="new", name=False, description="d", features=False,
                annotations={"topology": "circular"}, letter_annotations=False, dbxrefs=["x"],
            ),
            rec,
        )
        run(tag + ".rc(feature list)", lambda: rec.reverse_complement(features=list(rec.features)), rec)
        for k in sorted({0, 1, -1, n, n + 1, -n - 3, 2 * n + 1, rng.randrange(-40, 40)}):
            run(tag + ">>%d" % k, lambda: rec >> k, rec)
            run(tag + "<<%d" % k, lambda: rec << k, rec)
            run(tag + ">>%d.rc" % k, lambda: (rec >> k).reverse_complement(), rec)
            run(tag + ".rc<<%d" % k, lambda: rec.reverse_complement() << k, rec)
            run(tag + ">>%d>>3<<1" % k, lambda: ((rec >> k) >> 3) << 1, rec)
        run(tag + ">>0 is self", lambda: (rec >> 0) is rec and (rec << n) is rec, rec)
        run(tag + "[2:]", lambda: rec[2:], rec)
        run(tag + "[0]", lambda: rec[0], rec)
        run(tag + " in", lambda: (str(rec.seq)[-1:] + str(rec.seq)[:1]) in rec, rec)
        run(tag + " +", lambda: rec + rec, rec)
        run(tag + " radd", lambda: "A" + rec, rec)
        run(tag + " copy", lambda: CircularRecord(rec), rec)
        run(tag + " source", lambda: add_as_source(rec, rec[1:]), rec)
        run(tag + " source loc", lambda: add_as_source(rec, rec[:3], FeatureLocation(0, 2)), rec)
        run(tag + ">>'a'", lambda: rec >> "a", rec)

    run("empty>>", lambda: CircularRecord(Seq("")) >> 1)
    run("empty.rc", lambda: CircularRecord(Seq("")).reverse_complement())
    run("linear", lambda: CircularRecord(SeqRecord(Seq("ATGC"), annotations={"topology": "linear"})))
    run("linear2", lambda: CircularRecord(Seq("ATGC"), annotations={"topology": "LINEAR"}))
    run("from plain", lambda: CircularRecord(random_record(rng, 9, cls=SeqRecord), "ignored"))
    run("protein", lambda: CircularRecord(Seq("MKV"), annotations={"molecule_type": "protein"}).reverse_complement())
    run("str seq", lambda: CircularRecord("ATGC"))

    class Plasmid(CircularRecord):
        pass

    p = Plasmid(random_record(rng, 11))
    run("sub.rc", lambda: p.reverse_complement(), p)
    run("sub>>", lambda: p >> 4, p)
    run("sub<<", lambda: p << 4, p)


def site(cutter):
    return {BpiI: ("GAAGAC", 2), BsaI: ("GGTCTC", 1), BsmBI: ("CGTCTC", 1)}[cutter]


def revcomp(s):
    return str(Seq(s).reverse_complement())


def assembly_checks(rng):
    def rand(n, avoid):
        while True:
            s = "".join(rng.choice("ACGT") for _ in range(n))
            if all(a not in s + s and revcomp(a) not in s + s for a in avoid):
                return s

    for case in range(60):
        cutter = rng.choice([BpiI, BsaI, BsmBI])
        rs, gap = site(cutter)
        sp = "A" * gap

        class Vec(AbstractVector):
            pass

        class Mod(AbstractModule):
            pass

        Vec.cutter = Mod.cutter = cutter
        ovh = ["ATGC", "CGTA", "GGCT", "TTAC"]
        if case % 7 == 0:
            ovh[2] = ovh[0]
        avoid = [rs]
        # vector: keeps ovh[-1] ... ovh[0], drops the placeholder
        nmod = rng.choice([1, 2, 3])
        vseq = (
            rand(9, avoid) + ovh[0] + sp + revcomp(rs) + rand(7, avoid)
            + rs + sp + ovh[nmod] + rand(8, avoid)
        )
        mods = []
        for i in range(nmod):
            mseq = (
                rs + sp + ovh[i] + rand(rng.randrange(4, 12), avoid) + ovh[i + 1]
                + sp + revcomp(rs) + rand(6, avoid)
            )
            mods.append(mseq)

        def make(text, name, cls=CircularRecord):
            k = rng.randrange(len(text))
            text = text[-k:] + text[:-k] if k else text
            if case % 4 == 1:
                text = "".join(c.lower() if rng.random() < 0.4 else c for c in text)
            n = len(text)
            a = rng.randrange(0, n - 2)
            feats = [
                SeqFeature(
                    FeatureLocation(a, rng.randrange(a + 1, n), rng.choice([1, -1])),
                    type="CDS",
                    qualifiers={"label": [name], "citation": ["[1]"]},
                ),
                SeqFeature(FeatureLocation(0, n, 1), type="source", qualifiers={"label": ["src"]}),
            ]
            ann = {"topology": "circular", "references": ["ref-%s" % name]}
            return cls(Seq(text), id=name, name=name, features=feats, annotations=ann)

        plain = case % 9 == 4
        vrec = make(vseq, "vector")
        mrecs = [make(m, "mod%d" % i, SeqRecord if plain and i == 0 else CircularRecord) for i, m in enumerate(mods)]
        if case % 11 == 5 and len(mrecs) > 1:
            mrecs = mrecs[:-1]
        vec = Vec(vrec)
        ms = [Mod(r) for r in mrecs]
        tag = "asm%d" % case
        run(tag + ".valid", lambda: [vec.is_valid()] + [m.is_valid() for m in ms], vrec, *mrecs)
        run(tag + ".vector.target", lambda: vec.target_sequence(), vrec)
        run(tag + ".vector.placeholder", lambda: vec.placeholder_sequence(), vrec)
        for i, m in enumerate(ms):
            run(tag + ".mod%d.target" % i, lambda: m.target_sequence(), mrecs[i])
            run(tag + ".mod%d.ovh" % i, lambda: (str(m.overhang_start()), str(m.overhang_end())), mrecs[i])
        run(tag + ".assemble", lambda: vec.assemble(*ms), vrec, *mrecs)
        run(
            tag + ".assemble.rc",
            lambda: vec.assemble(*ms, id="x", name="y").reverse_complement(annotations=True),
            vrec,
            *mrecs
        )
        run(tag + ".search", lambda: DNARegex(rs + "NN").search(vrec).span(), vrec)


def main():
    rng = random.Random(1414)
    record_checks(rng)
    assembly_checks(rng)
    digest = hashlib.sha256("\n".join(LINES).encode()).hexdigest()
    if "--dump" in sys.argv:
        print("\n".join(LINES))
    excs = sum(1 for line in LINES if "=> EXC" in line)
    print("%d results (%d exceptions) digest %s" % (len(LINES), excs, digest))


if __name__ == "__main__":
    main()
