# coding: utf-8
"""Differential test for the C06 refactorings.

Run as ``cd /tmp/agents6/C06 && /venv/bin/python pairs_out/C06_q2/equiv.py``.
Exercises the typing code (structure patterns, compiled pattern per class,
matching, overhangs, targets, characterization, cutter checks, assembly) on a
few hundred generated inputs and prints a digest of every result, exception,
warning and of the state of the inputs afterwards.  Set ``EQUIV_DUMP=path`` to
also write the individual lines.
"""
import sys

sys.path.insert(0, "/tmp/agents6/C06")
import tests  # noqa: E402,F401  (splices the kits into the moclo namespace)

import gc  # noqa: E402
import hashlib  # noqa: E402
import os  # noqa: E402
import random  # noqa: E402
import re  # noqa: E402
import warnings  # noqa: E402

from Bio import Restriction  # noqa: E402
from Bio.Seq import Seq  # noqa: E402
from Bio.SeqFeature import SeqFeature, FeatureLocation  # noqa: E402
from Bio.SeqRecord import SeqRecord  # noqa: E402

from moclo import errors  # noqa: E402,F401
from moclo._utils import isabstract  # noqa: E402
from moclo.core import _utils as core_utils  # noqa: E402
from moclo.core._structured import StructuredRecord  # noqa: E402
from moclo.core.modules import AbstractModule, Entry, Product, Cassette  # noqa: E402
from moclo.core.parts import AbstractPart  # noqa: E402
from moclo.core.vectors import AbstractVector, EntryVector, CassetteVector  # noqa: E402
from moclo.kits import cidar, ecoflex, moclo as moclo_kit, plant, ytk  # noqa: E402,F401
from moclo.record import CircularRecord  # noqa: E402
from moclo.regex import DNARegex  # noqa: E402

# Classes rebuilt by a decorator (six.add_metaclass) leave an orphan behind
# until the garbage collector runs: do not let its timing show in the results.
gc.collect()

LINES = []


def emit(*fields):
    line = " | ".join(str(f) for f in fields)
    line = re.sub(r" at 0x[0-9a-fA-F]+", " at 0x?", line)  # object addresses
    LINES.append(line.replace("\n", "\\n"))


def outcome(func, *args, **kwargs):
    """Describe the result of a call: value, or exception, plus warnings."""
    with warnings.catch_warnings(record=True) as caught:
        warnings.simplefilter("always")
        try:
            value = describe(func(*args, **kwargs))
        except BaseException as exc:  # noqa: B902
            value = "!{}: {}".format(type(exc).__name__, exc)
    warned = ["{}: {}".format(w.category.__name__, w.message) for w in caught]
    return "{} {}".format(value, warned) if warned else value


def describe(value):
    if isinstance(value, SeqRecord):
        feats = sorted(
            "{}@{}{}".format(f.type, f.location, sorted(f.qualifiers.items()))
            for f in value.features
        )
        return "{}<{} id={} name={} ann={} feats={}>".format(
            type(value).__name__,
            str(value.seq),
            value.id,
            value.name,
            sorted((k, str(v)) for k, v in value.annotations.items()),
            feats,
        )
    if isinstance(value, Seq):
        return "Seq<{}>".format(str(value))
    if isinstance(value, StructuredRecord):
        return "{}({})".format(type(value).__name__, value.record.id)
    return repr(value)


# --- the classes -------------------------------------------------------------


def all_subclasses(cls, seen=None):
    seen = [] if seen is None else seen
    for sub in cls.__subclasses__():
        if sub not in seen:
            seen.append(sub)
            all_subclasses(sub, seen)
    return seen


KIT_CLASSES = sorted(
    (c for c in all_subclasses(StructuredRecord) if c.__module__.startswith("moclo.")),
    key=lambda c: (c.__module__, c.__name__),
)


def make(name, bases, **namespace):
    return type(str(name), bases, namespace)


R = Restriction
DYNAMIC = [
    make("FokEntry", (Entry,), cutter=R.FokI),
    make("StsEntry", (Entry,), cutter=R.StsI),
    make("FokVector", (EntryVector,), cutter=R.FokI),
    make("StsVector", (EntryVector,), cutter=R.StsI),
    make("SapProduct", (Product,), cutter=R.SapI),
    make("SapVector", (CassetteVector,), cutter=R.SapI),
    make("BpiEntry", (Entry,), cutter=R.BpiI),
    make("BbsEntry", (Entry,), cutter=R.BbsI),
    make("Eco31Entry", (Entry,), cutter=R.Eco31I),
    make("BtsCassette", (Cassette,), cutter=R.BtsI),  # 3' overhang
    make("BluntEntry", (Entry,), cutter=R.MlyI),  # blunt
    make("NoCutterEntry", (Entry,)),
    make("LonePart", (AbstractPart,), cutter=R.BsaI, signature=("AAAA", "CCCC")),
    make("UnsignedPart", (ytk.YTKPart, ytk.YTKEntry)),
    make("OddSignature", (ytk.YTKPart, ytk.YTKEntry), signature=("AACG",)),
    make("MyPart1", (ytk.YTKPart1,), signature=("GGCT", "AACG")),
    make("MyPart1", (ytk.YTKPart1,), signature=("CCCT", "TTTT")),
    make("Sub234", (ytk.YTKPart234,)),
    make("Sub234r", (ytk.YTKPart234r,), signature=("AACG", "TATG")),
    make("YTKPart678m", (ytk.YTKPart, ytk.YTKEntry), signature=("TACA", "CCCT")),
    make("YTKEntryBsmBI", (ytk.YTKEntry,), cutter=R.BsmBI),
    make("FokPart", (AbstractPart, Entry), cutter=R.FokI, signature=("ATGC", "TTCA")),
    make("StsPart", (AbstractPart, Entry), cutter=R.StsI, signature=("ATGC", "TTCA")),
    make("SapPartV", (AbstractPart, EntryVector), cutter=R.SapI, signature=("ATG", "TAA")),
    make("BtsPart", (AbstractPart, Entry), cutter=R.BtsI, signature=("AT", "GC")),
    make("BothKinds", (AbstractPart, Entry, EntryVector), cutter=R.BsaI, signature=("ATGC", "TTCA")),
]
CLASSES = KIT_CLASSES + DYNAMIC


def label(cls):
    return "{}#{}".format(cls.__name__, CLASSES.index(cls))


# --- generated records ----------------------------------------------------------

IUPAC = {
    "A": "A", "C": "C", "G": "G", "T": "T",
    "B": "CGT", "D": "AGT", "H": "ACT", "K": "GT", "M": "AC", "N": "ACGT",
    "R": "AG", "S": "CG", "V": "ACG", "W": "AT", "Y": "CT",
}  # fmt: skip


def instantiate(pattern, rng, repeat=(0, 60)):
    """Write a sequence that follows a DNA pattern."""
    out, i = [], 0
    while i < len(pattern):
        letter = pattern[i]
        i += 1
        if letter in "()":
            continue
        choices = IUPAC[letter.upper()]
        if i < len(pattern) and pattern[i] == "*":
            i += 1
            if i < len(pattern) and pattern[i] == "?":
                i += 1
            out.extend(rng.choice(choices) for _ in range(rng.randint(*repeat)))
        else:
            out.append(rng.choice(choices))
    return "".join(out)


def random_dna(rng, size):
    return "".join(rng.choice("ACGT") for _ in range(size))


def recase(seq, rng, how):
    if how == "upper":
        return seq.upper()
    if how == "lower":
        return seq.lower()
    return "".join(c.lower() if rng.random() < 0.5 else c.upper() for c in seq)


def build_record(seq, rng, ident, kind):
    """Wrap the sequence in one of the record flavours the library accepts."""
    if kind == "circular":
        record = CircularRecord(Seq(seq), id=ident, name=ident)
    else:
        record = SeqRecord(Seq(seq), id=ident, name=ident)
        if kind == "plain":
            pass
        elif kind == "linear":
            record.annotations["topology"] = "linear"
        elif kind == "LINEAR":
            record.annotations["topology"] = "Linear"
        elif kind == "declared":
            record.annotations["topology"] = "Circular"
    size = len(seq)
    if size >= 12:
        for n in range(3):
            start = rng.randrange(0, size - 4)
            end = rng.randrange(start + 1, size)
            quals = {"label": ["f{}".format(n)]}
            if n == 0:
                quals["citation"] = ["[1]"]
            record.features.append(
                SeqFeature(FeatureLocation(start, end, strand=rng.choice([1, -1])), type="misc_feature", qualifiers=quals)
            )
        record.annotations["references"] = ["ref-A", "ref-B"]
    return record


def snapshot(record):
    return describe(record)


def query(cls, record):
    """Everything the typing API says about ``record`` seen as a ``cls``."""
    answers = []
    entity = None
    made = outcome(cls, record)
    answers.append(("new", made))
    try:
        with warnings.catch_warnings():
            warnings.simplefilter("ignore")
            entity = cls(record)
    except Exception:
        return answers
    for method in ("is_valid", "overhang_start", "overhang_end", "target_sequence", "placeholder_sequence", "is_valid"):
        func = getattr(entity, method, None)
        if func is not None:
            answers.append((method, outcome(func)))
    return answers


def section_structures():
    for cls in CLASSES:
        emit("structure", label(cls), outcome(cls.structure))
        emit("structure-again", label(cls), outcome(cls.structure))
        emit("isabstract", label(cls), isabstract(cls))


def usable(cls):
    try:
        cls.structure()
        cls(SeqRecord(Seq("A")))
    except Exception:
        return False
    return True


def section_typing(rng, rounds):
    sources = [c for c in CLASSES if usable(c) and c is not DYNAMIC[9] and c.__name__ != "BtsPart"]
    kinds = ["circular", "circular", "plain", "linear", "LINEAR", "declared"]
    cases = ["upper", "upper", "lower", "mixed"]
    for n in range(rounds):
        source = sources[n % len(sources)]
        core = instantiate(source.structure(), rng)
        seq = core + random_dna(rng, rng.randint(0, 80))
        if rng.random() < 0.15:
            # spoil the construct with one more recognition site
            site = source.cutter.site
            cut = rng.randrange(0, len(seq))
            seq = seq[:cut] + site + seq[cut:]
        if rng.random() < 0.6:
            shift = rng.randrange(0, len(seq))
            seq = seq[shift:] + seq[:shift]
        kind = rng.choice(kinds)
        seq = recase(seq, rng, rng.choice(cases))
        record = build_record(seq, rng, "rec{}".format(n), kind)
        before = snapshot(record)
        related = [c for c in CLASSES if c is not source and (issubclass(c, source) or issubclass(source, c))]
        others = rng.sample(CLASSES, 5)
        order = [source] + related[:6] + others
        rng.shuffle(order)
        for cls in order:
            for what, answer in query(cls, record):
                emit("typing", n, kind, label(source), label(cls), what, answer)
        emit("typing-state", n, snapshot(record) == before, snapshot(record))


def section_short_records(rng):
    for seq in ["", "A", "ATG", "GGTCTC", "GGTCTCAAACGTTATGTGAGACC", "ggtctcaaacgttgctgtgagacc"]:
        for kind in ("circular", "plain", "linear"):
            record = build_record(seq, rng, "short", kind)
            for cls in (ytk.YTKEntry, ytk.YTKPart2, ytk.YTKPart234, ytk.YTKPart234r, ytk.YTKCassetteVector, DYNAMIC[0]):
                for what, answer in query(cls, record):
                    emit("short", seq, kind, label(cls), what, answer)


def section_characterize(rng, rounds):
    roots = [ytk.YTKPart, cidar.CIDARPart, ecoflex.EcoFlexPart, moclo_kit.MoCloPart, ytk.YTKPart1, AbstractPart]
    for n in range(rounds):
        root = roots[n % len(roots)]
        candidates = [c for c in root.__subclasses__() if usable(c)] or [ytk.YTKPart3]
        source = rng.choice(candidates)
        seq = instantiate(source.structure(), rng) + random_dna(rng, rng.randint(0, 50))
        if n % 7 == 6:
            seq = random_dna(rng, 120)
        shift = rng.randrange(0, len(seq))
        seq = recase(seq[shift:] + seq[:shift], rng, rng.choice(["upper", "lower", "mixed"]))
        record = build_record(seq, rng, "chr{}".format(n), rng.choice(["circular", "plain"]))
        before = snapshot(record)
        emit("characterize", n, label(root), label(source), outcome(root.characterize, record))
        emit("characterize-state", n, snapshot(record) == before)


def section_regex(rng, rounds):
    letters = "ACGTNRYSWKMBDHV"
    for n in range(rounds):
        size = rng.randint(1, 8)
        pattern = "".join(rng.choice(letters) for _ in range(size))
        if rng.random() < 0.5:
            cut = sorted(rng.sample(range(size + 1), 2))
            pattern = pattern[: cut[0]] + "(" + pattern[cut[0] : cut[1]] + ")" + pattern[cut[1] :]
        if rng.random() < 0.4:
            pattern += rng.choice(["N*", "N*?", "(N*)A", "n", "x"])
        emit("regex-new", n, pattern, outcome(lambda: DNARegex(pattern).regex.pattern))
        try:
            regex = DNARegex(pattern)
        except Exception:
            continue
        text = recase(random_dna(rng, rng.randint(0, 40)), rng, rng.choice(["upper", "lower", "mixed"]))
        subjects = [
            Seq(text),
            SeqRecord(Seq(text), id="s"),
            CircularRecord(Seq(text), id="c"),
            text,
        ]
        for subject in subjects:
            for kwargs in ({}, {"linear": False}, {"pos": rng.randint(0, 10)}, {"pos": 2, "endpos": rng.randint(0, 30), "linear": rng.random() < 0.5}):
                def run():
                    match = regex.search(subject, **kwargs)
                    if match is None:
                        return None
                    groups = range(match.match.re.groups + 1)
                    return (
                        match.start(), match.end(), match.shift,
                        [match.span(g) for g in groups],
                        [describe(match.group(g)) for g in groups],
                    )
                emit("regex", n, pattern, type(subject).__name__, text, sorted(kwargs.items()), outcome(run))


def section_cutter_check():
    cutters = [R.BsaI, R.BsmBI, R.BpiI, R.BbsI, R.SapI, R.FokI, R.StsI, R.BtsI, R.MlyI, R.EcoRV, R.EcoRI, R.SmaI, NotImplemented]
    unknown = [e for e in sorted(R.AllEnzymes, key=str) if e.is_unknown()][:3]
    for cutter in cutters + unknown + cutters:
        for name in ("Spam", "Eggs"):
            emit("cutter_check", cutter, name, outcome(core_utils.cutter_check, cutter, name))
            emit("cutter_check-kw", cutter, name, outcome(core_utils.cutter_check, cutter, name=name))


def section_assembly(rng, rounds):
    MockVector = make("MockVector", (AbstractVector,), cutter=R.BpiI)
    MockModule = make("MockModule", (AbstractModule,), cutter=R.BpiI)
    BsaVector = make("BsaVector", (AbstractVector,), cutter=R.BsaI)
    BsaModule = make("BsaModule", (AbstractModule,), cutter=R.BsaI)
    for n in range(rounds):
        vec_cls, mod_cls, site, gap = [(MockVector, MockModule, "GAAGAC", 2), (BsaVector, BsaModule, "GGTCTC", 1)][n % 2]
        rc_site = str(Seq(site).reverse_complement())
        count = rng.randint(1, 4)
        overhangs = []
        while len(overhangs) < count + 1:
            candidate = random_dna(rng, 4)
            rc = str(Seq(candidate).reverse_complement())
            if candidate not in overhangs and rc not in overhangs and candidate != rc:
                overhangs.append(candidate)

        def clean(size):
            while True:
                dna = random_dna(rng, size)
                if site not in dna and rc_site not in dna and site[:3] not in dna[-3:]:
                    return dna

        flaw = rng.choice(["none", "none", "missing", "duplicate", "unused", "same", "reverse"])
        vec_ovhg = (overhangs[0], overhangs[-1] if flaw != "same" else overhangs[0])
        vseq = clean(10) + vec_ovhg[0] + clean(gap) + rc_site + clean(12) + site + clean(gap) + vec_ovhg[1] + clean(10)
        vector_record = build_record(recase(vseq, rng, rng.choice(["upper", "lower", "mixed"])), rng, "vec{}".format(n), "circular")
        modules = []
        for k in range(count):
            up, down = overhangs[k], overhangs[k + 1]
            mseq = clean(5) + site + clean(gap) + up + clean(rng.randint(4, 30)) + down + clean(gap) + rc_site + clean(8)
            shift = rng.randrange(len(mseq))
            mseq = mseq[shift:] + mseq[:shift]
            kind = rng.choice(["circular"] * 7 + ["plain"])
            modules.append(build_record(recase(mseq, rng, rng.choice(["upper", "mixed"])), rng, "mod{}_{}".format(n, k), kind))
        if flaw == "missing" and len(modules) > 1:
            del modules[rng.randrange(len(modules))]
        elif flaw == "duplicate":
            modules.append(build_record(str(modules[0].seq), rng, "dup{}".format(n), "circular"))
        elif flaw == "unused":
            extra = clean(5) + site + clean(gap) + "AAAA" + clean(9) + "CCCC" + clean(gap) + rc_site + clean(8)
            modules.append(build_record(extra, rng, "extra{}".format(n), "circular"))
        elif flaw == "reverse":
            rc0 = str(Seq(overhangs[0]).reverse_complement())
            extra = clean(5) + site + clean(gap) + rc0 + clean(9) + "CCCC" + clean(gap) + rc_site + clean(8)
            modules.append(build_record(extra, rng, "rev{}".format(n), "circular"))
        before = [snapshot(vector_record)] + [snapshot(m) for m in modules]
        vector = vec_cls(vector_record)
        entities = [mod_cls(m) for m in modules]
        rng.shuffle(entities)
        kwargs = {} if n % 3 else {"id": "asm{}".format(n), "name": "construct"}
        emit("assembly", n, flaw, outcome(vector.assemble, *entities, **kwargs))
        after = [snapshot(vector_record)] + [snapshot(m) for m in modules]
        emit("assembly-state", n, before == after, after)


def section_class_machinery(rng):
    record = build_record(instantiate(ytk.YTKPart1.structure(), rng), rng, "mach", "circular")
    emit("class-kwargs", outcome(lambda: type(str("Flagged"), (Entry,), {}, flag=True)))
    emit("class-kwargs", outcome(lambda: type(str("Flagged"), (ytk.YTKPart, ytk.YTKEntry), {}, flag=True)))
    for cls in (Entry, AbstractPart, AbstractVector, ytk.YTKPart, ytk.YTKPart1, ytk.YTKCassetteVector, DYNAMIC[10], DYNAMIC[12]):
        emit("new-bare", label(cls) if cls in CLASSES else cls.__name__, outcome(lambda: type(cls.__new__(cls)).__name__))
        emit("new-extra", cls.__name__, outcome(lambda: cls(record, 1)))
        emit("new-kw", cls.__name__, outcome(lambda: cls(record=record)))
        emit("new-none", cls.__name__, outcome(lambda: cls()))
    for cls in (ytk.YTKPart1, ytk.YTKPart8, ytk.YTKEntry, DYNAMIC[12], DYNAMIC[-1]):
        entity = cls(record)
        emit("instance", cls.__name__, outcome(entity.is_valid), sorted(vars(entity)),
             isinstance(entity, AbstractModule), isinstance(entity, AbstractVector),
             isinstance(entity, AbstractPart), isinstance(entity, StructuredRecord),
             entity.record is record, entity.seq is record.seq)
        emit("class-attrs", cls.__name__, cls.cutter, getattr(cls, "signature", None), getattr(cls, "_level", "-"))


def main():
    rng = random.Random(60606)
    section_structures()
    section_class_machinery(rng)
    section_cutter_check()
    section_typing(rng, 260)
    section_short_records(rng)
    section_characterize(rng, 60)
    section_regex(rng, 120)
    section_assembly(rng, 40)
    section_structures()
    digest = hashlib.sha256("\n".join(LINES).encode("utf-8")).hexdigest()
    dump = os.environ.get("EQUIV_DUMP")
    if dump:
        with open(dump, "w") as handle:
            handle.write("\n".join(LINES) + "\n")
    print("{} observations, digest {}".format(len(LINES), digest))


if __name__ == "__main__":
    main()
