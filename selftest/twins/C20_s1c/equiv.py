# coding: utf-8
"""Differential test of the registry code (property C20).

Prints a digest of everything observable through the existing API on a few
hundred generated inputs; the digest must not change with a refactoring.
Set EQUIV_DUMP=<file> to also dump the digested lines.
"""
import sys

sys.path.insert(0, "/tmp/agents8/C20")
import tests  # noqa: E402

import collections.abc  # noqa: E402
import hashlib  # noqa: E402
import io  # noqa: E402
import os  # noqa: E402
import random  # noqa: E402
import re  # noqa: E402
import shutil  # noqa: E402
import tempfile  # noqa: E402
import warnings  # noqa: E402

import fs  # noqa: E402
from Bio.Seq import Seq  # noqa: E402
from Bio.SeqFeature import SeqFeature, FeatureLocation  # noqa: E402
from Bio.SeqIO import write  # noqa: E402
from Bio.SeqRecord import SeqRecord  # noqa: E402

from moclo.core import AbstractModule, AbstractPart, AbstractVector  # noqa: E402
from moclo.kits import cidar, ecoflex, moclo as moclo_kit, ytk  # noqa: E402
from moclo.record import CircularRecord  # noqa: E402
from moclo.registry import base  # noqa: E402
from moclo.registry import _utils as reg_utils  # noqa: E402
from moclo.registry.cidar import CIDARRegistry  # noqa: E402
from moclo.registry.ecoflex import EcoFlexRegistry  # noqa: E402
from moclo.registry.elabftw import ELabFTWRegistry  # noqa: E402
from moclo.registry.plant import PlantRegistry  # noqa: E402
from moclo.registry.ytk import PTKRegistry, YTKRegistry  # noqa: E402

LINES = []
ROOT = os.path.dirname(os.path.dirname(os.path.abspath(tests.__file__)))


def emit(*args):
    line = " | ".join(a if isinstance(a, str) else repr(a) for a in args)
    line = line.replace(ROOT, "<worktree>")
    LINES.append(re.sub(r" at 0x[0-9a-fA-F]+", " at 0x?", line))


def sha(text):
    return hashlib.sha256(str(text).encode("utf-8")).hexdigest()[:16]


def call(label, fn, show=repr):
    """Run ``fn``; digest its result or exception, and its warnings."""
    with warnings.catch_warnings(record=True) as caught:
        warnings.simplefilter("always")
        try:
            result = fn()
        except BaseException as err:  # noqa: B902
            emit(label, "raised", type(err).__name__, str(err))
            result = err
        else:
            emit(label, "gave", show(result))
    for w in caught:
        if issubclass(w.category, ResourceWarning):
            continue  # emitted whenever the garbage collector sees fit
        emit(label, "warned", w.category.__name__, str(w.message))
    return result


def show_item(item):
    if not isinstance(item, base.Item):
        return "not an item: {!r}".format(item)
    rec = item.entity.record
    return repr(
        (
            item.id,
            item.name,
            item.resistance,
            type(item.entity).__name__,
            type(rec).__name__,
            rec.id,
            rec.name,
            rec.description,
            len(rec),
            sha(rec.seq),
            len(rec.features),
            sha(rec.annotations.get("comment")),
            item.record is rec,
            tuple(item) == (item.id, item.name, item.entity, item.resistance),
        )
    )


# --- 1. the embedded registries -----------------------------------------

EMBEDDED = [YTKRegistry, PTKRegistry, CIDARRegistry, EcoFlexRegistry, PlantRegistry]
INSTANCES = {}

for cls in EMBEDDED:
    n = cls.__name__
    emit(n, "module/file", cls._module, cls._file, cls.__module__)
    emit(
        n,
        "bases",
        issubclass(cls, base.EmbeddedRegistry),
        issubclass(cls, base.AbstractRegistry),
        issubclass(cls, collections.abc.Mapping),
    )
    for table in ("_types", "_CLASSES", "_TYPES", "_VECTORS"):
        t = getattr(cls, table, None)
        if t is None or t is NotImplemented:
            emit(n, table, repr(t))
            continue
        emit(n, table, [(k, v.__name__) for k, v in t.items()], len(t))
        emit(n, table, "lookups", "234r" in t, "" in t, t.get("pTU1") is not None)
    r = INSTANCES[n] = call(n + " new", cls, show=lambda x: type(x).__name__)
    call(n + " len (before loading)", lambda: len(r))
    keys = call(n + " iter (before loading)", lambda: list(r))
    for k in keys:
        call(n + " [" + k + "]", lambda: r[k], show=show_item)
        call(n + " has " + k, lambda: (k in r, r.get(k) is r[k], r[k] is r[k]))
    for k in ("nope", "", "pYTK200", keys[0].lower(), keys[0] + " ", 3, None, ("a",)):
        call(n + " [absent {!r}]".format(k), lambda: r[k], show=show_item)
        call(n + " has absent {!r}".format(k), lambda: (k in r, r.get(k), r.get(k, 5)))
    call(n + " unhashable key", lambda: r[[]])
    call(n + " unhashable in", lambda: [] in r)
    call(n + " len", lambda: (len(r), len(r.keys()), len(r.values()), len(r.items())))
    call(n + " iter", lambda: (list(r) == keys, list(r.keys()) == keys, sorted(r) == sorted(set(r))))
    call(n + " values", lambda: [v.id for v in r.values()] == keys)
    call(n + " items", lambda: [(k, v.id) for k, v in r.items()] == [(k, k) for k in keys])
    other = cls()
    call(n + " eq", lambda: (r == other, r != other, hash(r) == hash(other), r == 5, r == {}))
    call(n + " iter twice", lambda: [a == b for a, b in zip(iter(r), iter(r))].count(True))

for a in EMBEDDED:
    emit(
        "eq matrix",
        a.__name__,
        [(INSTANCES[a.__name__] == INSTANCES[b.__name__]) for b in EMBEDDED],
        [hash(INSTANCES[a.__name__]) == hash(INSTANCES[b.__name__]) for b in EMBEDDED],
        len({INSTANCES[b.__name__] for b in EMBEDDED} | {a()}),
    )

call("abstract embedded len", lambda: len(base.EmbeddedRegistry()))
call("abstract embedded attrs", lambda: (base.EmbeddedRegistry._module, base.EmbeddedRegistry._file, base.EmbeddedRegistry._types))


class ElsewhereRegistry(YTKRegistry):
    _file = "ptk.tar.gz"


class MissingRegistry(PlantRegistry):
    _file = "missing.tar.gz"


class DirectRegistry(base.EmbeddedRegistry):
    _module = "moclo.registry.plant"
    _file = "plant.tar.gz"

    def _load_name(self, record):
        return record.description

    def _load_entity(self, record):
        return moclo_kit.MoCloPart.characterize(record)


class NoModuleRegistry(base.EmbeddedRegistry):
    _file = "plant.tar.gz"

    def _load_entity(self, record):
        return moclo_kit.MoCloPart.characterize(record)


class NoResistanceRegistry(PlantRegistry):
    def _load_resistance(self, record):
        record.features = [f for f in record.features if "SmR" not in f.qualifiers.get("label", [])]
        return super(NoResistanceRegistry, self)._load_resistance(record)


def direct():
    r = DirectRegistry()
    p = INSTANCES["PlantRegistry"]
    return (len(r), list(r) == list(p), [show_item(r[k]) == show_item(p[k]) for k in r].count(True), r == p, sha([r[k].name for k in r]))


call("subclass direct", direct)
call("subclass without module len", lambda: len(NoModuleRegistry()))
call("subclass without module iter", lambda: list(NoModuleRegistry()))
call("subclass without module get", lambda: NoModuleRegistry()["x"])
call("subclass without resistance len", lambda: len(NoResistanceRegistry()))
call("subclass without resistance get", lambda: NoResistanceRegistry()["x"])
call("subclass without resistance in", lambda: "x" in NoResistanceRegistry())
call("subclass elsewhere", lambda: (ElsewhereRegistry._module, len(ElsewhereRegistry()), sorted(ElsewhereRegistry()) == sorted(PTKRegistry()), ElsewhereRegistry() == PTKRegistry()))
call("subclass missing len", lambda: len(MissingRegistry()))
call("subclass missing iter", lambda: list(MissingRegistry()))
call("subclass missing get", lambda: MissingRegistry()["x"])

# --- 2. find_resistance ----------------------------------------------------

emit("antibiotics", sorted(reg_utils._ANTIBIOTICS.items()), len(reg_utils._ANTIBIOTICS))
LABELS = ["KanR", "CamR", "CmR", "KnR", "AmpR", "SmR", "SpecR"]
ODD = ["kanr", "KANR", "AmpR ", "TetR", "", "Kanamycin", "R"]


def feature(**qualifiers):
    return SeqFeature(FeatureLocation(0, 4), type="CDS", qualifiers=qualifiers)


def records(features):
    plain = SeqRecord(Seq("ATGCATGCATGC"), id="plain", name="plain")
    plain.features = list(features)
    circ = CircularRecord(Seq("ATGCATGCATGC"), id="circ", name="circ")
    circ.features = list(features)
    return plain, circ


CASES = []
for lab in LABELS + ODD:
    CASES.append(("single " + repr(lab), [feature(label=[lab])]))
    CASES.append(("second feature " + repr(lab), [feature(note=["x"]), feature(label=["other"]), feature(label=[lab])]))
    CASES.append(("second label " + repr(lab), [feature(label=["other", lab])]))
    CASES.append(("twice " + repr(lab), [feature(label=[lab, lab])]))
    CASES.append(("as string " + repr(lab), [feature(label=lab)]))
    CASES.append(("as tuple " + repr(lab), [feature(label=(lab,))]))
for a in LABELS:
    for b in LABELS:
        if a != b:
            CASES.append(("pair same feature {} {}".format(a, b), [feature(label=[a, b])]))
            CASES.append(("pair two features {} {}".format(a, b), [feature(label=[a]), feature(label=[b])]))
CASES.append(("no features", []))
CASES.append(("no label", [feature(note=["KanR"])]))
CASES.append(("empty label", [feature(label=[])]))
CASES.append(("none label", [feature(label=None)]))
CASES.append(("int label", [feature(label=5)]))
CASES.append(("unhashable label", [feature(label=[["KanR"]])]))
CASES.append(("none label after hit", [feature(label=["KanR"]), feature(label=None)]))

for label, feats in CASES:
    for rec in records(feats):
        before = [dict(f.qualifiers) for f in rec.features]
        call("find_resistance {} {}".format(label, rec.id), lambda: reg_utils.find_resistance(rec))
        emit("find_resistance state", [dict(f.qualifiers) for f in rec.features] == before, rec.id)
call("find_resistance not a record", lambda: reg_utils.find_resistance(5))

# --- 3. filesystem registries -------------------------------------------------

POOL = []  # (id, genbank text, resistance label in the text)
KITS = {}  # the same, by registry
KIT_BASES = {
    "YTKRegistry": ytk.YTKPart,
    "CIDARRegistry": cidar.CIDARPart,
    "EcoFlexRegistry": ecoflex.EcoFlexPart,
    "PlantRegistry": moclo_kit.MoCloPart,
}
for reg, ids in (
    ("YTKRegistry", ["pYTK002", "pYTK038", "pYTK047", "pYTK095", "pYTK008", "pYTK084"]),
    ("PTKRegistry", ["pPTK004"]),
    ("CIDARRegistry", ["C0062_CD", "DVA_GB", "DVK_GH", "B0015_DE"]),
    ("EcoFlexRegistry", sorted(INSTANCES["EcoFlexRegistry"])[:3]),
    ("PlantRegistry", sorted(INSTANCES["PlantRegistry"])[:2]),
):
    for i in ids:
        buff = io.StringIO()
        with warnings.catch_warnings():
            warnings.simplefilter("ignore")
            write([INSTANCES[reg][i].entity.record], buff, "genbank")
        text = buff.getvalue()
        used = [lab for lab in LABELS if '/label="{}"'.format(lab) in text]
        emit("pool", reg, i, sha(text), used)
        POOL.append((i, text, used))
        KITS.setdefault(reg.replace("PTK", "YTK"), []).append((i, text, used))

BASES = [
    ytk.YTKPart,
    ytk.YTKPart1,
    ytk.YTKPart8,
    ytk.YTKEntryVector,
    ytk.YTKCassetteVector,
    cidar.CIDARPart,
    cidar.CIDARCassetteVector,
    ecoflex.EcoFlexPart,
    moclo_kit.MoCloPart,
    AbstractPart,
    AbstractModule,
    AbstractVector,
]
EXTENSIONS = ["gb", "gbk", "gb", "gbk", "genbank", "txt", "GB", "gb.bak"]
EXT_ARGS = [None, None, None, ("gb",), ("gbk", "gb"), ["genbank", "gb"], ("txt", "gb", "gbk"), (), "gb", ("GB",)]
STEMS = ["{id}", "{id}", "plasmid_{n}", "with.dot.{n}", "UPPER{n}", "sp ace{n}", "{id}_copy"]


def relabel(text, used, new):
    for lab in used:
        text = text.replace('/label="{}"'.format(lab), '/label="{}"'.format(new))
    return text


def snapshot(filesystem):
    snap = []
    for path in sorted(filesystem.walk.files("/")):
        snap.append((path, sha(filesystem.readtext(path))))
    for path in sorted(filesystem.walk.dirs("/")):
        snap.append((path, None))
    return snap


def populate(filesystem, rng, n, pool=POOL):
    """Fill the root with plasmid files under distinct stems, plus noise."""
    stems = {}
    for _ in range(rng.randint(0, 5)):
        pid, text, used = rng.choice(pool if rng.random() < 0.9 else POOL)
        stem = rng.choice(STEMS).format(id=pid, n=rng.randint(0, 99))
        if stem in stems:
            continue
        ext = rng.choice(EXTENSIONS)
        how = rng.random()
        if how < 0.5:
            text = relabel(text, used, rng.choice(LABELS))
        elif how < 0.6:
            text = relabel(text, used, rng.choice(ODD))
        stems[stem] = ext
        filesystem.writetext("{}.{}".format(stem, ext), text)
    noise = rng.random()
    if noise < 0.5:
        sub = rng.choice(["sub", "more.gb", "deep.gbk", "pYTK002"])
        filesystem.makedirs(sub + "/inner", recreate=True)
        pid, text, _ = rng.choice(POOL)
        filesystem.writetext("{}/{}.gb".format(sub, pid), text)
        stems.setdefault(sub, None)
        stems.setdefault(pid, None)
        stems.setdefault(sub.split(".")[0], None)
    if 0.3 < noise < 0.7:
        filesystem.writetext("README", "not a plasmid")
        filesystem.writetext("notes.md", "not a plasmid")
        stems.setdefault("README", None)
        stems.setdefault("notes", None)
    if noise > 0.93:
        filesystem.writetext("junk.gb", "not a plasmid")
        stems.setdefault("junk", None)
    if 0.85 < noise < 0.9:
        filesystem.writetext("empty.gbk", "")
        stems.setdefault("empty", None)
    return stems


def exercise(tag, make_registry, filesystem, stems, ordered=True):
    before = snapshot(filesystem)
    r = call(tag + " new", make_registry, show=lambda x: type(x).__name__)
    if isinstance(r, BaseException):
        return None
    order = (lambda x: x) if ordered else sorted
    call(tag + " len", lambda: len(r))
    keys = call(tag + " iter", lambda: order(list(r)))
    if isinstance(keys, BaseException):
        keys = []
    probes = list(keys)
    for k in sorted(stems) + ["absent", "", "sub/pYTK002", "pYTK002.gb"]:
        if k not in probes:
            probes.append(k)
    for k in probes:
        call(tag + " [{!r}]".format(k), lambda: r[k], show=show_item)
        call(tag + " {!r} in".format(k), lambda: k in r)
    call(tag + " get", lambda: (r.get("absent"), r.get("absent", 1)))
    call(tag + " views", lambda: (order(list(r.keys())) == keys, len(r.keys())))
    call(tag + " values", lambda: order([i.id for i in r.values()]))
    call(tag + " again", lambda: (len(r), order(list(r)) == keys))
    emit(tag + " attrs", r.base.__name__, r._recurse, r._files)
    emit(tag + " fs untouched", snapshot(filesystem) == before)
    call(tag + " read only", lambda: r.fs.writetext("x.gb", ""))
    return r


rng = random.Random(20)
FS_REGISTRIES = []
for n in range(160):
    mem = fs.open_fs("mem://")
    kit = rng.choice(sorted(KITS))
    stems = populate(mem, rng, n, KITS[kit])
    b = KIT_BASES[kit] if rng.random() < 0.75 else rng.choice(BASES)
    e = rng.choice(EXT_ARGS)
    tag = "fs#{} {} {!r}".format(n, b.__name__, e)
    emit(tag, "content", snapshot(mem))
    if e is None:
        made = exercise(tag, lambda: base.FilesystemRegistry(mem, b), mem, stems)
    else:
        made = exercise(tag, lambda: base.FilesystemRegistry(mem, b, e), mem, stems)
        if isinstance(e, list):
            emit(tag, "extensions kept", e)
    if made is not None and n % 4 == 0:
        FS_REGISTRIES.append((tag, made))

for n in range(6):
    tmp = tempfile.mkdtemp(prefix="c20equiv")
    try:
        osfs = fs.open_fs(tmp)
        stems = populate(osfs, rng, n, KITS["YTKRegistry"])
        pid, text, used = KITS["YTKRegistry"][n]
        osfs.writetext("{}.gb".format(pid), relabel(text, used, LABELS[n]))
        osfs.writetext("renamed_{}.gbk".format(n), text)
        stems.update({pid: "gb", "renamed_{}".format(n): "gbk"})
        b = BASES[n % 2]
        tag = "osfs#{} {}".format(n, b.__name__)
        emit(tag, "content", snapshot(osfs))
        url = tmp if n % 2 else "osfs://" + tmp
        exercise(tag, lambda: base.FilesystemRegistry(url, b), osfs, stems, ordered=False)
        exercise(tag + " kw", lambda: base.FilesystemRegistry(fs_url=url, base=b, extensions=("gbk",)), osfs, stems, ordered=False)
        osfs.close()
    finally:
        shutil.rmtree(tmp)

mem = fs.open_fs("mem://")
for bad in (5, "YTKPart", None, dict, base.Item, INSTANCES["YTKRegistry"]["pYTK002"].entity, base.CombinedRegistry, (ytk.YTKPart,)):
    label = bad if not isinstance(bad, ytk.YTKPart1) else "an instance"
    call("fs bad base {!r}".format(label), lambda: base.FilesystemRegistry(mem, bad))
    call("elabftw bad base {!r}".format(label), lambda: ELabFTWRegistry("http://x", "t", bad))
call("fs bad url", lambda: base.FilesystemRegistry("nosuchproto://x", ytk.YTKPart))
call("fs bad url and base", lambda: base.FilesystemRegistry("nosuchproto://x", 5))
call("fs missing args", lambda: base.FilesystemRegistry(mem))

# --- 4. elabftw (constructor only, no network) -----------------------------

for server in (5, None, "ftp://x", "", "http://x", "https://elab:3418"):
    for b in (ytk.YTKPart, 5):
        def make():
            r = ELabFTWRegistry(server, "tok", b, include_tags=["a", "b"], exclude_tags=None)
            return (r.base.__name__, r.server, r.token, r.category, r._strict, r._ignore_unknown, sorted(r._include), r._exclude)
        call("elabftw {!r} {!r}".format(server, getattr(b, "__name__", b)), make)

# --- 5. combined registries ----------------------------------------------------

MEMBERS = [(n, INSTANCES[n]) for n in sorted(INSTANCES)]
MEMBERS += [(n + " (2nd instance)", cls()) for n, cls in (("YTKRegistry", YTKRegistry), ("CIDARRegistry", CIDARRegistry))]
MEMBERS += FS_REGISTRIES

# two directories sharing ids with each other and with the embedded registries
for which, newlab in (("dirA", "KanR"), ("dirB", "AmpR")):
    mem = fs.open_fs("mem://")
    for pid, text, used in POOL[:6]:
        mem.writetext(pid + ".gb", relabel(text, used, newlab))
    MEMBERS.append((which, base.FilesystemRegistry(mem, ytk.YTKPart)))


def owner(combined, key, members):
    """Index of the first member whose own item is the one found."""
    found = combined[key]
    for i, (_, m) in enumerate(members):
        try:
            mine = m[key]
        except Exception:  # noqa: B902
            continue
        if mine is found:
            return i
        if show_item(mine) == show_item(found):
            return -i - 1
    return None


for n in range(70):
    k = rng.randint(0, 5)
    chosen = [rng.choice(MEMBERS) for _ in range(k)]
    if n % 7 == 0 and chosen:
        chosen.append(chosen[0])
    tag = "combined#{} {}".format(n, [c[0] for c in chosen])
    c = base.CombinedRegistry()
    call(tag + " empty", lambda: (len(c), list(c), "pYTK002" in c, c.get("pYTK002")))
    ok = []
    for name, m in chosen:
        if n % 2:
            res = call(tag + " << " + name, lambda: (c << m) is c)
        else:
            res = call(tag + " add " + name, lambda: c.add_registry(m))
        if not isinstance(res, BaseException):
            ok.append((name, m))
        call(tag + " len so far", lambda: len(c))
    keys = call(tag + " iter", lambda: list(c), show=lambda ks: repr((len(ks), sha(ks), len(set(ks)))))
    union = []
    for name, m in ok:
        for key in m:
            if key not in union:
                union.append(key)
    emit(tag + " union", sorted(union) == sorted(keys), union == keys, len(c) == len(keys))
    for key in keys:
        emit(tag + " item", key, c[key].id, c[key].resistance, type(c[key].entity).__name__, owner(c, key, chosen), key in c)
    for key in ("absent", "", 5, None):
        call(tag + " [{!r}]".format(key), lambda: c[key])
        call(tag + " {!r} in".format(key), lambda: key in c)
    call(tag + " unhashable", lambda: c[[]])
    call(tag + " unhashable in", lambda: [] in c)
    call(tag + " self add", lambda: ((c << c) is c, len(c), list(c) == keys))
    call(tag + " add combined", lambda: (len(base.CombinedRegistry() << c << c), list(base.CombinedRegistry() << c) == keys))
    call(tag + " eq", lambda: (c == (base.CombinedRegistry() << c), c == {}, c != c))
    call(tag + " hash", lambda: hash(c))

c = base.CombinedRegistry()
for bad in (5, None, "abc", {}, {"a": 1}, [1], {"a": base.Item("i", "n", None, "r")}):
    call("combined bad member {!r}".format(bad if not isinstance(bad, dict) else sorted(bad)), lambda: c.add_registry(bad))
    call("combined bad member <<", lambda: c << bad)
    emit("combined after bad", len(c), list(c))
call("combined item from dict", lambda: (c["i"], c["i"].id))

# --- 6. the item type ----------------------------------------------------------

entity = INSTANCES["YTKRegistry"]["pYTK002"].entity
item = base.Item("i", "n", entity, "r")
emit("item", base.Item._fields, item[0], item[1], item[3], item.record is entity.record, item == ("i", "n", entity, "r"))
call("item hash", lambda: hash(base.Item("i", "n", None, "r")) == hash(("i", "n", None, "r")))
call("item replace", lambda: item._replace(id="j").id)
call("item setattr", lambda: setattr(item, "id", "j"))
call("item missing", lambda: base.Item("i"))
call("item repr", lambda: repr(base.Item("i", "n", None, "r")))
call("item kw", lambda: base.Item(resistance="r", entity=None, name="n", id="i"))
emit("names", sorted(n for n in dir(base) if not n.startswith("_") and n[0].isupper()))

# --- digest ----------------------------------------------------------------------

if os.environ.get("EQUIV_DUMP"):
    with open(os.environ["EQUIV_DUMP"], "w") as f:
        f.write("\n".join(LINES) + "\n")
print("lines:", len(LINES))
print("digest:", hashlib.sha256("\n".join(LINES).encode("utf-8")).hexdigest())
