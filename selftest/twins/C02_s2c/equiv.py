# coding: utf-8
"""Differential test: prints a digest of everything the touched code returns.

The digest must be the same before and after a behaviour-preserving change.
"""
import sys

sys.path.insert(0, "/tmp/agents8/C02")
import tests  # noqa: F401,E402  (splices the kits into the moclo namespace)

import copy  # noqa: E402
import hashlib  # noqa: E402
import inspect  # noqa: E402
import random  # noqa: E402
import re  # noqa: E402
import warnings  # noqa: E402

from Bio.Seq import Seq  # noqa: E402
from Bio.SeqFeature import SeqFeature, FeatureLocation, CompoundLocation  # noqa: E402
from Bio.SeqRecord import SeqRecord  # noqa: E402
from Bio.Restriction import BsaI, BsmBI, BbsI, BpiI, SapI, BtsI, EcoRV, NotI  # noqa: E402
from Bio.Restriction.Restriction import RestrictionType  # noqa: E402

import moclo.core  # noqa: E402
import moclo.core.modules  # noqa: E402
import moclo.core.vectors  # noqa: E402
import moclo.core.parts  # noqa: E402
from moclo import errors  # noqa: E402
from moclo.record import CircularRecord  # noqa: E402
from moclo.regex import DNARegex, SeqMatch  # noqa: E402
from moclo.core import (  # noqa: E402
    AbstractModule, AbstractVector, AbstractPart, Entry, EntryVector, Product,
    Cassette, CassetteVector, Device, DeviceVector,
)
from moclo.core._structured import StructuredRecord  # noqa: E402
from moclo.kits import ytk, cidar, ecoflex, plant  # noqa: E402
from moclo.kits import moclo as moclokit  # noqa: E402
from moclo.registry.ytk import YTKRegistry, PTKRegistry  # noqa: E402
from moclo.registry.cidar import CIDARRegistry  # noqa: E402
from moclo.registry.ecoflex import EcoFlexRegistry  # noqa: E402
from moclo.registry.plant import PlantRegistry  # noqa: E402

PUBLIC = [
    StructuredRecord, AbstractModule, AbstractVector, AbstractPart, Entry,
    EntryVector, Product, Cassette, CassetteVector, Device, DeviceVector,
]
KITS = (ytk, cidar, ecoflex, moclokit, plant)
IUPAC = {
    "A": "A", "C": "C", "G": "G", "T": "T", "N": "ACGT", "B": "CGT", "D": "AGT",
    "H": "ACT", "K": "GT", "M": "AC", "R": "AG", "S": "CG", "V": "ACG", "W": "AT",
    "Y": "CT",
}
SITES = ["GGTCTC", "GAGACC", "CGTCTC", "GAGACG", "GAAGAC", "GTCTTC"]

LINES = []
SECTIONS = []


def emit(*values):
    line = " | ".join(str(v) for v in values)
    LINES.append(re.sub(r" at 0x[0-9a-fA-F]+", "", line))


def section(name):
    SECTIONS.append((name, len(LINES)))


def attempt(call):
    """Result of the call, or the exception, plus the warnings it emitted."""
    with warnings.catch_warnings(record=True) as caught:
        warnings.simplefilter("always")
        try:
            result = ("ok", call())
        except Exception as err:  # noqa
            result = ("raise", type(err).__name__, str(err))
    warns = [
        (type(w.message).__name__, str(w.message))
        for w in caught
        if "pkg_resources" not in str(w.message)
    ]
    return result, warns


def show_location(loc):
    if loc is None:
        return None
    return [(int(p.start), int(p.end), p.strand) for p in loc.parts]


def show_record(rec):
    if rec is None:
        return None
    if isinstance(rec, Seq):
        return ("Seq", str(rec))
    if not isinstance(rec, SeqRecord):
        return repr(rec)
    feats = [
        (f.type, show_location(f.location), f.id,
         sorted((k, repr(v)) for k, v in f.qualifiers.items()))
        for f in rec.features
    ]
    annotations = sorted((k, repr(v)) for k, v in rec.annotations.items())
    letters = sorted((k, repr(v)) for k, v in rec.letter_annotations.items())
    return (
        type(rec).__name__, str(rec.seq), rec.id, rec.name, rec.description,
        list(rec.dbxrefs), feats, annotations, letters,
    )


def show(value):
    if isinstance(value, tuple) and value and value[0] == "ok":
        inner = value[1]
        if isinstance(inner, (SeqRecord, Seq)):
            return ("ok", show_record(inner))
        if isinstance(inner, SeqMatch):
            return ("ok", "SeqMatch", inner.span(), inner.start(), inner.end())
        return ("ok", repr(inner))
    return value


def count_sites(text):
    text = text.upper()
    return sum(len(re.findall("(?={})".format(s), text)) for s in SITES)


def instantiate(structure, rng, groups=None, filler=(20, 36), inner=None):
    groups = groups or {}
    out, index, i = [], 0, 0
    while i < len(structure):
        c = structure[i]
        if c == "(":
            index += 1
            j = structure.index(")", i)
            body = structure[i + 1 : j]
            if index in groups and set(body) == {"N"} and len(body) == len(groups[index]):
                out.append(groups[index])
                i = j + 1
                continue
            i += 1
            continue
        if c == ")":
            i += 1
            continue
        if structure[i + 1 : i + 2] == "*":
            n = rng.randint(*filler)
            stretch = "".join(rng.choice(IUPAC[c]) for _ in range(n))
            if inner is not None:
                stretch = stretch[: n // 2] + inner + stretch[n // 2 :]
            out.append(stretch)
            i += 3 if structure[i + 2 : i + 3] == "?" else 2
            continue
        out.append(rng.choice(IUPAC[c]))
        i += 1
    return "".join(out)


def occurrences(structure, text):
    pattern = "".join(
        "[{}]".format(IUPAC[c]) if c in IUPAC and c not in "ACGT" else c
        for c in structure
    )
    rx = re.compile("(?i)" + pattern)
    n = len(text)
    return sum(1 for i in range(n) if rx.match(text * 2, i, i + n) is not None)


def plasmid_text(structure, rng, groups=None, inner=None, extra_sites=0, sites=True):
    literal = count_sites(re.sub("[^ACGT]", "-", re.sub("[()]", "", structure)))
    for _ in range(5000):
        insert = instantiate(structure, rng, groups, inner=inner)
        backbone = "".join(rng.choice("ACGT") for _ in range(rng.randint(24, 40)))
        text = insert + backbone
        if sites and count_sites((text * 2)[: len(text) + 5]) != literal + extra_sites:
            continue
        if occurrences(structure, text) != 1:
            continue
        return text
    raise RuntimeError("could not build a plasmid")


def annotated(text, name, rng, cls=CircularRecord, topology="circular", citations=False):
    n = len(text)
    feats = []
    a, b = sorted(rng.sample(range(n), 2))
    feats.append(SeqFeature(FeatureLocation(a, b, 1), type="misc_feature",
                            qualifiers={"label": ["f1-" + name]}))
    c, d = sorted(rng.sample(range(n), 2))
    if c > 0 and d < n and c < d:
        feats.append(SeqFeature(
            CompoundLocation([FeatureLocation(d, n, -1), FeatureLocation(0, c, -1)]),
            type="CDS", qualifiers={"label": ["wrap-" + name], "note": ["x"]}))
    feats.append(SeqFeature(FeatureLocation(0, n, 1), type="source",
                            qualifiers={"organism": ["none"]}))
    annotations = {"molecule_type": "DNA"}
    if topology is not None:
        annotations["topology"] = topology
    if citations:
        annotations["references"] = ["REF-A-" + name, "REF-B-" + name]
        feats[0].qualifiers["citation"] = ["[2]", "[1]"]
    return cls(Seq(text), id=name, name=name, description="desc " + name,
               dbxrefs=["db:" + name], features=feats, annotations=annotations)


def kit_classes():
    found = []
    for kit in KITS:
        for name, cls in sorted(vars(kit).items()):
            if inspect.isclass(cls) and cls.__module__ == kit.__name__:
                if issubclass(cls, StructuredRecord):
                    found.append(cls)
    return found


def observe(cls, record, full=False):
    res = []
    before = show_record(record)
    out, w = attempt(lambda: cls(record))
    if out[0] != "ok":
        return [("new", out, w)]
    entity = out[1]
    names = ["is_valid", "overhang_start", "overhang_end", "target_sequence",
             "placeholder_sequence", "is_valid"]
    for name in names:
        fn = getattr(entity, name, None)
        if fn is None:
            res.append((name, "missing"))
            continue
        out, w = attempt(fn)
        shown = show(out)
        if not full and shown[0] == "ok" and isinstance(shown[1], tuple):
            shown = ("ok", hashlib.sha1(repr(shown[1]).encode()).hexdigest()[:12],
                     shown[1][1] if len(shown[1]) > 1 else None)
        res.append((name, shown, w))
    res.append(("unchanged", before == show_record(record)))
    return res


# --- 1. inventory of the classes --------------------------------------------


def run_inventory():
    section("inventory")
    for cls in [StructuredRecord] + PUBLIC[1:] + kit_classes():
        out, w = attempt(cls.structure)
        cutter = getattr(cls, "cutter", "missing")
        emit(
            "class", cls.__module__, cls.__name__, show(out), w,
            cutter.__name__ if isinstance(cutter, RestrictionType) else repr(cutter),
            repr(getattr(cls, "signature", "missing")),
            repr(getattr(cls, "_level", "missing")),
            [issubclass(cls, p) for p in PUBLIC],
            [b.__name__ for b in cls.__mro__ if b in PUBLIC or b.__module__.startswith("moclo.kits")],
            inspect.isabstract(cls),
            type(inspect.getattr_static(cls, "structure")).__name__,
        )
        out, w = attempt(lambda: cls._get_regex().pattern)
        emit("regex", cls.__name__, show(out), w)
    for mod in (moclo.core, moclo.core.modules, moclo.core.vectors, moclo.core.parts) + KITS:
        emit("all", mod.__name__, sorted(getattr(mod, "__all__", [])))


# --- 2. instantiation checks -----------------------------------------------


def run_instantiation():
    section("instantiation")
    rec = CircularRecord(Seq("ATGC"), id="x")
    for base in (AbstractModule, AbstractVector, AbstractPart, Entry, EntryVector,
                 Product, Cassette, CassetteVector, Device, DeviceVector,
                 ytk.YTKPart, cidar.CIDARPart, ecoflex.EcoFlexPart, moclokit.MoCloPart):
        emit("bare", base.__name__, show(attempt(lambda: base(rec))[0])[:2]
             if attempt(lambda: base(rec))[0][0] == "ok" else attempt(lambda: base(rec)))
        for cutter in (EcoRV, NotI, BsaI, SapI, BtsI, NotImplemented):
            ns = {"cutter": cutter}
            for bases in ((base,), (AbstractPart, base)):
                try:
                    sub = type(str("Sub"), bases, dict(ns))
                except TypeError as err:
                    emit("sub", base.__name__, repr(cutter), len(bases), "TypeError", str(err))
                    continue
                out, w = attempt(lambda: sub(rec))
                kind = out if out[0] != "ok" else ("ok", type(out[1]).__name__)
                emit("sub", base.__name__, repr(cutter), len(bases), kind, w)
                if out[0] == "ok":
                    emit("sub-structure", show(attempt(sub.structure)[0]),
                         show(attempt(out[1].is_valid)[0]))


# --- 3. generated records for every class, rotated ---------------------------


def rotations_of(n, rng, start_hint):
    picks = {0, 1, n - 1, n // 2}
    # origins within the structure (the insert starts at position 0 in the
    # generated text, so rotating by k puts the origin k nucleotides upstream)
    for k in (2, 5, 7, 9, 11, 12, 13, 16, 19):
        picks.add(k % n)
        picks.add((n - start_hint + k) % n)
        picks.add((n - k) % n)
    picks.update(rng.sample(range(n), 4))
    return sorted(picks)


def run_generated():
    section("generated")
    rng = random.Random(7001)
    for cls in kit_classes():
        out, _ = attempt(cls.structure)
        if out[0] != "ok":
            emit("gen", cls.__name__, "no structure", out)
            continue
        structure = out[1]
        text = plasmid_text(structure, rng)
        n = len(text)
        insert_len = n - 30
        base = annotated(text, cls.__name__, rng)
        for k in rotations_of(n, rng, insert_len):
            emit("gen", cls.__name__, k, observe(cls, base >> k, full=(k in (0, 7))))
        # mixed letter case, and one rotation of it
        mixed = "".join(c.lower() if rng.random() < 0.4 else c for c in text)
        rec = annotated(mixed, cls.__name__ + "-mixed", rng)
        emit("mixed", cls.__name__, observe(cls, rec))
        emit("mixed", cls.__name__, observe(cls, rec >> (n - 9)))
        # linear inputs: plain SeqRecord with / without topology
        for topo in ("linear", "circular", "Circular", None):
            rec = annotated(text, cls.__name__ + "-sr", rng, cls=SeqRecord, topology=topo)
            emit("seqrecord", cls.__name__, topo, observe(cls, rec))
            rot = text[-11:] + text[:-11]
            rec = annotated(rot, cls.__name__ + "-sr", rng, cls=SeqRecord, topology=topo)
            emit("seqrecord-rot", cls.__name__, topo, observe(cls, rec))
        # the structure of another class
        emit("nomatch", cls.__name__,
             observe(cls, CircularRecord(Seq("ATGCATGCATTTAGGCCA" * 3), id="no")))


# --- 4. illegal sites ---------------------------------------------------------


def run_illegal():
    section("illegal")
    rng = random.Random(7002)
    cases = [
        (ytk.YTKPart1, "GGTCTCATTTT"), (ytk.YTKPart3, "AAAATGAGACC"),
        (ytk.YTKPart8, "GGTCTCATTTT"), (ytk.YTKCassette, "TTCGTCTCATTTT"),
        (cidar.CIDARRibosomeBindingSite, "GGTCTCATTTT"),
        (cidar.CIDAREntryVector, "TTGAAGACAA"),
        (ecoflex.EcoFlexPromoter, "AAAATGAGACC"), (moclokit.MoCloPro, "GGTCTCATTTT"),
        (plant.Plant5U, "AAAATGAGACC"), (cidar.CIDAREntry, "GGTCTCATTTT"),
    ]
    for cls, site in cases:
        structure = cls.structure()
        for _ in range(200):
            text = instantiate(structure, rng, inner=site)
            text += "".join(rng.choice("ACGT") for _ in range(30))
            if occurrences(structure, text) >= 1:
                break
        n = len(text)
        rec = annotated(text, cls.__name__ + "-ill", rng)
        for k in (0, 3, 8, 10, n - 3, n - 8, n - 10, n // 2, n - 20, n - 40):
            emit("illegal", cls.__name__, site, k % n, observe(cls, rec >> (k % n)))
        # an additional site in the backbone only
        text2 = plasmid_text(structure, rng) + site + "ACCA"
        rec = annotated(text2, cls.__name__ + "-bb", rng)
        for k in (0, 6, len(text2) - 6, len(text2) // 2):
            emit("backbone", cls.__name__, site, k, observe(cls, rec >> k))


# --- 5. assemblies --------------------------------------------------------------


def run_assemblies():
    section("assemblies")
    rng = random.Random(7003)

    def build(cls, name, groups=None, citations=False):
        text = plasmid_text(cls.structure(), rng, groups)
        return annotated(text, name, rng, citations=citations)

    vector = build(cidar.CIDARCassetteVector, "vec", {1: "GGAG", 3: "GCTT"}, True)
    pro = build(cidar.CIDARPromoter, "pro", {1: "GGAG"}, True)
    rbs = build(cidar.CIDARRibosomeBindingSite, "rbs")
    cds = build(cidar.CIDARCodingSequence, "cds", citations=True)
    ter = build(cidar.CIDARTerminator, "ter", {3: "GCTT"})
    ter2 = build(cidar.CIDARTerminator, "ter2", {3: "GCTT"})
    odd = build(cidar.CIDAREntry, "odd", {1: "CCAA", 3: "CCCC"})
    rev = build(cidar.CIDAREntry, "rev", {1: "AGTA", 3: "TTTT"})
    same = build(cidar.CIDARCassetteVector, "same", {1: "GGAG", 3: "GGAG"})
    lower = CircularRecord(Seq(str(rbs.seq).lower()), id="rbs-lower", name="rbs-lower")

    def run(label, vec_cls, vec, mods, **kw):
        records = [vec] + [r for _, r in mods]
        before = [show_record(r) for r in records]

        def call():
            return vec_cls(vec).assemble(*[c(r) for c, r in mods], **kw)

        out, w = attempt(call)
        after = [show_record(r) for r in records]
        emit("assembly", label, show(out), w, [a == b for a, b in zip(before, after)])

    P, R, C, T = (cidar.CIDARPromoter, cidar.CIDARRibosomeBindingSite,
                  cidar.CIDARCodingSequence, cidar.CIDARTerminator)
    V = cidar.CIDARCassetteVector
    full = [(P, pro), (R, rbs), (C, cds), (T, ter)]
    run("plain", V, vector, full)
    run("named", V, vector, full, id="my-id", name="my-name")
    run("shuffled", V, vector, full[::-1])
    run("lower", V, vector, [(P, pro), (R, lower), (C, cds), (T, ter)])
    run("missing", V, vector, [(P, pro), (R, rbs), (T, ter)])
    run("duplicate", V, vector, full + [(T, ter2)])
    run("unused", V, vector, full + [(cidar.CIDAREntry, odd)])
    run("unused-rot", V, vector >> 8, full + [(cidar.CIDAREntry, odd >> 10)])
    run("revcomp", V, vector, full + [(cidar.CIDAREntry, rev)])
    run("bad-vector", V, same, full)
    run("wrong-class", V, vector, [(P, pro), (R, rbs), (C, cds), (C, ter)])
    run("generic", cidar.CIDARCassetteVector, vector,
        [(cidar.CIDAREntry, r) for _, r in full])
    for k in (1, 7, 9, 13, len(vector) - 5, len(vector) - 12, len(vector) // 2):
        run("rot-vector-%d" % k, V, vector >> k, full)
    for idx, (cls, rec) in enumerate(full):
        for k in (3, 8, 12, len(rec) - 4, len(rec) - 9, len(rec) - 14):
            mods = list(full)
            mods[idx] = (cls, rec >> k)
            run("rot-%s-%d" % (rec.id, k), V, vector, mods)
    # plain SeqRecord modules (no rotation operator)
    plain = SeqRecord(rbs.seq, id="rbs-plain", name="rbs-plain")
    run("seqrecord-module", V, vector, [(P, pro), (R, plain), (C, cds), (T, ter)])
    # invalid citation
    broken = copy.deepcopy(cds)
    broken.features[0].qualifiers["citation"] = ["oops"]
    run("bad-citation", V, vector, [(P, pro), (R, rbs), (C, broken), (T, ter)])

    # YTK: a cassette out of parts, with another pair of enzymes
    yv = build(ytk.YTKPart8, "y8")
    ymods = [(c, build(c, c.__name__)) for c in (
        ytk.YTKPart1, ytk.YTKPart2, ytk.YTKPart3, ytk.YTKPart4, ytk.YTKPart5,
        ytk.YTKPart6, ytk.YTKPart7)]
    run("ytk", ytk.YTKPart8, yv, ymods)
    run("ytk-rot", ytk.YTKPart8, yv >> 10, [(c, r >> 8) for c, r in ymods])
    run("ytk-234", ytk.YTKPart8, yv,
        [ymods[0], (ytk.YTKPart234, build(ytk.YTKPart234, "y234"))] + ymods[4:])
    # EcoFlex and MoClo vectors
    ev = build(ecoflex.EcoFlexCassetteVector, "ev", {1: "CTAT", 3: "TGTT"})
    emods = [(c, build(c, c.__name__)) for c in (
        ecoflex.EcoFlexPromoter, ecoflex.EcoFlexRBS, ecoflex.EcoFlexCodingSequence,
        ecoflex.EcoFlexTerminator)]
    run("ecoflex", ecoflex.EcoFlexCassetteVector, ev, emods)
    run("ecoflex-rot", ecoflex.EcoFlexCassetteVector, ev >> 15, emods)
    mv = build(moclokit.MoCloCassetteVector, "mv", {1: "GGAG", 3: "CGCT"})
    mmods = [(c, build(c, c.__name__)) for c in (
        moclokit.MoCloPro, moclokit.MoClo5U, moclokit.MoCloCDS1, moclokit.MoClo3UTer)]
    run("moclo", moclokit.MoCloCassetteVector, mv, mmods)
    run("moclo-rot", moclokit.MoCloCassetteVector, mv >> 13, mmods)
    pmods = [(c, build(c, c.__name__)) for c in (
        plant.PlantPro5U, plant.PlantFullCDS, plant.Plant3U, plant.PlantTer)]
    run("plant", moclokit.MoCloCassetteVector, mv, pmods)
    dv = build(cidar.CIDARDeviceVector, "dv", {1: "GGAG", 3: "GCTT"})
    cas = build(cidar.CIDARCassette, "cas", {1: "GGAG", 3: "GCTT"})
    run("device", cidar.CIDARDeviceVector, dv, [(cidar.CIDARCassette, cas)])
    run("device-rot", cidar.CIDARDeviceVector, dv >> 9, [(cidar.CIDARCassette, cas >> 11)])


# --- 6. regex and matches -----------------------------------------------------


def run_regex():
    section("regex")
    rng = random.Random(7004)
    emit("lettermap", sorted(DNARegex._lettermap.items()))
    patterns = ["AA(NN)", "GGTCTCN(NNNN)(NN*N)(NNNN)NGAGACC", "(A)(T)?(G)",
                "(RY)(N*?)(SW)", "N*", "(ATG)(N*)(TAA)", "B(DH)KMV"]
    for pattern in patterns:
        out, w = attempt(lambda: DNARegex(pattern))
        dr = out[1]
        emit("pattern", pattern, dr.pattern, dr.regex.pattern, dr.regex.flags)
        for trial in range(14):
            n = rng.choice([0, 1, 4, 10, 17, 33, 60])
            text = "".join(rng.choice("ACGTacgt" if trial % 3 == 0 else "ACGT")
                           for _ in range(n))
            if pattern.startswith("GGTCTC") and trial % 2 == 0 and n >= 33:
                core = "GGTCTCA" + text[:15] + "TGAGACC" + text[15:20]
                k = rng.randrange(len(core))
                text = core[k:] + core[:k]
            subjects = [
                ("Seq", Seq(text)), ("SeqRecord", SeqRecord(Seq(text), id="s")),
                ("Circular", CircularRecord(Seq(text), id="c")), ("str", text),
            ]
            for kind, subject in subjects:
                for kw in ({}, {"linear": False}, {"pos": 2}, {"pos": 3, "endpos": 9},
                           {"endpos": 0}, {"pos": n}, {"pos": 1, "linear": False}):
                    out, w = attempt(lambda: dr.search(subject, **kw))
                    if out[0] == "ok" and out[1] is not None:
                        m = out[1]
                        groups = []
                        for g in range(dr.regex.groups + 2):
                            groups.append((
                                show(attempt(lambda: m.span(g))[0]),
                                show(attempt(lambda: m.group(g))[0]),
                            ))
                        emit("search", pattern, kind, text, sorted(kw.items()),
                             m.start(), m.end(), m.span(), m.shift, m.rec is subject,
                             groups, w)
                    else:
                        emit("search", pattern, kind, text, sorted(kw.items()), show(out), w)
    # matches built by hand over the doubled sequence
    rec = annotated("ACGTTGCAAGGCTTAC", "hand", rng)
    for subject in (rec, rec.seq, SeqRecord(rec.seq, id="lin")):
        data = str(rec.seq) * 2
        for rx in (r"(..)(.{5})(..)", r"(.)(.*)(.)", r"(x)?(.{16})(y)?"):
            for i in range(0, 18):
                m = re.compile(rx).match(data, i, i + 16)
                if m is None:
                    emit("hand", rx, i, None)
                    continue
                sm = SeqMatch(m, subject)
                emit("hand", rx, i, type(subject).__name__,
                     [(sm.span(g), show(attempt(lambda: sm.group(g))[0])) for g in range(4)])


# --- 7. circular records --------------------------------------------------------


def run_records():
    section("records")
    rng = random.Random(7005)
    for trial in range(12):
        n = rng.choice([5, 12, 31])
        text = "".join(rng.choice("ACGT") for _ in range(n))
        rec = annotated(text, "r%d" % trial, rng, citations=trial % 2 == 0)
        rec.letter_annotations["phred_quality"] = [rng.randrange(40) for _ in range(n)]
        before = show_record(rec)
        for k in (0, 1, 2, n - 1, n, n + 3, -1, -n, 3 * n + 2, -2 * n - 1):
            emit("rshift", trial, k, show(attempt(lambda: rec >> k)[0]))
            emit("lshift", trial, k, show(attempt(lambda: rec << k)[0]))
        emit("identity", (rec >> 0) is rec, (rec << 0) is rec, (rec >> n) is rec)
        rot = rec >> 2
        emit("sharing", rot.annotations is rec.annotations, rot.dbxrefs is rec.dbxrefs,
             [a.qualifiers is b.qualifiers for a, b in zip(rot.features, rec.features)])
        emit("back", show_record((rec >> 3) << 3) == before)
        for probe in (text[-2:] + text[:2], "ACGT" * 20, text, "", Seq(text[:3])):
            emit("contains", trial, str(probe), show(attempt(lambda: probe in rec)[0]))
        for idx in (0, -1, slice(1, 4), slice(None, None, -1), slice(3, 1)):
            emit("getitem", trial, str(idx), show(attempt(lambda: rec[idx])[0]))
        emit("revcomp", trial, show(attempt(rec.reverse_complement)[0]))
        emit("add", show(attempt(lambda: rec + rec)[0]), show(attempt(lambda: "A" + rec)[0]),
             show(attempt(lambda: rec + "A")[0]))
        emit("unchanged", before == show_record(rec))
    for topo in ("linear", "circular", "CIRCULAR", None):
        ann = {} if topo is None else {"topology": topo}
        emit("init", topo, show(attempt(
            lambda: CircularRecord(Seq("ATGC"), id="t", annotations=ann))[0]))
        sr = SeqRecord(Seq("ATGC"), id="t", annotations=ann)
        emit("init-from", topo, show(attempt(lambda: CircularRecord(sr))[0]))
    emit("empty", show(attempt(lambda: CircularRecord(Seq(""), id="e") >> 1)[0]))


# --- 8. registries -------------------------------------------------------------


def run_registries():
    section("registries")
    for factory in (YTKRegistry, PTKRegistry, CIDARRegistry, EcoFlexRegistry, PlantRegistry):
        registry = factory()
        emit("registry", factory.__name__, len(registry), sorted(registry)[:3])
        for key in sorted(registry):
            item = registry[key]
            entity = item.entity
            cls = type(entity)
            record = entity.record
            n = len(record)
            emit("item", factory.__name__, key, item.name, item.resistance, cls.__name__)
            obs = observe(cls, record)
            emit("item-obs", key, obs)
            out, _ = attempt(lambda: cls(record)._match.span())
            if out[0] != "ok":
                continue
            start, end = out[1]
            # origin moved into the upstream site, the overhang, the target
            for k in (n - start - 3, n - start - 9, n - (end % n) + 2):
                got = observe(cls, record >> (k % n))
                emit("item-rot", key, k % n, [g[:2] for g in got] == [o[:2] for o in obs],
                     hashlib.sha1(repr(got).encode()).hexdigest()[:12])
            others = [c for c in kit_classes() if c.__module__ == cls.__module__]
            emit("item-types", key, [
                c.__name__ for c in others
                if attempt(lambda: c(record).is_valid())[0] == ("ok", True)
            ])


def main():
    run_inventory()
    run_instantiation()
    run_generated()
    run_illegal()
    run_assemblies()
    run_regex()
    run_records()
    run_registries()
    blob = "\n".join(LINES)
    if "/tmp/" in blob or " at 0x" in blob:
        print("WARNING: paths or addresses in the digest")
    bounds = SECTIONS + [("end", len(LINES))]
    for (name, lo), (_, hi) in zip(bounds, bounds[1:]):
        part = "\n".join(LINES[lo:hi]).encode("utf-8")
        print("{:14s} {:6d} lines  {}".format(name, hi - lo, hashlib.sha256(part).hexdigest()[:20]))
    print("DIGEST", len(LINES), hashlib.sha256(blob.encode("utf-8")).hexdigest())
    if len(sys.argv) > 1:
        with open(sys.argv[1], "w") as handle:
            handle.write(blob)


if __name__ == "__main__":
    main()
