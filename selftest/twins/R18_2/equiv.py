# coding: utf-8
"""Differential test for the rewrite of ``moclo.regex``.

Covers ``DNARegex`` construction (``_transcribe``), ``DNARegex.search`` and
``SeqMatch.group`` on linear and circular inputs, including matches that
wrap the origin, with a digest of every result or exception.
"""
import hashlib
import random
import re
import sys
import warnings

sys.path.insert(0, "/tmp/agentsR4/R18")
import tests  # noqa: E402,F401

from Bio.Seq import Seq  # noqa: E402
from Bio.SeqFeature import SeqFeature, FeatureLocation  # noqa: E402
from Bio.SeqRecord import SeqRecord  # noqa: E402
from Bio.Restriction import BsaI, BpiI, BsmBI, SapI  # noqa: E402

from moclo.record import CircularRecord  # noqa: E402
from moclo.regex import DNARegex, SeqMatch  # noqa: E402
from moclo.core.modules import AbstractModule  # noqa: E402
from moclo.core.vectors import AbstractVector  # noqa: E402

warnings.simplefilter("ignore")
rng = random.Random(1802)


def attempt(fn):
    try:
        return ("ok", fn())
    except Exception as exc:  # noqa: B902
        return ("err", type(exc).__name__, str(exc))


def dump(obj):
    if obj is None:
        return None
    if isinstance(obj, SeqRecord):
        return (
            type(obj).__name__,
            str(obj.seq),
            obj.id,
            [(f.type, repr(f.location)) for f in obj.features],
            sorted((k, repr(v)) for k, v in obj.annotations.items()),
            sorted((k, repr(v)) for k, v in obj.letter_annotations.items()),
        )
    if isinstance(obj, Seq):
        return ("Seq", str(obj))
    return (type(obj).__name__, repr(obj))


def dump_match(m, target):
    if m is None:
        return None
    ngroups = m.match.re.groups
    out = [type(m).__name__, m.rec is target, m.shift, m.start(), m.end(), m.span()]
    for g in range(ngroups + 1):
        out.append((m.span(g), attempt(lambda: dump(m.group(g)))))
    out.append(attempt(lambda: dump(m.group(ngroups + 1))))
    out.append(attempt(lambda: m.span(ngroups + 1)))
    return out


PATTERNS = [
    "ATG",
    "atg",
    "AtGn",
    "GGTCTCN(NNNN)(NN*N)(NNNN)NGAGACC",
    "ggtctcn(nnnn)(nn*n)(nnnn)ngagacc",
    "(NNNN)(N)GAGACC(N*)GGTCTC(N)(NNNN)",
    "GAAGACNN(NNNN)(N*?)(NNNN)NNGTCTTC",
    "RYKM",
    "(A|C)(G)?T",
    "(B)(D)(H)(V)",
    "SW+S",
    "N*",
    "(N*)(ACGT)?",
    "A{2,3}(C)",
    "TTT(X)?AAA",
    "",
    "(",
    "[AC",
    None,
    ["A", "N", "G"],
    ["A", 1],
    [["A"]],
    12,
    b"ATG",
]


def random_dna(n, alphabet="ACGT"):
    return "".join(rng.choice(alphabet) for _ in range(n))


def make_targets():
    """Generate sequences with sites planted at various places (incl. wrap)."""
    out = []
    for _ in range(60):
        n = rng.randint(0, 60)
        core = random_dna(n, rng.choice(["ACGT", "ACGTacgt", "ACGTN", "AT"]))
        if rng.random() < 0.6:
            site = rng.choice(
                [
                    "GGTCTCA" + random_dna(4) + random_dna(rng.randint(1, 9)) + random_dna(4) + "TGAGACC",
                    "GAAGACTT" + random_dna(4) + random_dna(rng.randint(0, 9)) + random_dna(4) + "TTGTCTTC",
                    random_dna(4) + "AGAGACC" + random_dna(rng.randint(0, 9)) + "GGTCTCA" + random_dna(4),
                    "ATGN",
                    "aaac",
                ]
            )
            if rng.random() < 0.5:
                site = site.lower() if rng.random() < 0.5 else site.swapcase()
            full = core + site
            k = rng.randint(0, len(full))
            full = full[k:] + full[:k]  # rotate so that the site may wrap the origin
        else:
            full = core
        out.append(full)
    return out


def wrap(text, kind):
    if kind == "seq":
        return Seq(text)
    feats = [SeqFeature(FeatureLocation(0, len(text)), type="source")] if text else []
    if len(text) > 4:
        feats.append(SeqFeature(FeatureLocation(1, len(text) - 1, 1), type="misc"))
    if kind == "linear":
        return SeqRecord(Seq(text), id="lin", features=feats, annotations={"topology": "linear"})
    if kind == "circular":
        return CircularRecord(Seq(text), id="circ", features=feats)
    if kind == "letters":
        return CircularRecord(
            Seq(text), id="let", letter_annotations={"q": list(range(len(text)))}
        )
    raise AssertionError(kind)


results = []

# 1. construction (transcription of the pattern) --------------------------------
regexes = []
for pattern in PATTERNS:
    def build():
        rx = DNARegex(pattern)
        regexes.append(rx)
        return (rx.pattern, rx.regex.pattern, rx.regex.flags, rx.regex.groups)
    results.append(("build", repr(pattern), attempt(build)))
    results.append(("transcribe", repr(pattern), attempt(lambda: DNARegex._transcribe(pattern))))


class LowerRegex(DNARegex):
    _lettermap = dict(DNARegex._lettermap, n="[acgtn]", X="[^A]")


results.append(attempt(lambda: LowerRegex("GnX(N)").regex.pattern))
regexes.append(LowerRegex("anX(N)"))

# 2. searches --------------------------------------------------------------------
targets = make_targets()
for text in targets:
    for kind in ("seq", "linear", "circular", "letters"):
        target = wrap(text, kind)
        for rx in regexes:
            for linear in (True, False):
                results.append(
                    (kind, rx.regex.pattern, linear,
                     attempt(lambda: dump_match(rx.search(target, linear=linear), target)))
                )
            n = len(text)
            pos = rng.randint(-2, n + 2)
            endpos = rng.randint(-2, 2 * n + 2)
            results.append(
                (kind, rx.regex.pattern, pos, endpos,
                 attempt(lambda: dump_match(rx.search(target, pos, endpos), target)),
                 attempt(lambda: dump_match(rx.search(target, pos=pos, linear=0), target)),
                 attempt(lambda: dump_match(rx.search(target, endpos=endpos, linear=None), target)))
            )

# 3. invalid inputs --------------------------------------------------------------
rx = DNARegex("ATGN")
for bad in ("ATGC", b"ATGC", None, 42, ["A"], object):
    results.append(attempt(lambda: rx.search(bad)))
for badpos in ("1", None, 1.5):
    results.append(attempt(lambda: dump_match(rx.search(Seq("CCATGC"), pos=badpos), None)))
    results.append(attempt(lambda: dump_match(rx.search(Seq("CCATGC"), endpos=badpos), None)))
results.append(attempt(lambda: rx.search(Seq(""))))
results.append(attempt(lambda: rx.search(CircularRecord(Seq("")))))

# 4. SeqMatch over hand-made matches (all span/length configurations) -------------
for n in (0, 1, 2, 5, 8):
    text = random_dna(n)
    for kind in ("seq", "linear", "circular", "letters"):
        rec = wrap(text, kind)
        doubled = text * 3
        for start in range(0, 3 * n + 1):
            for length in (0, 1, 2, n, n + 1):
                if start + length > len(doubled):
                    continue
                m = re.compile("(?i)(.{%d})(X)?" % length).match(doubled, start)
                sm = SeqMatch(m, rec, shift=start)
                results.append((n, kind, start, length, dump_match(sm, rec)))

# 5. through the structured records ------------------------------------------------
for cutter in (BsaI, BpiI, BsmBI, SapI):
    mod_cls = type(str("Mod"), (AbstractModule,), {"cutter": cutter})
    vec_cls = type(str("Vec"), (AbstractVector,), {"cutter": cutter})
    results.append((cutter.__name__, mod_cls.structure(), vec_cls.structure()))
    site = cutter.site
    rc = str(Seq(site).reverse_complement())
    gap = "A" * abs(cutter.fst5 - len(site)) if cutter.fst5 > 0 else ""
    ovl = abs(cutter.ovhg)
    for _ in range(25):
        up, down = random_dna(ovl), random_dna(ovl)
        body = random_dna(rng.randint(1, 20), "AT")
        pad = random_dna(rng.randint(0, 12), "AT")
        mod_text = site + gap + up + body + down + gap + rc + pad
        vec_text = up + gap + rc + body + site + gap + down + pad
        for text, cls in ((mod_text, mod_cls), (vec_text, vec_cls)):
            k = rng.randint(0, len(text))
            if rng.random() < 0.4:
                text = text.lower()
            rec = CircularRecord(Seq(text[k:] + text[:k]), id="r")
            ent = cls(rec)

            def probe():
                return (
                    ent.is_valid(),
                    str(ent.overhang_start()),
                    str(ent.overhang_end()),
                    dump(ent.target_sequence()),
                    ent._match.span(0),
                )
            results.append((cutter.__name__, cls.__name__, k, attempt(probe)))

blob = repr(results).encode("utf-8")
print(len(results), hashlib.sha256(blob).hexdigest())
