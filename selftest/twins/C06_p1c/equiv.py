# coding: utf-8
"""Differential test for the C06 refactorings.

Exercises the structure / typing code (StructuredRecord, AbstractModule,
AbstractVector, AbstractPart, DNARegex, SeqMatch, AssemblyManager) on a few
hundred generated inputs and prints a digest of every result, exception
(type and message), warning and of the state of the inputs afterwards. The
digest must be the same before and after a behaviour-preserving change.
"""
import sys

sys.path.insert(0, "/tmp/agents5/C06")
import tests  # noqa: E402,F401

import hashlib  # noqa: E402
import re  # noqa: E402
import random  # noqa: E402
import warnings  # noqa: E402

from Bio import Restriction  # noqa: E402
from Bio.Restriction import BsaI, BsmBI, BpiI, BseRI, EcoRV, SapI  # noqa: E402
from Bio.Seq import Seq  # noqa: E402
from Bio.SeqFeature import SeqFeature, FeatureLocation, Reference  # noqa: E402
from Bio.SeqRecord import SeqRecord  # noqa: E402

from moclo import core  # noqa: E402
from moclo._utils import isabstract  # noqa: E402
from moclo.core import AbstractModule, AbstractPart, AbstractVector  # noqa: E402
from moclo.core import Cassette, CassetteVector, Entry, EntryVector, Product  # noqa: E402
from moclo.core._structured import StructuredRecord  # noqa: E402
from moclo.kits import cidar, ecoflex, moclo as moclo_kit, plant, ytk  # noqa: E402,F401
from moclo.record import CircularRecord  # noqa: E402
from moclo.regex import DNARegex, SeqMatch  # noqa: E402

LINES = []


def log(*items):
    LINES.append(repr(items))


def outcome(func, *args, **kwargs):
    """The result of a call, or the exception; with the warnings it issued."""
    with warnings.catch_warnings(record=True) as caught:
        warnings.simplefilter("always")
        try:
            value = ("ok", show(func(*args, **kwargs)))
        except Exception as err:  # noqa
            value = ("raise", type(err).__name__, re.sub(r"0x[0-9a-f]+", "0x", str(err)))
    issued = [
        (w.category.__name__, str(w.message))
        for w in caught
        if "pkg_resources" not in str(w.message)
    ]
    return value, issued


def show(value):
    if isinstance(value, SeqRecord):
        return record_state(value)
    if isinstance(value, Seq):
        return ("Seq", str(value))
    if isinstance(value, SeqMatch):
        return ("SeqMatch", value.start(), value.end(), value.shift)
    if isinstance(value, StructuredRecord):
        return ("entity", type(value).__name__)
    if isinstance(value, (list, tuple)):
        return [show(v) for v in value]
    return value


def feature_state(feature):
    return (
        feature.type,
        str(feature.location),
        sorted((k, show(v)) for k, v in feature.qualifiers.items()),
    )


def record_state(record):
    references = record.annotations.get("references", [])
    other = sorted(
        (k, repr(v)) for k, v in record.annotations.items() if k != "references"
    )
    return (
        type(record).__name__,
        str(record.seq),
        record.id,
        record.name,
        record.description,
        other,
        [(type(r).__name__, getattr(r, "title", r)) for r in references],
        [feature_state(f) for f in record.features],
    )


# --- classes ------------------------------------------------------------------


def _walk(cls):
    for sub in cls.__subclasses__():
        yield sub
        for subsub in _walk(sub):
            yield subsub


ALL = sorted(set(_walk(StructuredRecord)), key=lambda c: (c.__module__, c.__name__))
KIT = [c for c in ALL if c.__module__.startswith("moclo.kits.") and not isabstract(c)]


class BpiIModule(Cassette):
    cutter = BpiI


class BseRIModule(Entry):  # 3' overhangs
    cutter = BseRI


class BseRIVector(EntryVector):
    cutter = BseRI


class SapIProduct(Product):  # 3 nucleotides overhangs
    cutter = SapI


class SapIVector(CassetteVector):
    cutter = SapI


class BseRIPart(AbstractPart, Entry):
    cutter = BseRI
    signature = ("AC", "GT")


class BseRIVectorPart(AbstractPart, BseRIVector):
    cutter = BseRI
    signature = ("TT", "CA")


class SapIPart(AbstractPart, SapIProduct):
    cutter = SapI
    signature = ("ATG", "GGT")


class LowerPart(AbstractPart, Entry):
    cutter = BsaI
    signature = ("atgc", "ttca")


class OrphanPart(AbstractPart):
    cutter = BsaI
    signature = ("ATGC", "TTCA")


class UnsignedPart(AbstractPart, Entry):
    cutter = BsaI


class TripleSignaturePart(AbstractPart, Entry):
    cutter = BsaI
    signature = ("ATGC", "TTCA", "GGGG")


class BluntModule(Entry):
    cutter = EcoRV


class UnknownModule(Entry):
    cutter = Restriction.SnaI if hasattr(Restriction, "SnaI") else EcoRV


class YTKPart3Child(ytk.YTKPart3):
    signature = ("TATG", "GGCA")


class YTKPart3Twin(ytk.YTKPart3):
    pass


EXTRA = [
    BpiIModule, BseRIModule, BseRIVector, SapIProduct, SapIVector, BseRIPart,
    BseRIVectorPart, SapIPart, LowerPart, YTKPart3Child, YTKPart3Twin,
]
ODD = [OrphanPart, UnsignedPart, TripleSignaturePart, BluntModule, UnknownModule]


# --- records ------------------------------------------------------------------

IUPAC = {
    "A": "A", "C": "C", "G": "G", "T": "T", "N": "ACGT", "B": "CGT", "D": "AGT",
    "H": "ACT", "K": "GT", "M": "AC", "R": "AG", "S": "CG", "V": "ACG",
    "W": "AT", "Y": "CT",
}


def expand(pattern, rng, low=8, high=30):
    out, i = [], 0
    while i < len(pattern):
        letter = pattern[i]
        if letter in "()":
            i += 1
        elif pattern[i + 1 : i + 2] == "*":
            out.append("".join(rng.choice("ACGT") for _ in range(rng.randint(low, high))))
            i += 3 if pattern[i + 2 : i + 3] == "?" else 2
        else:
            out.append(rng.choice(IUPAC.get(letter.upper(), letter)))
            i += 1
    return "".join(out)


def mixed_case(text, rng):
    return "".join(c.lower() if rng.random() < 0.5 else c for c in text)


def annotate(record, rng):
    size = len(record)
    ref = Reference()
    ref.title = "reference of {}".format(record.id)
    record.annotations["references"] = [ref]
    for n in range(rng.randint(1, 3)):
        start = rng.randrange(size)
        end = rng.randint(start, size)
        quals = {"label": ["f{}".format(n)]}
        if rng.random() < 0.5:
            quals["citation"] = ["[1]"]
        record.features.append(
            SeqFeature(FeatureLocation(start, end), type="misc_feature", qualifiers=quals)
        )
    return record


def variants(cls, rng, number):
    """Records made after ``cls.structure()``, and spoiled in various ways."""
    pattern = cls.structure()
    for n in range(number):
        text = expand(pattern, rng) + expand("N*", rng, 5, 40)
        kind = rng.choice(
            ["plain", "plain", "rotated", "rotated", "lower", "mixed", "linear",
             "linear-rotated", "seqrecord", "extra-site", "broken", "short",
             "topology-case", "annotated"]
        )
        annotations = {}
        factory = CircularRecord
        if kind in ("rotated", "linear-rotated", "annotated"):
            shift = rng.randrange(1, len(text))
            text = text[shift:] + text[:shift]
        if kind == "lower":
            text = text.lower()
        if kind == "mixed":
            text = mixed_case(text, rng)
        if kind in ("linear", "linear-rotated"):
            annotations["topology"] = "linear"
            factory = SeqRecord
        if kind == "seqrecord":
            factory = SeqRecord
        if kind == "topology-case":
            annotations["topology"] = rng.choice(["Circular", "LINEAR", "circular"])
            factory = SeqRecord
        if kind == "extra-site":
            site = cls.cutter.site if rng.random() < 0.5 else str(Seq(cls.cutter.site).reverse_complement())
            at = rng.randrange(len(text))
            text = text[:at] + site + text[at:]
        if kind == "broken":
            at = rng.randrange(len(text))
            text = text[:at] + rng.choice("ACGT") * 2 + text[at + 2 :]
        if kind == "short":
            text = text[: rng.randint(1, 12)]
        name = "{}_{}_{}".format(cls.__name__, n, kind)
        record = factory(Seq(text), id=name, name=name, annotations=annotations)
        if kind == "annotated":
            annotate(record, rng)
        yield kind, record


def probe(cls, record):
    """Everything the typing API says about ``record`` as a ``cls``."""
    created, _ = outcome(cls, record)
    log("new", cls.__name__, record.id, created)
    if created[0] != "ok":
        return
    entity = cls(record)
    methods = ["is_valid", "overhang_start", "overhang_end", "target_sequence", "is_valid"]
    if isinstance(entity, AbstractVector):
        methods.insert(3, "placeholder_sequence")
    for method in methods:
        log(cls.__name__, record.id, method, outcome(lambda: getattr(entity, method)()))
    log("after", record_state(record), entity.record is record, entity.seq is record.seq)


# --- sections -----------------------------------------------------------------


def section_structures():
    for cls in ALL + EXTRA + ODD:
        log("structure", cls.__name__, outcome(cls.structure))
        log("abstract", cls.__name__, isabstract(cls))
    dummy = SeqRecord(Seq("ATGC"), id="dummy")
    for cls in ALL + ODD:
        if isabstract(cls) or cls in ODD:
            log("instantiate", cls.__name__, outcome(cls, dummy))
            log("characterize", cls.__name__, outcome(getattr(cls, "characterize", len), dummy))


def section_typing():
    rng = random.Random(60606)
    classes = KIT + EXTRA
    # generic classes first, then the typed ones (and the other way around below)
    ordered = sorted(classes, key=lambda c: len(c.__mro__))
    pool = []
    for cls in ordered:
        for kind, record in variants(cls, rng, 4):
            pool.append(record)
            probe(cls, record)
    log("pool", len(pool))
    # every class on records made for other classes
    for cls in reversed(ordered):
        for record in rng.sample(pool, 4):
            probe(cls, record)
    for cls in (LowerPart, OrphanPart, UnsignedPart, TripleSignaturePart):
        for record in rng.sample(pool, 3):
            probe(cls, record)
    # the same entity asked twice, a parent after / before its child
    for cls in (ytk.YTKEntry, ytk.YTKPart3, YTKPart3Child, YTKPart3Twin, ytk.YTKEntry):
        for record in pool[:40]:
            entity = cls(record)
            log("twice", cls.__name__, record.id, entity.is_valid(), entity.is_valid())
    # characterize
    for base in (ytk.YTKPart, cidar.CIDARPart, ecoflex.EcoFlexPart, moclo_kit.MoCloPart,
                 ytk.YTKPart3, YTKPart3Child, ytk.YTKPart8):
        for record in rng.sample(pool, 25):
            log("characterize", base.__name__, record.id, outcome(base.characterize, record))


def section_regex():
    rng = random.Random(6060)
    patterns = ["ATG", "NNN", "A(N*)T", "(GG)(N*?)(CC)", "RYKM(SW)BDHVN", "GGTCTCN(NNNN)",
                "(A)(C)?(G)", "atg", "N*", "(N*)GAATTC(N*)"]
    for pattern in patterns:
        regex = DNARegex(pattern)
        log("regex", pattern, regex.pattern, regex.regex.pattern, regex.regex.flags)
        for n in range(14):
            text = "".join(rng.choice("ACGT") for _ in range(rng.randint(1, 30)))
            if n % 4 == 0:
                text = mixed_case(text, rng)
            subject = rng.choice([
                Seq(text), SeqRecord(Seq(text), id="s"), CircularRecord(Seq(text), id="c"),
            ])
            kwargs = {}
            if rng.random() < 0.5:
                kwargs["linear"] = rng.random() < 0.5
            if rng.random() < 0.4:
                kwargs["pos"] = rng.randint(0, len(text) + 2)
            if rng.random() < 0.3:
                kwargs["endpos"] = rng.randint(0, len(text) + 2)
            with warnings.catch_warnings():
                warnings.simplefilter("ignore")
                try:
                    match = regex.search(subject, **kwargs)
                except Exception as err:  # noqa
                    log("search", pattern, text, sorted(kwargs.items()), type(err).__name__, str(err))
                    continue
            if match is None:
                log("search", pattern, type(subject).__name__, text, sorted(kwargs.items()), None)
                continue
            groups = []
            for index in range(match.match.re.groups + 1):
                groups.append((match.span(index), outcome(match.group, index)))
            log("search", pattern, type(subject).__name__, text, sorted(kwargs.items()),
                match.start(), match.end(), match.span(), match.shift,
                match.rec is subject, groups)
    for bad in ("ATGC", None, 12, b"ATGC", ["A"]):
        log("search-bad", repr(bad), outcome(DNARegex("ATG").search, bad))
    for bad in (None, 12, NotImplemented):
        log("regex-bad", repr(bad), outcome(DNARegex, bad))
    log("transcribe", DNARegex._transcribe("ABCDGHKMNRSTVWY*?()xz"))


def make_unit(cls, rng, up=None, down=None, size=(10, 30)):
    """A record for ``cls`` with chosen overhangs where the structure lets us."""
    pattern = cls.structure()
    parts = pattern.split("(NNNN)")
    if len(parts) == 3 and up is not None:
        first, second = (up, down) if issubclass(cls, AbstractModule) else (down, up)
        pattern = parts[0] + "(" + first + ")" + parts[1] + "(" + second + ")" + parts[2]
    text = expand(pattern, rng, *size) + expand("N*", rng, 10, 30)
    shift = rng.randrange(len(text))
    return text[shift:] + text[:shift]


def section_assembly():
    rng = random.Random(66)
    overhangs = ["AACG", "TATG", "ATCC", "GCTG", "TACA", "CCGA", "GGAG", "TTCG", "CAGA"]
    kits = [
        (ytk.YTKCassetteVector, ytk.YTKEntry),
        (cidar.CIDARCassetteVector, cidar.CIDAREntry),
        (moclo_kit.MoCloCassetteVector, moclo_kit.MoCloEntry),
        (ytk.YTKDeviceVector, ytk.YTKCassette),
        (ecoflex.EcoFlexCassetteVector, ecoflex.EcoFlexEntry),
        (SapIVector, SapIProduct),
    ]
    for n in range(60):
        vec_cls, mod_cls = rng.choice(kits)
        width = 3 if vec_cls is SapIVector else 4
        chain = [o[:width] for o in rng.sample(overhangs, rng.randint(2, 4))]
        scenario = rng.choice(["ok", "ok", "ok", "missing", "duplicate", "unused",
                               "lower", "same-ends", "illegal", "citations"])
        if vec_cls is SapIVector:
            vec_text = expand(vec_cls.structure().replace("(NNN)", "({})").format(chain[0], chain[-1]), rng)
            vec_text += expand("N*", rng, 10, 30)
        else:
            vec_text = make_unit(vec_cls, rng, up=chain[-1], down=chain[0])
        if scenario == "same-ends":
            vec_text = make_unit(vec_cls, rng, up=chain[0], down=chain[0]) if width == 4 else vec_text
        vector_record = CircularRecord(Seq(vec_text), id="vec{}".format(n), name="vec{}".format(n))
        module_records = []
        for k, (start, end) in enumerate(zip(chain, chain[1:])):
            if vec_cls is SapIVector:
                text = expand(mod_cls.structure().replace("(NNN)", "({})").format(start, end), rng)
                text += expand("N*", rng, 10, 30)
            else:
                text = make_unit(mod_cls, rng, up=start, down=end)
            if scenario == "lower" and k % 2 == 0:
                text = text.lower()
            if scenario == "illegal" and k == 0:
                text = text + mod_cls.cutter.site
            factory = CircularRecord if rng.random() < 0.92 else SeqRecord
            record = factory(Seq(text), id="mod{}_{}".format(n, k), name="mod{}_{}".format(n, k))
            if scenario == "citations" or rng.random() < 0.2:
                annotate(record, rng)
            module_records.append(record)
        if scenario == "citations":
            annotate(vector_record, rng)
        if scenario == "missing" and len(module_records) > 1:
            del module_records[rng.randrange(len(module_records))]
        if scenario == "duplicate":
            dup = module_records[0]
            module_records.append(CircularRecord(dup.seq, id=dup.id + "_dup", name="dup"))
        if scenario == "unused" and width == 4:
            module_records.append(
                CircularRecord(Seq(make_unit(mod_cls, rng, up="CTGA", down="GTCA")), id="unused{}".format(n), name="unused")
            )
        rng.shuffle(module_records)
        vector = vec_cls(vector_record)
        modules = [mod_cls(r) for r in module_records]
        kwargs = {} if n % 3 else {"id": "construct{}".format(n), "name": "c{}".format(n)}
        log("assembly", n, scenario, vec_cls.__name__, outcome(vector.assemble, *modules, **kwargs))
        log("assembly-inputs", n, [record_state(r) for r in [vector_record] + module_records])
        log("assembly-again", n, outcome(vector.is_valid), [outcome(m.is_valid) for m in modules],
            outcome(vector.placeholder_sequence), outcome(vector.target_sequence))


def main():
    with warnings.catch_warnings():
        warnings.simplefilter("ignore")
        section_structures()
        section_regex()
        section_typing()
        section_assembly()
    digest = hashlib.sha256("\n".join(LINES).encode("utf-8")).hexdigest()
    accepted = sum(1 for line in LINES if "'is_valid', (('ok', True)" in line)
    rejected = sum(1 for line in LINES if "'is_valid', (('ok', False)" in line)
    raised = sum(1 for line in LINES if "('raise'," in line)
    built = sum(1 for line in LINES if line.startswith("('assembly',") and "(('ok'," in line)
    print("lines: {}  is_valid True: {}  False: {}  lines with exceptions: {}  assemblies built: {}".format(
        len(LINES), accepted, rejected, raised, built))
    print("digest: {}".format(digest))
    if "--dump" in sys.argv:
        sys.stdout.write("\n".join(LINES) + "\n")


if __name__ == "__main__":
    main()
