# coding: utf-8
"""Differential test for the CircularRecord rotation / reverse complement code.

Prints a digest of every result, exception (type and message), warning,
aliasing pattern between result and input, and of the input state afterwards.
"""
import sys

sys.path.insert(0, "/tmp/agents6/C14")
import tests  # noqa: F401,E402

import collections  # noqa: E402
import hashlib  # noqa: E402
import random  # noqa: E402
import warnings  # noqa: E402

from Bio.Seq import Seq, MutableSeq  # noqa: E402
from Bio.SeqRecord import SeqRecord  # noqa: E402
from Bio.SeqFeature import (  # noqa: E402
    SeqFeature,
    FeatureLocation,
    CompoundLocation,
    ExactPosition,
    BeforePosition,
    AfterPosition,
    WithinPosition,
    BetweenPosition,
    OneOfPosition,
    UnknownPosition,
)

from moclo.record import CircularRecord  # noqa: E402

rng = random.Random(20140614)
LINES = []


def out(*args):
    LINES.append(" | ".join(str(a) for a in args))


class MyFeature(SeqFeature):
    pass


class MyLocation(FeatureLocation):
    pass


class MyRecord(CircularRecord):
    pass


# --- canonical dumps -----------------------------------------------------------


def dump_loc(loc):
    if loc is None:
        return "None"
    op = getattr(loc, "operator", "-")
    return "{}:{}:{!r}".format(type(loc).__name__, op, loc)


def dump_feature(f):
    return "{}({!r},{!r},{},{}:{!r})".format(
        type(f).__name__,
        f.type,
        f.id,
        dump_loc(f.location),
        type(f.qualifiers).__name__,
        list(f.qualifiers.items()) if hasattr(f.qualifiers, "items") else f.qualifiers,
    )


def dump_record(r):
    if not isinstance(r, SeqRecord):
        return "{}:{!r}".format(type(r).__name__, r)
    try:
        letters = sorted(r.letter_annotations.items())
    except Exception as e:  # pragma: no cover
        letters = repr(e)
    return "{}[{}:{!r}|{!r}|{!r}|{!r}|{!r}|{!r}|{!r}|{}]".format(
        type(r).__name__,
        type(r.seq).__name__,
        None if r.seq is None else str(r.seq),
        r.id,
        r.name,
        r.description,
        r.dbxrefs,
        sorted(r.annotations.items(), key=repr),
        letters,
        "; ".join(dump_feature(f) for f in r.features),
    )


def inner_ids(r):
    """ids of every mutable object reachable from the record."""
    ids = {}

    def add(tag, obj):
        ids.setdefault(id(obj), tag)

    add("features", r.features)
    add("annotations", r.annotations)
    add("dbxrefs", r.dbxrefs)
    for k, v in r.annotations.items():
        if not isinstance(v, (str, int, float, type(None))):
            add("annotation-value", v)
    try:
        for k, v in r.letter_annotations.items():
            if not isinstance(v, str):
                add("letters", v)
    except Exception:
        pass
    for i, f in enumerate(r.features):
        add("feature", f)
        if f.location is not None:
            add("location", f.location)
            for p in getattr(f.location, "parts", []):
                add("part", p)
        add("qualifiers", f.qualifiers)
        if hasattr(f.qualifiers, "values"):
            for v in f.qualifiers.values():
                if not isinstance(v, (str, int, float, type(None))):
                    add("qualifier-value", v)
    return ids


def aliasing(result, source):
    """Describe which mutable parts of `result` are shared with `source`,
    and which qualifier values are shared between features of `result`."""
    if not isinstance(result, SeqRecord):
        return "-"
    if result is source:
        return "same-object"
    src = inner_ids(source)
    shared = collections.Counter()
    for ident, tag in inner_ids(result).items():
        if ident in src:
            shared[tag + "=" + src[ident]] += 1
    within = collections.Counter()
    for f in result.features:
        if hasattr(f.qualifiers, "values"):
            for v in f.qualifiers.values():
                if not isinstance(v, (str, int, float, type(None))):
                    within[id(v)] += 1
    multi = sorted(c for c in within.values() if c > 1)
    return "shared={} within={}".format(sorted(shared.items()), multi)


def attempt(label, func, source=None):
    with warnings.catch_warnings(record=True) as caught:
        warnings.simplefilter("always")
        try:
            res = func()
        except Exception as e:
            out(label, "EXC", type(e).__name__, str(e))
            res = None
        else:
            if isinstance(res, SeqRecord):
                out(label, "OK", dump_record(res), aliasing(res, source) if source is not None else "")
            else:
                out(label, "OK", type(res).__name__, repr(res))
    for w in caught:
        out(label, "WARN", w.category.__name__, str(w.message))
    return res


# --- generators -------------------------------------------------------------------

LETTERS = "ACGT"
MIXED = "ACGTacgtNnRYk"


def rand_seq(n, alphabet):
    return "".join(rng.choice(alphabet) for _ in range(n))


def rand_pos(value):
    kind = rng.random()
    if kind < 0.72:
        return ExactPosition(value) if rng.random() < 0.5 else value
    if kind < 0.78:
        return BeforePosition(value)
    if kind < 0.84:
        return AfterPosition(value)
    if kind < 0.88:
        return WithinPosition(value, left=value, right=value + 2)
    if kind < 0.92:
        return BetweenPosition(value, left=value, right=value + 1)
    if kind < 0.96:
        return OneOfPosition(value, [ExactPosition(value), ExactPosition(value + 1)])
    return ExactPosition(value)


def rand_simple(n, strand=Ellipsis, exact=False):
    shape = rng.random()
    if n == 1 and 0.83 <= shape < 0.93:
        shape = 0.5
    if shape < 0.55:  # inside
        a = rng.randrange(0, n)
        b = rng.randrange(a, n + 1)
    elif shape < 0.75:  # extends past the end (earlier rotation)
        a = rng.randrange(0, n)
        b = rng.randrange(n, a + n + 1)
    elif shape < 0.83:  # entirely past the end
        a = rng.randrange(n, 2 * n)
        b = rng.randrange(a, a + n + 1)
    elif shape < 0.93:  # negative start (reverse complement of a wrapped location)
        a = rng.randrange(-n + 1, 0)
        b = rng.randrange(0, a + n + 1)
    else:  # whole sequence
        a, b = 0, n
    if strand is Ellipsis:
        strand = rng.choice([1, -1, 1, -1, 0, None])
    if exact:
        return FeatureLocation(a, b, strand)
    sa, sb = rand_pos(a), rand_pos(b)
    try:
        return FeatureLocation(sa, sb, strand)
    except ValueError:
        return FeatureLocation(a, b, strand)


def rand_location(n):
    kind = rng.random()
    if kind < 0.55:
        return rand_simple(n)
    if kind < 0.63:
        return rand_simple(n, exact=True)
    if kind < 0.70:  # compound, same strand
        strand = rng.choice([1, -1, None, 0])
        parts = [rand_simple(n, strand) for _ in range(rng.randrange(2, 4))]
        return CompoundLocation(parts, rng.choice(["join", "join", "order"]))
    if kind < 0.78:  # compound, mixed strands
        parts = [rand_simple(n) for _ in range(rng.randrange(2, 5))]
        return CompoundLocation(parts)
    if kind < 0.83:  # compound, no strand, over the origin
        a = rng.randrange(0, n)
        b = rng.randrange(1, n + 1)
        return CompoundLocation([FeatureLocation(a, n), FeatureLocation(0, b)])
    if kind < 0.87:  # external reference
        a = rng.randrange(0, 3 * n)
        return FeatureLocation(a, a + rng.randrange(0, n), rng.choice([1, -1, None]),
                               ref=rng.choice(["X1234.5", None]), ref_db=rng.choice(["GB", None, ""]) or None) \
            if rng.random() < 0.5 else FeatureLocation(a, a + 3, 1, ref="REF.1")
    if kind < 0.90:  # compound with an external reference part
        return CompoundLocation([rand_simple(n, 1), FeatureLocation(2 * n, 2 * n + 3, 1, ref="REF.2"), rand_simple(n, 1)])
    if kind < 0.92:
        return None
    if kind < 0.94:
        return FeatureLocation(UnknownPosition(), rng.randrange(0, n), 1)
    if kind < 0.96:
        a = rng.randrange(0, n)
        return MyLocation(a, rng.randrange(a, n + 1), -1)
    if kind < 0.98:  # empty ref (falsy but not None)
        a = rng.randrange(0, 2 * n)
        return FeatureLocation(a, a + 2, 1, ref="", ref_db="")
    return FeatureLocation(0, n, rng.choice([1, -1, None]))


SHARED_VALUE = ["shared", "value"]


def rand_features(n, plain_only=False):
    feats = []
    shared_quals = {"note": ["same dict"]}
    count = rng.choice([0, 1, 2, 3, 5, 8])
    for i in range(count):
        if plain_only:
            loc = rand_simple(n, exact=rng.random() < 0.7)
            if rng.random() < 0.3:
                loc = CompoundLocation([rand_simple(n, exact=True) for _ in range(rng.randrange(2, 4))],
                                       rng.choice(["join", "order"]))
        else:
            loc = rand_location(n)
        kind = rng.choice(["CDS", "gene", "misc_feature", "source", "promoter"])
        if loc is not None and rng.random() < 0.12:
            kind = "source"
            if rng.random() < 0.6:
                loc = FeatureLocation(0, n, rng.choice([1, None, -1]))
        q = rng.random()
        if q < 0.5:
            quals = {"label": ["f{}".format(i)], "n": i}
        elif q < 0.6:
            quals = collections.OrderedDict([("z", ["last"]), ("label", ["f{}".format(i)]), ("a", "first")])
        elif q < 0.72:
            quals = {"label": ["f{}".format(i)], "common": SHARED_VALUE, "nested": [["x"], {"y": [1]}]}
        elif q < 0.8:
            quals = shared_quals
        elif q < 0.9:
            quals = {}
        else:
            quals = None
        cls = MyFeature if (not plain_only and rng.random() < 0.05) else SeqFeature
        f = cls(loc, type=kind, id="id{}".format(i) if rng.random() < 0.5 else "<unknown id>", qualifiers=quals)
        if q >= 0.6 and q < 0.72:
            f.qualifiers["common"] = SHARED_VALUE  # keep the very same list object
        if quals is shared_quals and rng.random() < 0.5:
            f.qualifiers = shared_quals  # the very same dict object in several features
        feats.append(f)
    return feats


def rand_record(i):
    n = rng.choice([1, 2, 3, 5, 8, 12, 13, 21, 40])
    alphabet = rng.choice([LETTERS, LETTERS, MIXED, "ACGUacgu"])
    data = rand_seq(n, alphabet)
    seq = MutableSeq(data) if rng.random() < 0.06 else Seq(data)
    ann = rng.random()
    if ann < 0.3:
        annotations = None
    elif ann < 0.55:
        annotations = {"topology": rng.choice(["circular", "Circular", "CIRCULAR"]), "molecule_type": "DNA",
                       "references": [["ref", i]]}
    elif ann < 0.65:
        annotations = {"molecule_type": rng.choice(["RNA", "mRNA", "ss-RNA"])}
    elif ann < 0.7:
        annotations = {"molecule_type": "protein"}
    elif ann < 0.8:
        annotations = {"topology": "circular", "organism": "synthetic", "taxonomy": ["a", "b"]}
    else:
        annotations = {}
    letter = None
    if rng.random() < 0.3:
        letter = {"phred_quality": [rng.randrange(0, 40) for _ in range(n)]}
        if rng.random() < 0.5:
            letter["mask"] = rand_seq(n, "01")
    feats = rand_features(n, plain_only=rng.random() < 0.45)
    kwargs = dict(id="rec{}".format(i), name="name{}".format(i), description="record #{}".format(i),
                  dbxrefs=rng.choice([None, [], ["db:1", "db:2"]]), features=feats,
                  annotations=annotations, letter_annotations=letter)
    cls = MyRecord if rng.random() < 0.1 else CircularRecord
    return cls(seq, **kwargs)


RC_KWARGS = [
    {},
    {},
    {"id": True, "name": True, "description": True, "annotations": True, "dbxrefs": True},
    {"id": "rc-id", "name": "rc-name", "description": "rc description"},
    {"features": False},
    {"features": 1},
    {"features": []},
    {"annotations": {"topology": "linear"}},
    {"annotations": {"topology": "circular", "deep": [[1], [2]]}},
    {"letter_annotations": False},
    {"letter_annotations": {"bad": "x"}},
    {"dbxrefs": ["user:1"], "annotations": True},
]


def needles(r):
    data = "" if r.seq is None else str(r.seq)
    n = len(data)
    yield ""
    yield data
    yield data + data[:1]
    if n:
        k = rng.randrange(0, n)
        yield (data * 2)[k:k + n]
        yield (data * 2)[k:k + max(1, n // 2)]
        yield (data * 2)[n - 1:n + 1]
        yield data[-1] + data
        yield data.lower()
        yield "".join(rng.choice("ACGT") for _ in range(rng.randrange(1, n + 2)))


def exercise(i, r):
    tag = "#{}".format(i)
    before = dump_record(r)
    out(tag, "INPUT", before)
    n = len(r.seq)

    kwargs = RC_KWARGS[i % len(RC_KWARGS)]
    rc = attempt(tag + " rc{}".format(sorted(kwargs.items(), key=repr)), lambda: r.reverse_complement(**kwargs), r)
    rc0 = attempt(tag + " rc()", lambda: r.reverse_complement(), r) if kwargs else rc
    if rc0 is not None:
        attempt(tag + " rc.rc", lambda: rc0.reverse_complement(), rc0)
    ks = [0, 1, n - 1, n, n + 2, -1, -n - 3, rng.randrange(0, 3 * n + 1), 7]
    for k in ks[: 4 + i % 6]:
        right = attempt(tag + " >>{}".format(k), lambda: r >> k, r)
        left = attempt(tag + " <<{}".format(k), lambda: r << k, r)
        if right is not None and k in (1, ks[7]):
            attempt(tag + " rc(>>{})".format(k), lambda: right.reverse_complement(), right)
            attempt(tag + " >>{}>>{}".format(k, k + 1), lambda: right >> (k + 1), right)
        if rc0 is not None and k in (1, ks[7]):
            back = attempt(tag + " rc<<{}".format(k), lambda: rc0 << k, rc0)
            if back is not None:
                attempt(tag + " rc<<{}.rc".format(k), lambda: back.reverse_complement(), back)
        if left is not None and k == ks[7]:
            attempt(tag + " rc(<<{})".format(k), lambda: left.reverse_complement(annotations=True), left)
    for needle in needles(r):
        attempt(tag + " in:{}".format(needle), lambda: needle in r)
    attempt(tag + " in:Seq", lambda: Seq("A") in r)
    attempt(tag + " in:long-Seq", lambda: Seq("A" * (n + 1)) in r)
    attempt(tag + " in:int", lambda: 3 in r)
    attempt(tag + " [1:]", lambda: r[1:], r)
    attempt(tag + " [0]", lambda: r[0])
    attempt(tag + " +", lambda: r + r)
    attempt(tag + " radd", lambda: "ACGT" + r)
    attempt(tag + " >>str", lambda: r >> "2")
    attempt(tag + " <<str", lambda: r << "2")
    attempt(tag + " >>float", lambda: r >> 1.5)
    attempt(tag + " copy", lambda: type(r)(r), r)
    after = dump_record(r)
    out(tag, "UNCHANGED" if after == before else "CHANGED " + after)


def main():
    for i in range(320):
        try:
            r = rand_record(i)
        except Exception as e:
            out("#{}".format(i), "BUILD-EXC", type(e).__name__, str(e))
            continue
        exercise(i, r)

    # special cases
    attempt("empty >>", lambda: CircularRecord(Seq(""), id="e") >> 1)
    attempt("empty <<", lambda: CircularRecord(Seq(""), id="e") << 1)
    attempt("empty rc", lambda: CircularRecord(Seq(""), id="e").reverse_complement())
    attempt("none rc", lambda: CircularRecord(None, id="e").reverse_complement())
    attempt("linear", lambda: CircularRecord(SeqRecord(Seq("ACGT"), annotations={"topology": "linear"})))
    plain = SeqRecord(Seq("ATGCCGTA"), id="plain", features=[SeqFeature(FeatureLocation(1, 4, 1), type="CDS")])
    attempt("from SeqRecord", lambda: CircularRecord(plain), plain)
    attempt("from SeqRecord rc", lambda: CircularRecord(plain).reverse_complement(id=True))
    bad = CircularRecord(Seq("ATGCCGTA"), id="bad", features=[SeqFeature(FeatureLocation(1, 4, 1), type="CDS")])
    bad.features[0].qualifiers = None
    attempt("qualifiers None rc", lambda: bad.reverse_complement())
    attempt("qualifiers None >>", lambda: bad >> 2)
    odd = CircularRecord(Seq("ATGCCGTA"), id="odd", features=[
        SeqFeature(CompoundLocation([FeatureLocation(1, 4, 1), FeatureLocation(5, 7, 1)]), type="CDS")])
    odd.features[0].location.parts.pop()
    attempt("one-part compound rc", lambda: odd.reverse_complement())
    attempt("one-part compound >>", lambda: odd >> 2)

    # the public face of the class
    import copy
    import inspect
    import pickle

    for name in ["__init__", "__add__", "__radd__", "__contains__", "__getitem__",
                 "reverse_complement", "__lshift__", "__rshift__"]:
        method = getattr(CircularRecord, name)
        out("method", name, method.__name__, str(inspect.signature(method)), inspect.getdoc(method))
        out("method", name, "same in subclass", getattr(MyRecord, name) is method)
    out("class", issubclass(CircularRecord, SeqRecord), CircularRecord.__name__, CircularRecord.__module__,
        inspect.getdoc(CircularRecord))
    sample = MyRecord(Seq("ATGCCGTAAC"), id="sample", annotations={"topology": "circular"},
                      features=[SeqFeature(FeatureLocation(7, 12, -1), type="CDS", qualifiers={"label": ["x"]})])
    attempt("deepcopy", lambda: copy.deepcopy(sample), sample)
    attempt("copy", lambda: copy.copy(sample), sample)
    attempt("pickle", lambda: pickle.loads(pickle.dumps(CircularRecord(sample))), sample)
    attempt("subclass rc", lambda: sample.reverse_complement(), sample)
    attempt("subclass rc >>", lambda: sample.reverse_complement() >> 3, sample)
    attempt("unbound rc", lambda: CircularRecord.reverse_complement(sample, id=True), sample)
    attempt("unbound >>", lambda: CircularRecord.__rshift__(sample, 4), sample)
    attempt("unbound <<", lambda: CircularRecord.__lshift__(sample, 4), sample)
    attempt("unbound in", lambda: CircularRecord.__contains__(sample, "ACAT"))
    attempt("unbound []", lambda: CircularRecord.__getitem__(sample, slice(2, 6)), sample)
    attempt("unbound +", lambda: CircularRecord.__add__(sample, sample))
    attempt("sum", lambda: sum([sample, sample]))
    attempt("+=", lambda: sample.__iadd__(sample) if hasattr(sample, "__iadd__") else "no __iadd__")

    text = "\n".join(LINES)
    kinds = collections.Counter(line.split(" | ")[1] if " | " in line else "?" for line in LINES)
    print("lines:", len(LINES), dict(sorted(kinds.items())))
    print("digest:", hashlib.sha256(text.encode("utf-8")).hexdigest())
    if len(sys.argv) > 1:
        with open(sys.argv[1], "w") as f:
            f.write(text + "\n")


if __name__ == "__main__":
    main()
