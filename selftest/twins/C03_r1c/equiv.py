"""Differential test for the assembly code path (existing API only).

Prints a digest of every result / exception (type, message, attributes,
context) / warning / input state afterwards over a few hundred generated
assemblies. The digest must not change under a behaviour-preserving change.
"""
import sys

sys.path.insert(0, "/tmp/agents7/C03")
import tests  # noqa: F401,E402

import hashlib  # noqa: E402
import random  # noqa: E402
import re  # noqa: E402
import warnings  # noqa: E402

from Bio.Seq import Seq  # noqa: E402
from Bio.SeqRecord import SeqRecord  # noqa: E402
from Bio.SeqFeature import SeqFeature, FeatureLocation, Reference  # noqa: E402
from Bio.Restriction import BpiI, BsaI, BsmBI  # noqa: E402

from moclo import errors  # noqa: E402
from moclo.record import CircularRecord  # noqa: E402
from moclo.core.vectors import AbstractVector, EntryVector  # noqa: E402
from moclo.core.modules import AbstractModule, Product  # noqa: E402
from moclo.core._assembly import AssemblyManager  # noqa: E402

lines = []


def emit(*parts):
    lines.append(re.sub(r"0x[0-9a-f]+", "0x?", " | ".join(str(p) for p in parts)))


SITES = {
    "BpiI": (BpiI, "GAAGACTT", "TTGTCTTC"),
    "BsaI": (BsaI, "GGTCTCT", "AGAGACC"),
    "BsmBI": (BsmBI, "CGTCTCT", "AGAGACG"),
}
CLASSES = {}
for _name, (_enz, _l, _r) in SITES.items():
    CLASSES[_name] = (
        type(str("V" + _name), (AbstractVector,), {"cutter": _enz}),
        type(str("M" + _name), (AbstractModule,), {"cutter": _enz}),
    )

ALPHABET = ["ATGC", "GCAT", "ACGT", "CCTA", "GGAG", "AAAC", "TTCC", "TAGG", "TCAA", "AATT"]
SAFE = ["ATGC", "CCTA", "GGAG", "AAAC", "TTCC", "TCAA", "CGTT"]
FILLS = ["CACA", "TATATA", "CTCTC", "TGTG", "AACCAA", "CCAAC", "ACACAC", "TCTC", "AGAGTT", "CATCAT"]


def recase(rng, s, mode):
    if mode == 0:
        return s.upper()
    if mode == 1:
        return s.lower()
    return "".join(c.lower() if rng.random() < 0.5 else c.upper() for c in s)


def reference(title):
    ref = Reference()
    ref.title = title
    ref.authors = "Doe J."
    return ref


def decorate(rng, rec, tag):
    """Add a feature carrying citations, and the references it points to."""
    n = rng.randint(1, 3)
    refs = [reference("%s ref %d" % (tag, i)) for i in range(n)]
    if rng.random() < 0.3:
        refs.append(reference("shared reference"))
    rec.annotations["references"] = refs
    a = rng.randrange(0, len(rec) - 3)
    cites = ["[%d]" % rng.randint(1, len(refs)) for _ in range(rng.randint(1, 2))]
    rec.features.append(
        SeqFeature(FeatureLocation(a, a + 3, 1), type="misc_feature", qualifiers={"citation": cites, "label": [tag]})
    )
    whole = FeatureLocation(0, len(rec), 1)
    rec.features.append(SeqFeature(whole, type="source", qualifiers={"organism": ["x"]}))


def build(rng, kind, seq, name, plain=False, annotated=False, rotate=0, topology=None):
    seq = seq[rotate % len(seq):] + seq[: rotate % len(seq)]
    if plain:
        rec = SeqRecord(Seq(seq), id=name, name=name)
        if topology is not None:
            rec.annotations["topology"] = topology
    else:
        rec = CircularRecord(Seq(seq), id=name, name=name)
    if annotated:
        decorate(rng, rec, name)
    return rec


def state(rec):
    feats = []
    for f in rec.features:
        quals = sorted((k, [getattr(x, "title", x) for x in v] if isinstance(v, list) else v) for k, v in f.qualifiers.items())
        feats.append((f.type, str(f.location), quals))
    ants = sorted(
        (k, [getattr(x, "title", x) for x in v] if isinstance(v, list) else v) for k, v in rec.annotations.items()
    )
    return (type(rec).__name__, rec.id, rec.name, str(rec.seq), feats, ants)


def describe_exc(e):
    attrs = []
    # attributes that exist today (a feature may add more, never change these)
    for k in ("details", "duplicates", "exc", "remaining", "sequence", "start_overhang"):
        if k not in vars(e):
            continue
        v = getattr(e, k)
        if k in ("duplicates", "remaining"):
            v = [m.record.id for m in v]
        elif k == "sequence":
            v = getattr(getattr(v, "record", v), "id", None) or str(v)
        elif k == "start_overhang":
            v = (type(v).__name__, str(v))
        attrs.append((k, v))
    return (
        type(e).__name__,
        str(e),
        e.args if not isinstance(e, errors.MocloError) else len(e.args),
        attrs,
        type(e.__context__).__name__,
        type(e.__cause__).__name__,
        e.__suppress_context__,
    )


def attempt(label, func, inputs):
    with warnings.catch_warnings(record=True) as caught:
        warnings.simplefilter("always")
        try:
            out = func()
        except Exception as e:  # noqa
            emit(label, "raised", describe_exc(e))
            out = None
        else:
            if isinstance(out, SeqRecord):
                emit(label, "returned", state(out))
            else:
                emit(label, "returned", repr(out))
    for w in caught:
        if "pkg_resources" in str(w.message):
            continue
        m = w.message
        extra = [r.record.id for r in m.remaining] if isinstance(m, errors.UnusedModules) else None
        emit(label, "warning", w.category.__name__, str(m), extra, w.filename.rsplit("/", 1)[-1])
    for rec in inputs:
        emit(label, "input", state(rec))
    return out


def scenario(rng, i):
    enz = rng.choice(list(SITES))
    _, left, right = SITES[enz]
    V, M = CLASSES[enz]
    case_mode = rng.choice([0, 0, 0, 1, 2])
    k = rng.randint(1, 5)
    alphabet = rng.sample(ALPHABET, rng.randint(3, len(ALPHABET)))
    path = [rng.choice(alphabet) for _ in range(k + 1)]
    shape = rng.choice(["chain"] * 6 + ["random", "random", "closed", "dupe", "revcomp"])
    mods = []
    if shape in ("chain", "closed", "dupe", "revcomp"):
        path = rng.sample(SAFE, k + 1)
        mods = list(zip(path[:-1], path[1:]))
        vec_end, vec_start = path[0], path[-1]
        if shape == "closed":
            vec_start = vec_end
        if shape == "dupe" and mods:
            mods.append((rng.choice(mods)[0], rng.choice(alphabet)))
        if shape == "revcomp" and mods:
            mods.append((str(Seq(rng.choice(mods)[0]).reverse_complement()), rng.choice(alphabet)))
        if rng.random() < 0.3 and mods:
            mods.pop(rng.randrange(len(mods)))
        if rng.random() < 0.4:
            mods.append((rng.choice(sorted(set(SAFE) - set(path))), rng.choice(ALPHABET)))
    else:
        vec_end, vec_start = rng.choice(alphabet), rng.choice(alphabet)
        mods = [(rng.choice(alphabet), rng.choice(alphabet)) for _ in range(k)]
    if not mods:
        mods = [(vec_end, vec_start)]
    rng.shuffle(mods)
    recs, objs = [], []
    for j, (s, e) in enumerate(mods):
        seq = recase(rng, left + s + FILLS[(i + j) % len(FILLS)] + e + right, case_mode)
        rec = build(
            rng, enz, seq, "mod%d_%d" % (i, j),
            plain=rng.random() < 0.06,
            annotated=rng.random() < 0.4,
            rotate=rng.choice([0, 0, 3, 9, len(seq) - 5, len(seq) - 2]),
            topology=rng.choice([None, "circular", "Circular", "linear"]),
        )
        recs.append(rec)
        objs.append(M(rec))
    vseq = recase(rng, "CC" + vec_end + right + "CACATT" + left + vec_start + "GGTA", case_mode)
    vrec = build(rng, enz, vseq, "vec%d" % i, annotated=rng.random() < 0.5, rotate=rng.choice([0, 0, 2, 11, len(vseq) - 4]))
    recs.append(vrec)
    vec = V(vrec)
    kwargs = rng.choice([{}, {}, {"name": "n%d" % i}, {"id": "i%d" % i, "name": "nm"}, {"id": "x", "ignored": 1}])
    label = "S%03d %s %s %s..%s %s" % (i, enz, shape, vec_end, vec_start, mods)
    attempt(label, lambda: vec.assemble(*objs, **kwargs), recs)
    if i % 7 == 0:  # again on the same objects: nothing must have been left behind
        attempt(label + " again", lambda: vec.assemble(*reversed(objs)), recs)
    if i % 11 == 0:
        emit(label, "valid", [o.is_valid() for o in objs], vec.is_valid())
        emit(label, "overhangs", [(str(o.overhang_start()), str(o.overhang_end())) for o in objs if o.is_valid()])


def direct():
    V, M = CLASSES["BpiI"]
    a = M(CircularRecord(Seq("GAAGACTTATGCCACACGTATTGTCTTC"), "a"))
    b = M(CircularRecord(Seq("GAAGACTTCGTATATAGGAGTTGTCTTC"), "b"))
    c = M(CircularRecord(Seq("GAAGACTTAAAACACACCCCTTGTCTTC"), "c"))
    vec = V(CircularRecord(Seq("CCATGCTTGTCTTCCACAGAAGACTTGGAGGG"), "v"))
    bad = V(CircularRecord(Seq("CCATGCTTGTCTTCCACAGAAGACTTATGCGG"), "bad"))
    lst = [b, c, a]
    mgr = AssemblyManager(vec, lst)
    emit("mgr", mgr.modules is lst, [e.record.id for e in mgr.elements], mgr.id, mgr.name)
    emit("mgr map", [(type(k).__name__, str(k), v.record.id) for k, v in mgr._generate_modules_map().items()])
    attempt("mgr assemble", mgr.assemble, [m.record for m in lst])
    attempt("mgr assemble twice", mgr.assemble, [m.record for m in lst])
    attempt("mgr positional", lambda: AssemblyManager(vec, [a, b], "the-id", "the-name").assemble(), [])
    attempt("mgr bad", lambda: AssemblyManager(bad, [a]), [])
    attempt("mgr walk", lambda: AssemblyManager(vec, [a])._generate_assembly({}), [])
    attempt("no modules", lambda: vec.assemble(), [])
    attempt("not a module", lambda: vec.assemble("ATGC"), [])
    with warnings.catch_warnings():
        warnings.simplefilter("error", errors.UnusedModules)
        attempt("unused as error", lambda: vec.assemble(a, b, c), [m.record for m in lst])
    attempt("abstract", lambda: AbstractVector(vec.record), [])
    attempt("entry", lambda: EntryVector(vec.record), [])
    attempt("product", lambda: Product(vec.record), [])
    for cls, args, kw in [
        (errors.InvalidSequence, ("ATGC",), {}),
        (errors.InvalidSequence, ("ATGC",), {"details": "some details"}),
        (errors.InvalidSequence, ("ATGC", ValueError("x"), "positional details"), {}),
        (errors.IllegalSite, (Seq("ATGC"),), {}),
        (errors.IllegalSite, (Seq("ATGC"),), {"details": "d"}),
        (errors.DuplicateModules, (a, b), {}),
        (errors.DuplicateModules, (a, b, c), {"details": "why", "other": 1}),
        (errors.DuplicateModules, (), {}),
        (errors.MissingModule, ("ATGC",), {}),
        (errors.MissingModule, (Seq("atgc"),), {"details": "where", "other": 2}),
        (errors.UnusedModules, (a,), {}),
        (errors.UnusedModules, (a, c), {"details": 12, "other": 3}),
    ]:
        e = cls(*args, **kw)
        emit("error", cls.__name__, [b_.__name__ for b_ in cls.__mro__ if b_.__module__ == "moclo.errors"], describe_exc(e), repr(e.args))


rng = random.Random(20240603)
for i in range(420):
    scenario(rng, i)
direct()

digest = hashlib.sha256("\n".join(lines).encode()).hexdigest()
kinds = {}
for l in lines:
    parts = l.split(" | ")
    key = parts[1] if len(parts) > 1 else "?"
    if key == "raised":
        key += " " + parts[2].split("'")[1]
    kinds[key] = kinds.get(key, 0) + 1
print("records:", len(lines))
for k in sorted(kinds):
    print("  %-32s %d" % (k, kinds[k]))
print("digest:", digest)
if "--dump" in sys.argv:
    print("\n".join(lines))
