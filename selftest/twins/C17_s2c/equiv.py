# coding: utf-8
"""Differential test: prints a digest of the observable behaviour of the
validation / assembly code of moclo on generated inputs.

Run as:  cd /tmp/agents8/C17 && /venv/bin/python pairs_out/C17_s?/equiv.py [--dump FILE]
"""
import sys

sys.path.insert(0, "/tmp/agents8/C17")
import tests  # noqa: F401,E402  (splices the kits into the moclo namespace)

import copy  # noqa: E402
import hashlib  # noqa: E402
import importlib  # noqa: E402
import random  # noqa: E402
import re  # noqa: E402
import warnings  # noqa: E402

from Bio import Restriction  # noqa: E402
from Bio.Seq import Seq  # noqa: E402
from Bio.SeqFeature import SeqFeature, FeatureLocation, Reference  # noqa: E402
from Bio.SeqRecord import SeqRecord  # noqa: E402

from moclo import errors  # noqa: E402
from moclo.record import CircularRecord  # noqa: E402
from moclo.regex import DNARegex  # noqa: E402
from moclo.core import modules, vectors, parts  # noqa: E402
from moclo.core._structured import StructuredRecord  # noqa: E402

warnings.simplefilter("ignore", DeprecationWarning)

LINES = []
_ADDR = re.compile(r"0x[0-9a-fA-F]+")


def emit(*fields):
    line = " | ".join(str(f) for f in fields).replace("\n", "\\n")
    LINES.append(_ADDR.sub("0x?", line))


def exc_repr(exc):
    return "!{}: {}".format(type(exc).__name__, exc)


def call(func, *args, **kwargs):
    """Call and describe the result or the exception (and the warnings)."""
    with warnings.catch_warnings(record=True) as caught:
        warnings.simplefilter("always")
        try:
            res = describe(func(*args, **kwargs))
        except Exception as exc:  # noqa
            res = exc_repr(exc)
    warns = [
        "{}:{}".format(type(w.message).__name__, w.message)
        for w in caught
        if not issubclass(w.category, DeprecationWarning)
    ]
    if warns:
        res += " ~warnings=" + ";".join(warns)
    return res


def describe_feature(feat):
    quals = []
    for k in sorted(feat.qualifiers):
        v = feat.qualifiers[k]
        if isinstance(v, list):
            v = [describe_ref(x) for x in v]
        quals.append("{}={}".format(k, v))
    return "{}@{}{{{}}}".format(feat.type, feat.location, ",".join(quals))


def describe_ref(ref):
    if isinstance(ref, Reference):
        return "<Ref {}>".format(ref.title)
    return ref


def describe_annotations(ants):
    out = []
    for k in sorted(ants):
        v = ants[k]
        if k == "references":
            v = [describe_ref(x) for x in v]
        out.append("{}={}".format(k, v))
    return "{" + ", ".join(out) + "}"


def describe(obj):
    if isinstance(obj, SeqRecord):
        return "{}({} id={} name={} feats=[{}] ants={})".format(
            type(obj).__name__,
            obj.seq,
            obj.id,
            obj.name,
            "; ".join(describe_feature(f) for f in obj.features),
            describe_annotations(obj.annotations),
        )
    if isinstance(obj, Seq):
        return "Seq({})".format(obj)
    if isinstance(obj, StructuredRecord):
        return "<{} of {}>".format(type(obj).__name__, obj.record.id)
    return repr(obj)


# --- class inventory --------------------------------------------------------

KITS = ["ytk", "cidar", "ecoflex", "moclo", "plant"]
CORE_PUBLIC = [
    StructuredRecord,
    modules.AbstractModule,
    modules.Product,
    modules.Entry,
    modules.Cassette,
    modules.Device,
    vectors.AbstractVector,
    vectors.EntryVector,
    vectors.CassetteVector,
    vectors.DeviceVector,
    parts.AbstractPart,
]


def kit_classes():
    found = []
    for kit in KITS:
        mod = importlib.import_module("moclo.kits." + kit)
        for name in sorted(vars(mod)):
            obj = getattr(mod, name)
            if (
                isinstance(obj, type)
                and issubclass(obj, StructuredRecord)
                and obj.__module__ == mod.__name__
            ):
                found.append(obj)
    return found


KIT_CLASSES = kit_classes()
ALL_PUBLIC = CORE_PUBLIC + KIT_CLASSES


EXPECTED_NAMES = {
    "moclo.core": [
        "AbstractModule", "AbstractPart", "AbstractVector", "Cassette", "CassetteVector",
        "Device", "DeviceVector", "Entry", "EntryVector", "Product", "modules", "parts", "vectors",
    ],
    "moclo.core.modules": [
        "AbstractModule", "Cassette", "Device", "Entry", "Product", "Seq", "StructuredRecord",
        "add_as_source", "cached_property", "cutter_check", "errors", "typing",
    ],
    "moclo.core.vectors": [
        "AbstractVector", "AssemblyManager", "CassetteVector", "DeviceVector", "EntryVector", "Seq",
        "StructuredRecord", "add_as_source", "cached_property", "cutter_check", "errors", "typing",
    ],
    "moclo.core.parts": [
        "AbstractModule", "AbstractPart", "AbstractVector", "Seq", "StructuredRecord",
        "cutter_check", "isabstract", "typing",
    ],
    "moclo.core._structured": ["StructuredRecord", "DNARegex", "cached_property", "errors"],
    "moclo.core._utils": ["cutter_check", "add_as_source", "SeqFeature", "FeatureLocation"],
    "moclo.core._assembly": [
        "AssemblyManager", "CircularRecord", "catch_warnings", "errors", "BiopythonWarning",
        "Seq", "SeqRecord", "re", "six", "warnings",
    ],
    "moclo.regex": ["DNARegex", "SeqMatch", "CircularRecord"],
    "moclo.errors": [
        "MocloError", "InvalidSequence", "IllegalSite", "AssemblyError", "DuplicateModules",
        "MissingModule", "AssemblyWarning", "UnusedModules",
    ],
    "moclo.registry.base": [
        "Item", "AbstractRegistry", "CombinedRegistry", "EmbeddedRegistry", "FilesystemRegistry",
        "find_resistance",
    ],
    "moclo.registry._utils": ["find_resistance", "isabstract"],
}


def is_concrete(cls):
    try:
        cls(CircularRecord(Seq("A"), id="probe")).is_valid()
    except (NotImplementedError, TypeError, RuntimeError):
        return False
    return True


def inventory():
    for cls in ALL_PUBLIC:
        rel = "".join("1" if issubclass(cls, other) else "0" for other in ALL_PUBLIC)
        try:
            structure = cls.structure()
        except Exception as exc:  # noqa
            structure = exc_repr(exc)
        emit(
            "class",
            cls.__module__,
            cls.__name__,
            rel,
            getattr(cls, "cutter", None),
            getattr(cls, "signature", None),
            getattr(cls, "_level", "-"),
            structure,
            (cls.__doc__ or "").strip()[:40],
        )
    for name in sorted(vars(errors)):
        obj = getattr(errors, name)
        if isinstance(obj, type) and issubclass(obj, BaseException):
            emit("error-class", name, [b.__name__ for b in obj.__mro__])
    # every name that can be imported today must stay importable
    for modname, names in sorted(EXPECTED_NAMES.items()):
        mod = importlib.import_module(modname)
        emit("names", modname, [(n, hasattr(mod, n)) for n in names])


# --- record generation ------------------------------------------------------

IUPAC = {
    "A": "A", "C": "C", "G": "G", "T": "T",
    "B": "CGT", "D": "AGT", "H": "ACT", "K": "GT", "M": "AC", "N": "ACGT",
    "R": "AG", "S": "CG", "V": "ACG", "W": "AT", "Y": "CT",
}
ALPHABET = "ACGTBDHKMNRSVWY"
_TOKEN = re.compile(r"\(|\)|N\*\??|[A-Z]")


def instantiate(pattern, rng, fill=8, groups=None):
    """Build a sequence matching the pattern; returns (sequence, group spans).

    ``groups`` maps a capture group index to a literal to use when the group
    consists only of N letters of the same length.
    """
    groups = groups or {}
    out = []
    spans = {}
    stack = []
    index = 0
    pos = 0
    tokens = _TOKEN.findall(pattern)
    # pre-compute group contents for overrides
    i = 0
    while i < len(tokens):
        tok = tokens[i]
        if tok == "(":
            index += 1
            stack.append((index, pos))
            j = tokens.index(")", i)
            inner = tokens[i + 1 : j]
            lit = groups.get(index)
            if lit is not None and all(t == "N" for t in inner) and len(inner) == len(lit):
                out.append(lit)
                pos += len(lit)
                i = j
                continue
        elif tok == ")":
            idx, start = stack.pop()
            spans[idx] = (start, pos)
        elif tok.startswith("N*"):
            s = "".join(rng.choice("AT") for _ in range(fill))
            out.append(s)
            pos += len(s)
        else:
            # keep clear of G/C for free positions so that no site is created
            choices = IUPAC[tok]
            if tok == "N":
                choices = "AT"
            out.append(rng.choice(choices))
            pos += 1
        i += 1
    return "".join(out), spans


def circular(seq, id_="rec", **ants):
    rec = CircularRecord(Seq(seq), id=id_, name=id_)
    rec.annotations.update(ants)
    return rec


def mixed_case(seq, rng):
    return "".join(c.lower() if rng.random() < 0.5 else c for c in seq)


def variants(cls, rng):
    """Yield (label, record) inputs for a class."""
    try:
        pattern = cls.structure()
    except Exception:  # noqa
        pattern = None
    try:
        re.compile(pattern)
    except Exception:  # noqa  (abstract classes, unbalanced patterns)
        pattern = "GGTCTCN(NNNN)(NN*N)(NNNN)NGAGACC"
    core, spans = instantiate(pattern, rng)
    backbone = "".join(rng.choice("AT") for _ in range(17))
    full = core + backbone
    site = getattr(getattr(cls, "cutter", None), "site", None) or "GGTCTC"

    yield "exact", circular(core, "exact")
    yield "padded", circular(full, "padded")
    yield "lower", circular(full.lower(), "lower")
    yield "mixed", circular(mixed_case(full, rng), "mixed")
    for k in sorted({1, 3, len(full) // 2, len(full) - 2}):
        yield "rot{}".format(k), circular(full[k:] + full[:k], "rot{}".format(k))
    for idx, span in sorted(spans.items()):
        k = span[0] + 2
        yield "rotg{}".format(idx), circular(full[k:] + full[:k], "rotg{}".format(idx))
    yield "linear", circular(full, "linear")[:]
    plain = SeqRecord(Seq(full), id="plain", name="plain")
    yield "plain", plain
    lin = SeqRecord(Seq(full), id="plainlin", name="plainlin")
    lin.annotations["topology"] = "linear"
    yield "plainlin", lin
    yield "rc", circular(str(Seq(full).reverse_complement()), "rc")
    # single letter corruptions
    for n in range(10):
        i = rng.randrange(len(core))
        letter = rng.choice([c for c in ALPHABET if c != core[i].upper()])
        if rng.random() < 0.3:
            letter = letter.lower()
        mutated = full[:i] + letter + full[i + 1 :]
        yield "mut{}@{}{}".format(n, i, letter), circular(mutated, "mut{}".format(n))
    # deletions / truncations
    yield "short", circular(core[: len(core) // 2], "short")
    yield "minus1", circular(core[:-1], "minus1")
    yield "del", circular(full[:5] + full[6:], "del")
    # illegal sites in the target / placeholder and in the backbone
    if 2 in spans:
        mid = (spans[2][0] + spans[2][1]) // 2
        yield "illegal", circular(full[:mid] + site + full[mid:], "illegal")
        rcsite = str(Seq(site).reverse_complement())
        yield "illegalrc", circular(full[:mid] + rcsite.lower() + full[mid:], "illegalrc")
        k = mid + 2
        ill = full[:mid] + site + full[mid:]
        yield "illegalrot", circular(ill[k:] + ill[:k], "illegalrot")
    yield "backsite", circular(full + site + "AT", "backsite")
    yield "twice", circular(full + full, "twice")
    # junk
    yield "ATG", circular("ATG", "ATG")
    yield "one", circular("n", "one")
    for n in range(4):
        junk = "".join(rng.choice(ALPHABET + ALPHABET.lower()) for _ in range(rng.randrange(1, 60)))
        yield "junk{}".format(n), circular(junk, "junk{}".format(n))
    yield "allN", circular("N" * (len(core) + 3), "allN")


def record_state(rec):
    return describe(rec)


def probe(cls, label, rec):
    before = record_state(rec)
    try:
        entity = cls(rec)
    except Exception as exc:  # noqa
        emit("probe", cls.__name__, label, "new", exc_repr(exc))
        return
    res = [call(entity.is_valid)]
    res.append(call(entity.overhang_start) if hasattr(entity, "overhang_start") else "-")
    res.append(call(entity.overhang_end) if hasattr(entity, "overhang_end") else "-")
    res.append(call(entity.target_sequence) if hasattr(entity, "target_sequence") else "-")
    if hasattr(entity, "placeholder_sequence"):
        res.append(call(entity.placeholder_sequence))
    # asking again must give the same answers
    res.append(call(entity.is_valid))
    res.append(call(entity.overhang_start) if hasattr(entity, "overhang_start") else "-")
    after = record_state(rec)
    emit("probe", cls.__name__, label, rec.seq, *res)
    emit("state", cls.__name__, label, "same" if after == before else after)


def probes():
    rng = random.Random(1717)
    for cls in ALL_PUBLIC:
        for label, rec in variants(cls, rng):
            probe(cls, label, rec)


# --- generic classes over other enzymes -------------------------------------

ENZYMES = [
    "BsaI", "BpiI", "BbsI", "BsmBI", "SapI", "AarI", "BtgZI", "Esp3I", "BsmAI",
    "BbvI", "FokI", "BsmFI", "EarI", "BfuAI", "EcoRI", "BamHI", "BglII", "BstXI",
    "BsrDI", "BseRI", "MmeI", "BtsI", "KpnI", "EcoRV", "SmaI", "BsaXI", "AbaCIII",
    "MlyI", "BccI", "HgaI", "PleI", "BsmI",
]


def generic():
    rng = random.Random(99)
    bases = [
        ("module", (modules.Entry,)),
        ("product", (modules.Product,)),
        ("vector", (vectors.CassetteVector,)),
        ("mpart", (parts.AbstractPart, modules.Entry)),
        ("vpart", (parts.AbstractPart, vectors.EntryVector)),
        ("part", (parts.AbstractPart,)),
    ]
    for ename in ENZYMES:
        enz = getattr(Restriction, ename)
        for bname, bs in bases:
            attrs = {"cutter": enz}
            if parts.AbstractPart in bs:
                n = len(enz.ovhgseq or "")
                attrs["signature"] = (("ACGT" * 3)[:n], ("TTAC" * 3)[:n])
            cls = type(str("Generic_{}_{}".format(ename, bname)), bs, attrs)
            try:
                emit("generic", cls.__name__, cls.structure())
            except Exception as exc:  # noqa
                emit("generic", cls.__name__, exc_repr(exc))
            n = 0
            for label, rec in variants(cls, rng):
                if label.startswith(("mut", "junk")) and not label.startswith(("mut0", "mut1", "junk0")):
                    continue
                probe(cls, label, rec)
                n += 1


# --- assemblies -------------------------------------------------------------


def make_reference(title):
    ref = Reference()
    ref.title = title
    ref.authors = "Doe J."
    return ref


def annotate(rec, rng, citations=True):
    n = len(rec)
    refs = [make_reference("ref {} of {}".format(i, rec.id)) for i in range(2)]
    rec.annotations["references"] = refs
    rec.annotations["topology"] = "circular"
    for i in range(3):
        start = rng.randrange(0, n - 2)
        end = rng.randrange(start + 1, n)
        quals = {"label": ["f{}_{}".format(i, rec.id)]}
        if citations:
            quals["citation"] = ["[{}]".format(1 + i % 2)]
        rec.features.append(
            SeqFeature(FeatureLocation(start, end, strand=1), type="misc_feature", qualifiers=quals)
        )
    return rec


def chain_records(vcls, mclasses, overhangs, rng, case=None, rotate=False, annotated=False):
    """Build a vector of class vcls and modules whose overhangs chain up."""
    # vector: kept sequence runs from overhangs[-1] ... to overhangs[0]
    vo = vcls._match  # noqa  (just to make sure the attribute exists)
    pattern = vcls.structure()
    # group 1 = end overhang of the vector (start of the insert), group 3 = start
    seq, _ = instantiate(pattern, rng, groups={1: overhangs[0], 3: overhangs[-1]})
    seq += "".join(rng.choice("AT") for _ in range(11))
    recs = [("vector", vcls, seq)]
    for i, mcls in enumerate(mclasses):
        seq, _ = instantiate(mcls.structure(), rng, groups={1: overhangs[i], 3: overhangs[i + 1]})
        seq += "".join(rng.choice("AT") for _ in range(9))
        recs.append(("mod{}".format(i), mcls, seq))
    out = []
    for name, cls, seq in recs:
        if case == "lower":
            seq = seq.lower()
        elif case == "mixed":
            seq = mixed_case(seq, rng)
        if rotate:
            k = rng.randrange(1, len(seq))
            seq = seq[k:] + seq[:k]
        rec = circular(seq, name)
        if annotated:
            annotate(rec, rng)
        out.append(cls(rec))
    return out[0], out[1:]


def run_assembly(label, vector, mods, **kwargs):
    before = [record_state(e.record) for e in [vector] + list(mods)]
    res = call(vector.assemble, *mods, **kwargs)
    after = [record_state(e.record) for e in [vector] + list(mods)]
    emit("assembly", label, res)
    emit("assembly-state", label, "same" if before == after else after)


def signature_chain(vcls, mclasses):
    """Overhangs for a chain of part classes with literal signatures."""
    ovs = [mclasses[0].signature[0]]
    for m in mclasses:
        ovs.append(m.signature[1])
    return ovs


def assemblies():
    rng = random.Random(4242)
    from moclo.kits import ytk, cidar, ecoflex, moclo as mk, plant

    class MockVector(vectors.AbstractVector):
        cutter = Restriction.BpiI

    class MockModule(modules.AbstractModule):
        cutter = Restriction.BpiI

    class SapVector(vectors.EntryVector):
        cutter = Restriction.SapI

    class SapModule(modules.Product):
        cutter = Restriction.SapI

    scenarios = [
        ("mock", MockVector, [MockModule] * 3, ["ATGC", "CCAT", "GGTA", "CGTA"]),
        ("mock1", MockVector, [MockModule], ["ATGC", "CGTA"]),
        ("sap", SapVector, [SapModule] * 2, ["ATG", "CCA", "GGT"]),
        ("ytk-entry", ytk.YTKEntryVector, [ytk.YTKProduct], ["TTGG", "GACC"]),
        ("ytk-cassette", ytk.YTKCassetteVector, [ytk.YTKEntry] * 3, ["AACG", "TATG", "ATCC", "GCTG"]),
        ("ytk-device", ytk.YTKDeviceVector, [ytk.YTKCassette] * 2, ["CTGA", "CCAA", "GATG"]),
        (
            "ytk-parts8",
            ytk.YTKPart8,
            [ytk.YTKPart1, ytk.YTKPart2, ytk.YTKPart3, ytk.YTKPart4, ytk.YTKPart5, ytk.YTKPart6, ytk.YTKPart7],
            None,
        ),
        (
            "ytk-parts8a",
            ytk.YTKPart8a,
            [ytk.YTKPart8b, ytk.YTKPart1, ytk.YTKPart234, ytk.YTKPart5, ytk.YTKPart6, ytk.YTKPart7],
            None,
        ),
        (
            "ytk-parts678",
            ytk.YTKPart678,
            [ytk.YTKPart1, ytk.YTKPart2, ytk.YTKPart3a, ytk.YTKPart3b, ytk.YTKPart4a, ytk.YTKPart4b, ytk.YTKPart5],
            None,
        ),
        ("cidar-entry", cidar.CIDAREntryVector, [cidar.CIDARProduct], ["GGAG", "TACT"]),
        (
            "cidar-cassette",
            cidar.CIDARCassetteVector,
            [cidar.CIDARPromoter, cidar.CIDARRibosomeBindingSite, cidar.CIDARCodingSequence, cidar.CIDARTerminator],
            ["GGAG", "TACT", "AATG", "AGGT", "GCTT"],
        ),
        ("cidar-device", cidar.CIDARDeviceVector, [cidar.CIDARCassette] * 2, ["GGAG", "GCTT", "CGCT"]),
        (
            "ecoflex-cassette",
            ecoflex.EcoFlexCassetteVector,
            [ecoflex.EcoFlexPromoter, ecoflex.EcoFlexRBS, ecoflex.EcoFlexCodingSequence, ecoflex.EcoFlexTerminator],
            None,
        ),
        (
            "ecoflex-cassette-tag",
            ecoflex.EcoFlexCassetteVector,
            [ecoflex.EcoFlexPromoter, ecoflex.EcoFlexTagLinker, ecoflex.EcoFlexTag, ecoflex.EcoFlexCodingSequence, ecoflex.EcoFlexTerminator],
            None,
        ),
        ("ecoflex-device", ecoflex.EcoFlexDeviceVector, [ecoflex.EcoFlexCassette] * 2, ["TGCC", "GCAA", "ACTA"]),
        ("moclo-entry", mk.MoCloEntryVector, [mk.MoCloProduct], ["GGAG", "TACT"]),
        (
            "moclo-cassette",
            mk.MoCloCassetteVector,
            [mk.MoCloPro, mk.MoClo5U, mk.MoCloCDS1, mk.MoClo3U, mk.MoCloTer],
            None,
        ),
        (
            "moclo-single",
            mk.MoCloSingleCassetteVector,
            [mk.MoCloPro5Uf, mk.MoCloNTag, mk.MoCloCDS1ns, mk.MoCloCTag, mk.MoClo3UTer],
            None,
        ),
        ("moclo-device", mk.MoCloDeviceVector, [mk.MoCloCassette, mk.MoCloEndLinker], ["TGCC", "GCAA", "GGGA"]),
        ("moclo-levelM", mk.MoCloLevelMVector, [mk.MoCloCassette, mk.MoCloLevelMEndLinker], ["GGGA", "GCAA", "GGGA"]),
        ("moclo-levelP", mk.MoCloLevelPVector, [mk.MoCloEntry, mk.MoCloLevelPEndLinker], ["GGGA", "GCAA", "GGGA"]),
        (
            "plant",
            mk.MoCloCassetteVector,
            [mk.MoCloPro, plant.Plant5U, plant.PlantNSignal, plant.PlantCDS, plant.PlantCSignal, plant.Plant3U, plant.PlantTer],
            None,
        ),
    ]

    for name, vcls, mclasses, ovs in scenarios:
        if ovs is None:
            ovs = signature_chain(vcls, mclasses)
        for case in (None, "lower", "mixed"):
            for rotate in (False, True):
                for annotated in (False, True):
                    label = "{}/{}/{}/{}".format(name, case, rotate, annotated)
                    try:
                        v, ms = chain_records(vcls, mclasses, ovs, rng, case, rotate, annotated)
                    except Exception as exc:  # noqa
                        emit("assembly", label, "build", exc_repr(exc))
                        continue
                    run_assembly(label, v, ms)
                    # again with the very same objects, modules shuffled
                    ms2 = list(ms)
                    rng.shuffle(ms2)
                    run_assembly(label + "/again", v, ms2, id="again", name="twice")
                    if len(ms) > 1:
                        # a module is missing, then the complete set again
                        run_assembly(label + "/missing", v, ms[:-1])
                        run_assembly(label + "/missing-first", v, ms[1:])
                        run_assembly(label + "/complete", v, ms)
                    # duplicated module (another object with the same record)
                    dup = type(ms[0])(copy.deepcopy(ms[0].record))
                    dup.record.id = "dup"
                    run_assembly(label + "/dup", v, list(ms) + [dup])
                    # unused module
                    extra_ovs = ["AAAA"[: len(ovs[0])], "CCCC"[: len(ovs[0])]]
                    try:
                        _, extra = chain_records(vcls, [MockModule if vcls is MockVector else type(ms[0])], extra_ovs, rng)
                        extra[0].record.id = "extra"
                        run_assembly(label + "/unused", v, list(ms) + extra)
                        with warnings.catch_warnings():
                            warnings.simplefilter("error", errors.AssemblyWarning)
                            try:
                                emit("assembly", label + "/unused-error", describe(v.assemble(*(list(ms) + extra))))
                            except Exception as exc:  # noqa
                                emit("assembly", label + "/unused-error", exc_repr(exc))
                        emit("assembly-state", label + "/unused-error", [record_state(e.record) for e in [v] + list(ms) + extra])
                    except Exception as exc:  # noqa
                        emit("assembly", label + "/unused", "build", exc_repr(exc))
                    # invalid records mixed in
                    junk = type(ms[0])(circular("ATGNNRYatgc", "junk"))
                    run_assembly(label + "/junk-last", v, list(ms) + [junk])
                    run_assembly(label + "/junk-first", v, [junk] + list(ms))
                    mutated = str(ms[-1].record.seq)
                    site = type(ms[-1]).cutter.site
                    at = mutated.upper().find(site)
                    if at >= 0:
                        broken = mutated[:at] + "N" + mutated[at + 1 :]
                        bad = type(ms[-1])(circular(broken, "broken"))
                        run_assembly(label + "/broken", v, list(ms[:-1]) + [bad])
                    # module with an additional site
                    ill = str(ms[0].record.seq)
                    m = ms[0]._match
                    mid = (m.span(2)[0] + m.span(2)[1]) // 2 % len(ill)
                    illegal = type(ms[0])(circular(ill[:mid] + site + ill[mid:], "illegal"))
                    run_assembly(label + "/illegal", v, [illegal] + list(ms[1:]))
                    # invalid vectors
                    badv = vcls(circular("ATGC" * 5, "badvector"))
                    run_assembly(label + "/bad-vector", badv, ms)
                    same = chain_records(vcls, mclasses[:1], [ovs[0], ovs[0]], rng)[0] if True else None
                    run_assembly(label + "/same-overhangs", same, ms)
                    # modules used as vector and conversely
                    run_assembly(label + "/final", v, ms)

    # reverse-complementing overhangs
    v, ms = chain_records(MockVector, [MockModule] * 3, ["ATGC", "CCAT", "ATGG", "CGTA"], rng)
    run_assembly("rc-overhangs", v, ms)
    v, ms = chain_records(MockVector, [MockModule] * 2, ["ATGC", "ACGT", "CGTA"], rng)
    run_assembly("palindromic-overhang", v, ms)

    # invalid citations
    v, ms = chain_records(MockVector, [MockModule] * 2, ["ATGC", "CCAT", "CGTA"], rng, annotated=True)
    ms[1].record.features[0].qualifiers["citation"] = ["(1)"]
    run_assembly("bad-citation", v, ms)
    run_assembly("bad-citation/again", v, ms)
    v, ms = chain_records(MockVector, [MockModule] * 2, ["ATGC", "CCAT", "CGTA"], rng, annotated=True)
    ms[0].record.features[1].qualifiers["citation"] = ["[7]"]
    run_assembly("citation-out-of-range", v, ms)
    v, ms = chain_records(MockVector, [MockModule] * 2, ["ATGC", "CCAT", "CGTA"], rng, annotated=True)
    del v.record.annotations["references"]
    for f in v.record.features:
        f.qualifiers.pop("citation", None)
    run_assembly("vector-without-references", v, ms)
    run_assembly("vector-without-references/again", v, ms)

    # the manager, used directly
    from moclo.core._assembly import AssemblyManager

    v, ms = chain_records(MockVector, [MockModule] * 2, ["ATGC", "CCAT", "CGTA"], rng, annotated=True)
    mlist = list(ms)
    mgr = AssemblyManager(v, mlist, id_="direct", name="direct")
    emit("manager", call(mgr.assemble))
    emit("manager", call(mgr.assemble))
    emit("manager-attrs", mgr.name, mgr.id, [describe(m) for m in mgr.modules], [describe(m) for m in mgr.elements], describe(mgr.vector))
    emit("manager-tuple", call(AssemblyManager, v, tuple(ms)))
    emit("manager-empty", call(lambda: AssemblyManager(v, []).assemble()))


# --- characterize -----------------------------------------------------------


def characterize():
    rng = random.Random(7)
    from moclo.kits import ytk, cidar, ecoflex, moclo as mk

    for base in (ytk.YTKPart, cidar.CIDARPart, ecoflex.EcoFlexPart, mk.MoCloPart):
        for sub in base.__subclasses__():
            seq, _ = instantiate(sub.structure(), rng)
            rec = circular(seq + "ATATATTA", "c_" + sub.__name__)
            emit("characterize", base.__name__, sub.__name__, call(base.characterize, rec))
        emit("characterize", base.__name__, "junk", call(base.characterize, circular("ATGCNN", "junk")))


# --- regex --------------------------------------------------------------------


def regexes():
    rng = random.Random(5)
    emit("lettermap", sorted(DNARegex._lettermap.items()), len(DNARegex._lettermap), "N" in DNARegex._lettermap, DNARegex._lettermap.get("A"))
    patterns = ["ACGT", "(NN)(R)Y", "B(D)HKM", "NN*N", "S(V)(W)", "AN*?T", "(A)(C)(G)", "X", ""]
    subjects = []
    for n in range(12):
        subjects.append("".join(rng.choice("ACGTNacgtnRYKM") for _ in range(rng.randrange(0, 14))))
    for p in patterns:
        try:
            rx = DNARegex(p)
        except Exception as exc:  # noqa
            emit("regex", p, exc_repr(exc))
            continue
        emit("regex", p, rx.pattern, rx.regex.pattern)
        for s in subjects:
            for kind in ("seq", "rec", "circ", "str"):
                if kind == "seq":
                    obj = Seq(s)
                elif kind == "rec":
                    obj = SeqRecord(Seq(s), id="r")
                elif kind == "circ":
                    obj = CircularRecord(Seq(s), id="c")
                else:
                    obj = s
                for kw in ({}, {"linear": False}, {"pos": 2}, {"endpos": 3}):
                    try:
                        m = rx.search(obj, **kw)
                        if m is None:
                            res = None
                        else:
                            res = [m.start(), m.end(), m.span()]
                            for g in range(0, rx.regex.groups + 2):
                                try:
                                    grp = m.group(g)
                                    res.append(str(grp.seq if isinstance(grp, SeqRecord) else grp))
                                    res.append(m.span(g))
                                except Exception as exc:  # noqa
                                    res.append(exc_repr(exc))
                    except Exception as exc:  # noqa
                        res = exc_repr(exc)
                    emit("search", p, s, kind, sorted(kw.items()), res)


# --- errors -------------------------------------------------------------------


def error_objects():
    class Dummy(object):
        def __init__(self, id_):
            self.record = SeqRecord(Seq("A"), id=id_)

    a, b = Dummy("a"), Dummy("b")
    cases = [
        lambda: errors.InvalidSequence("ATGC"),
        lambda: errors.InvalidSequence(Seq("ATGC"), details="some details"),
        lambda: errors.InvalidSequence("ATGC", exc=ValueError("x"), details="{}"),
        lambda: errors.InvalidSequence("ATGC", details=3),
        lambda: errors.IllegalSite(Seq("ATGC")),
        lambda: errors.IllegalSite("ATGC", details="d"),
        lambda: errors.DuplicateModules(a, b),
        lambda: errors.DuplicateModules(a, b, details="same"),
        lambda: errors.DuplicateModules(a, b, other=1),
        lambda: errors.MissingModule(Seq("ATGC")),
        lambda: errors.MissingModule("ATGC", details="d"),
        lambda: errors.UnusedModules(a, b),
        lambda: errors.UnusedModules(a, details=3),
        lambda: errors.UnusedModules(),
        lambda: errors.MocloError("x"),
        lambda: errors.AssemblyError("x", "y"),
        lambda: errors.AssemblyWarning("w"),
    ]
    for i, case in enumerate(cases):
        try:
            exc = case()
        except Exception as e:  # noqa
            emit("error", i, "ctor", exc_repr(e))
            continue
        try:
            text = str(exc)
        except Exception as e:  # noqa
            text = exc_repr(e)
        attrs = {k: describe(v) if not isinstance(v, tuple) else [describe(x) for x in v] for k, v in sorted(vars(exc).items())}
        emit("error", i, type(exc).__name__, text, len(exc.args), attrs,
             isinstance(exc, errors.MocloError), isinstance(exc, ValueError), isinstance(exc, RuntimeError), isinstance(exc, Warning))


# --- registries -------------------------------------------------------------


def registries():
    from moclo.registry.ytk import YTKRegistry, PTKRegistry
    from moclo.registry.cidar import CIDARRegistry
    from moclo.registry.ecoflex import EcoFlexRegistry
    from moclo.registry.plant import PlantRegistry
    from moclo.registry import base as rbase, _utils as rutils

    emit("antibiotics", sorted(rutils._ANTIBIOTICS.items()))
    kits = {
        "YTKRegistry": "ytk", "PTKRegistry": "ytk", "CIDARRegistry": "cidar",
        "EcoFlexRegistry": "ecoflex", "PlantRegistry": "moclo",
    }
    for factory in (YTKRegistry, PTKRegistry, CIDARRegistry, EcoFlexRegistry, PlantRegistry):
        name = factory.__name__
        for attr in ("_types", "_CLASSES", "_TYPES", "_VECTORS"):
            table = getattr(factory, attr, None)
            if table is not None and table is not NotImplemented:
                emit("registry-table", name, attr, sorted((k, v.__name__) for k, v in table.items()))
        try:
            reg = factory()
            ids = sorted(reg)
        except Exception as exc:  # noqa
            emit("registry", name, exc_repr(exc))
            continue
        emit("registry", name, len(reg), len(ids))
        kitmod = importlib.import_module("moclo.kits." + kits[name])
        classes = [c for c in KIT_CLASSES if c.__module__ == kitmod.__name__]
        for id_ in ids:
            item = reg[id_]
            ent = item.entity
            emit(
                "item", name, item.id, item.name, item.resistance, type(ent).__name__,
                call(ent.is_valid), call(ent.overhang_start), call(ent.overhang_end),
                hashlib.sha1(call(ent.target_sequence).encode()).hexdigest()[:12],
            )
            row = []
            for cls in classes:
                try:
                    row.append(cls(item.entity.record).is_valid())
                except Exception as exc:  # noqa
                    row.append(type(exc).__name__)
            emit("item-classes", name, item.id, "".join("1" if r is True else "0" if r is False else "E" for r in row))


def main():
    inventory()
    probes()
    generic()
    assemblies()
    characterize()
    regexes()
    error_objects()
    registries()
    text = "\n".join(LINES)
    if "--dump" in sys.argv:
        with open(sys.argv[sys.argv.index("--dump") + 1], "w") as fh:
            fh.write(text + "\n")
    print("lines:", len(LINES))
    print("digest:", hashlib.sha256(text.encode("utf-8")).hexdigest())


if __name__ == "__main__":
    main()
