"""Differential test for refactoring R3_1.

modules.py: AbstractModule.structure() (str.translate tables + format instead of chained replace + join)

Run as: cd /tmp/agentsR/R3 && /venv/bin/python refactor_out/R3_1/equiv.py
Prints a digest which must be identical on the pristine tree and with patch.diff applied.
"""
import sys
sys.path.insert(0, "/tmp/agentsR/R3")
import tests  # noqa: F401  (splices the kit packages into the moclo namespace)

import copy
import hashlib
import random
import re
import warnings

warnings.filterwarnings("ignore", category=UserWarning, module="property_cached")

from Bio import BiopythonWarning
from Bio.Restriction import AllEnzymes
from Bio.Seq import Seq
from Bio.SeqFeature import SeqFeature, FeatureLocation, CompoundLocation
from Bio.SeqRecord import SeqRecord

from moclo import errors
from moclo.record import CircularRecord
from moclo.core import modules as M, vectors as V, parts as P, _structured as S

warnings.simplefilter("ignore", BiopythonWarning)

OUT = []
_ADDR = re.compile(r"0x[0-9a-fA-F]+")


def ser(obj):
    """Deterministic serialisation of everything the library can return."""
    if isinstance(obj, SeqRecord):
        feats = []
        for f in obj.features:
            quals = sorted((str(k), ser(v)) for k, v in f.qualifiers.items())
            feats.append((f.type, repr(f.location), str(f.id), quals))
        ants = sorted((str(k), ser(v)) for k, v in obj.annotations.items())
        letan = sorted((str(k), ser(v)) for k, v in obj.letter_annotations.items())
        return (
            type(obj).__name__, str(obj.seq), obj.id, obj.name, obj.description,
            list(obj.dbxrefs), feats, ants, letan,
        )
    if isinstance(obj, Seq):
        return ("Seq", str(obj))
    if isinstance(obj, (list, tuple)):
        return [ser(x) for x in obj]
    if isinstance(obj, dict):
        return sorted((ser(k), ser(v)) for k, v in obj.items())
    if isinstance(obj, S.StructuredRecord):
        return ("entity", type(obj).__name__, ser(obj.record))
    if isinstance(obj, type):
        return ("class", obj.__name__)
    return _ADDR.sub("0x?", repr(obj))


def exc_ser(e):
    return ("EXC", type(e).__name__, _ADDR.sub("0x?", str(e)),
            [_ADDR.sub("0x?", str(a)) if not isinstance(a, (SeqRecord, Seq)) else ser(a)
             for a in getattr(e, "args", ())])


def run(label, fn, *args, **kwargs):
    """Call fn, record its result or its exception, together with warnings."""
    with warnings.catch_warnings(record=True) as caught:
        warnings.simplefilter("always")
        warnings.simplefilter("ignore", BiopythonWarning)
        try:
            res = ser(fn(*args, **kwargs))
        except BaseException as e:  # noqa
            if isinstance(e, (KeyboardInterrupt, SystemExit)):
                raise
            res = exc_ser(e)
    warns = [(w.category.__name__, _ADDR.sub("0x?", str(w.message))) for w in caught
             if not issubclass(w.category, (BiopythonWarning, DeprecationWarning))
             and "pkg_resources" not in str(w.message)]
    OUT.append((label, res, warns))
    return res


def digest():
    h = hashlib.sha256()
    for item in OUT:
        h.update(repr(item).encode("utf-8"))
        h.update(b"\n")
    return "%d results sha256=%s" % (len(OUT), h.hexdigest())


# --- sequence generation ------------------------------------------------------

AMBIG = {
    "A": "A", "C": "C", "G": "G", "T": "T", "N": "ACGT", "B": "CGT", "D": "AGT",
    "H": "ACT", "K": "GT", "M": "AC", "R": "AG", "S": "CG", "V": "ACG", "W": "AT",
    "Y": "CT",
}


def rc(s):
    return str(Seq(s).reverse_complement())


def instantiate(pattern, rng, ovhg=None):
    """Instantiate an elucidated site ('GGTCTCN^NNNN_N'), dropping the markers.

    Letters between the two cut markers are taken from ``ovhg`` when given.
    """
    out, inside, k = [], False, 0
    for c in pattern:
        if c in "^_":
            inside = not inside
            continue
        if inside and ovhg is not None and k < len(ovhg):
            out.append(ovhg[k])
            k += 1
        else:
            out.append(rng.choice(AMBIG[c]))
    return "".join(out)


def has_site(enzyme, dna):
    return bool(enzyme.search(Seq(dna.upper()), linear=False))


def clean_dna(rng, n, enzymes):
    for _ in range(200):
        s = "".join(rng.choice("ACGT") for _ in range(n))
        if not any(has_site(e, s + s) for e in enzymes):
            return s
    return "A" * n


def rand_ovhg(rng, n, avoid=()):
    for _ in range(200):
        s = "".join(rng.choice("ACGT") for _ in range(n))
        if s != rc(s) and s not in avoid and rc(s) not in avoid:
            return s
    return "ACGTACGT"[:n]


def mixed_case(rng, s, mode):
    if mode == 0:
        return s
    if mode == 1:
        return s.lower()
    return "".join(c.lower() if rng.random() < 0.5 else c for c in s)


def module_dna(enzyme, rng, ov1, ov2, target, backbone):
    up = enzyme.elucidate()
    down = rc(up)
    return instantiate(up, rng, ov1) + target + instantiate(down, rng, ov2) + backbone


def vector_dna(enzyme, rng, ov_end, ov_start, placeholder, backbone):
    down = enzyme.elucidate()
    up = rc(down)
    return instantiate(up, rng, ov_end) + placeholder + instantiate(down, rng, ov_start) + backbone


def decorate(rng, rec, nfeat=4, citations=False):
    """Add random features (some wrapping the origin, some 'source')."""
    L = len(rec)
    refs = []
    if citations:
        class Ref(object):
            def __init__(self, t):
                self.title = t
            def __repr__(self):
                return "Ref(%r)" % self.title
            def __eq__(self, other):
                return isinstance(other, Ref) and other.title == self.title
            def __hash__(self):
                return hash(self.title)
        refs = [Ref("ref%d" % i) for i in range(rng.randint(1, 3))]
        rec.annotations["references"] = refs
    for i in range(nfeat):
        a = rng.randrange(0, L)
        b = rng.randrange(a, L) + 1
        kind = rng.choice(["CDS", "misc_feature", "promoter", "source"])
        strand = rng.choice([1, -1, None])
        if kind == "source" and rng.random() < 0.5:
            loc = FeatureLocation(0, L, strand)
        elif rng.random() < 0.2 and a > 0 and b < L and a < b - 1:
            loc = CompoundLocation([FeatureLocation(b - 1, L, strand), FeatureLocation(0, a, strand)])
        else:
            loc = FeatureLocation(a, b, strand)
        quals = {"label": ["f%d" % i]}
        if refs and rng.random() < 0.7:
            quals["citation"] = ["[%d]" % rng.randint(1, len(refs))]
        rec.features.append(SeqFeature(loc, type=kind, id="feat%d" % i, qualifiers=quals))
    return rec


def make_record(rng, dna, rid, rot=0, case=0, topology="circular", circular=True,
                nfeat=3, citations=False):
    dna = mixed_case(rng, dna, case)
    ants = {"molecule_type": "DNA"}
    if topology is not None:
        ants["topology"] = topology
    if circular:
        rec = CircularRecord(Seq(dna), id=rid, name=rid, annotations=ants)
    else:
        rec = SeqRecord(Seq(dna), id=rid, name=rid, annotations=ants)
    decorate(rng, rec, nfeat=nfeat, citations=citations)
    if circular and rot:
        rec = rec >> rot
    return rec


def typeiis_enzymes():
    """Enzymes for which the generic Golden Gate structures compile (5' cutters)."""
    picked = []
    for e in sorted(AllEnzymes, key=str):
        if e.is_blunt() or e.is_unknown() or not e.is_5overhang():
            continue
        if set(e.ovhgseq) != {"N"} or e.cut_twice():
            continue
        el = e.elucidate()
        if not el.startswith(e.site) or el.index("^") > el.index("_"):
            continue
        if e.site == rc(e.site):
            continue
        picked.append(e)
    return picked


def named(names):
    by = {str(e): e for e in AllEnzymes}
    return [by[n] for n in names if n in by]


def snapshot_entity(label, ent, with_placeholder=False):
    run(label + ".is_valid", ent.is_valid)
    run(label + ".overhang_start", ent.overhang_start)
    run(label + ".overhang_end", ent.overhang_end)
    run(label + ".target_sequence", ent.target_sequence)
    if with_placeholder:
        run(label + ".placeholder_sequence", ent.placeholder_sequence)
    run(label + ".record_after", lambda: ent.record)


def all_cutters():
    return sorted(AllEnzymes, key=str)


# --- scenarios ----------------------------------------------------------------

def scenario_structures():
    """structure() / class construction / regex for every known enzyme."""
    for e in all_cutters():
        name = str(e)
        Mod = type(str("Mod" + name), (M.Entry,), {"cutter": e})
        Vec = type(str("Vec" + name), (V.EntryVector,), {"cutter": e})
        run("mod.structure." + name, Mod.structure)
        run("vec.structure." + name, Vec.structure)
        run("mod.regex." + name, lambda: Mod._get_regex().regex.pattern)
        run("vec.regex." + name, lambda: Vec._get_regex().regex.pattern)
        run("mod.new." + name, lambda: type(Mod(SeqRecord(Seq("ACGT")))).__name__)
        run("vec.new." + name, lambda: type(Vec(SeqRecord(Seq("ACGT")))).__name__)
    for base in (M.AbstractModule, M.Product, M.Entry, M.Cassette, M.Device,
                 V.AbstractVector, V.EntryVector, V.CassetteVector, V.DeviceVector,
                 P.AbstractPart):
        run("nocutter." + base.__name__, lambda: base(SeqRecord(Seq("ACGT"))))
        run("nocutter.structure." + base.__name__, base.structure)
        run("level." + base.__name__, lambda: getattr(base, "_level", "n/a"))


def scenario_part_structures():
    sigs = [("ATGC", "ATTC"), ("AAAA", "TTTT"), ("acgt", "TGCA"), ("AT", "GC"),
            ("GGTCTC", "N"), ("", ""), ("NNNN", "NNNN"), ("A", "C", "G"), "AB", "ABC",
            NotImplemented, None, 5, ("^", "_"), ("{}", "{0}")]
    for e in all_cutters():   # blunt and unknown cutters too: structure() is a classmethod
        name = str(e)
        for i, sig in enumerate(sigs if name in ("BsaI", "BsmBI", "BbsI", "SapI", "BtsI",
                                                 "BsrDI", "MmeI", "AarI", "BtgZI", "BsmFI")
                                else sigs[:2]):
            ModPart = type(str("MP%s_%d" % (name, i)), (P.AbstractPart, M.Entry),
                           {"cutter": e, "signature": sig})
            VecPart = type(str("VP%s_%d" % (name, i)), (P.AbstractPart, V.EntryVector),
                           {"cutter": e, "signature": sig})
            Neither = type(str("NP%s_%d" % (name, i)), (P.AbstractPart,),
                           {"cutter": e, "signature": sig})
            Both = type(str("BP%s_%d" % (name, i)), (P.AbstractPart, M.Entry, V.EntryVector),
                        {"cutter": e, "signature": sig})
            for cls in (ModPart, VecPart, Neither, Both):
                run("part.structure.%s.%d.%s" % (name, i, cls.__name__[:2]), cls.structure)
                run("part.regex.%s.%d.%s" % (name, i, cls.__name__[:2]),
                    lambda: cls._get_regex().regex.pattern)
    # no cutter but signature, neither module nor vector
    NoCut = type(str("NoCut"), (P.AbstractPart,), {"signature": ("AAAA", "CCCC")})
    run("part.structure.nocut", NoCut.structure)
    NoCutMod = type(str("NoCutMod"), (P.AbstractPart, M.Entry), {"signature": ("AAAA", "CCCC")})
    run("part.structure.nocutmod", NoCutMod.structure)
    NoSig = type(str("NoSig"), (P.AbstractPart, M.Entry), {"cutter": named(["BsaI"])[0]})
    run("part.structure.nosig", NoSig.structure)
    run("part.structure.abstract", P.AbstractPart.structure)


INSTANCE_ENZYMES = ["BsaI", "BsmBI", "BbsI", "SapI", "AarI", "BtgZI", "FokI", "BsmFI",
                    "BsmAI", "Esp3I", "BspMI", "BfuAI", "FauI", "SfaNI", "BbvI", "HgaI",
                    "AceIII", "Alw26I"]


def scenario_module_instances(rng, rounds):
    pool = [e for e in named(INSTANCE_ENZYMES)]
    extra = [e for e in typeiis_enzymes() if e not in pool]
    for r in range(rounds):
        e = pool[r % len(pool)] if r % 3 else extra[(r // 3) % len(extra)]
        n = len(e.ovhgseq)
        Mod = type(str("Mod%d" % r), (rng.choice([M.Product, M.Entry, M.Cassette, M.Device]),),
                   {"cutter": e})
        ov1, ov2 = rand_ovhg(rng, n), rand_ovhg(rng, n)
        target = clean_dna(rng, rng.randint(0, 40), [e])
        backbone = clean_dna(rng, rng.randint(0, 60), [e])
        dna = module_dna(e, rng, ov1, ov2, target, backbone)
        L = len(dna)
        kind = r % 12
        rot = rng.choice([0, 1, 3, L - 1, L // 2, rng.randrange(L), rng.randrange(L),
                          L + 5, -7, 3 * L + 2])
        case = rng.choice([0, 0, 1, 2])
        label = "modinst.%d.%s.k%d" % (r, e, kind)
        if kind == 7:     # illegal extra site inside the target
            dna = module_dna(e, rng, ov1, ov2, target + instantiate(e.site, rng) + "ACGTACGTACGTAC",
                             backbone)
        elif kind == 8:   # no downstream site at all
            dna = instantiate(e.elucidate(), rng, ov1) + target + backbone + "A"
        elif kind == 9:   # extra site in the backbone (outside the match)
            dna = module_dna(e, rng, ov1, ov2, target, backbone + "TT" + instantiate(e.site, rng) + "TTTTTTTTTTTTTTTTTTTTTTTT")
        if kind == 10:    # linear annotation on a circular container, rotated
            rec = make_record(rng, dna, "m%d" % r, rot=rot, case=case, topology=None)
            rec.annotations["topology"] = rng.choice(["linear", "LINEAR", "Circular", "CIRCULAR"])
        elif kind == 11:  # plain SeqRecord, the structure possibly wrapping the origin
            if rng.random() < 0.6:
                k = rng.randrange(len(dna))
                dna = dna[k:] + dna[:k]
            rec = make_record(rng, dna, "m%d" % r, case=case, circular=False,
                              topology=rng.choice(["linear", "circular", None]))
        else:
            rec = make_record(rng, dna, "m%d" % r, rot=rot, case=case,
                              topology=rng.choice(["circular", None, "circular"]),
                              citations=(r % 5 == 0))
        before = ser(rec)
        ent = Mod(rec)
        snapshot_entity(label, ent)
        # calling twice must give the same thing (cached match)
        snapshot_entity(label + ".again", ent)
        run(label + ".unchanged", lambda: ser(rec) == before)
        run(label + ".seqattr", lambda: (ent.seq, ent.record is rec))


def scenario_vector_instances(rng, rounds):
    pool = [e for e in named(INSTANCE_ENZYMES)]
    extra = [e for e in typeiis_enzymes() if e not in pool]
    for r in range(rounds):
        e = pool[r % len(pool)] if r % 3 else extra[(r // 3) % len(extra)]
        n = len(e.ovhgseq)
        Vec = type(str("Vec%d" % r), (rng.choice([V.EntryVector, V.CassetteVector, V.DeviceVector]),),
                   {"cutter": e})
        ov_end, ov_start = rand_ovhg(rng, n), rand_ovhg(rng, n)
        placeholder = clean_dna(rng, rng.randint(0, 40), [e])
        backbone = clean_dna(rng, rng.randint(0, 60), [e])
        dna = vector_dna(e, rng, ov_end, ov_start, placeholder, backbone)
        L = len(dna)
        kind = r % 12
        rot = rng.choice([0, 1, 3, L - 1, L // 2, rng.randrange(L), rng.randrange(L),
                          L + 5, -7, 3 * L + 2])
        case = rng.choice([0, 0, 1, 2])
        label = "vecinst.%d.%s.k%d" % (r, e, kind)
        if kind == 7:
            dna = vector_dna(e, rng, ov_end, ov_start,
                             placeholder + instantiate(e.site, rng) + "ACGTACGTACGTAC", backbone)
        elif kind == 8:
            dna = placeholder + instantiate(e.elucidate(), rng, ov_start) + backbone + "A"
        elif kind == 9:
            dna = vector_dna(e, rng, ov_end, ov_start, placeholder,
                             backbone + "TT" + instantiate(e.site, rng) + "TTTTTTTTTTTTTTTTTTTTTTTT")
        if kind == 10:
            rec = make_record(rng, dna, "v%d" % r, rot=rot, case=case, topology=None)
            rec.annotations["topology"] = rng.choice(["linear", "LINEAR", "Circular", "CIRCULAR"])
        elif kind == 11:
            if rng.random() < 0.6:
                k = rng.randrange(len(dna))
                dna = dna[k:] + dna[:k]
            rec = make_record(rng, dna, "v%d" % r, case=case, circular=False,
                              topology=rng.choice(["linear", "circular", None]))
        else:
            rec = make_record(rng, dna, "v%d" % r, rot=rot, case=case,
                              topology=rng.choice(["circular", None, "circular"]),
                              citations=(r % 5 == 0))
        before = ser(rec)
        ent = Vec(rec)
        snapshot_entity(label, ent, with_placeholder=True)
        snapshot_entity(label + ".again", ent, with_placeholder=True)
        run(label + ".unchanged", lambda: ser(rec) == before)
        run(label + ".seqattr", lambda: (ent.seq, ent.record is rec))


def scenario_assemblies(rng, rounds):
    pool = named(["BsaI", "BsmBI", "BbsI", "SapI", "AarI", "BtgZI", "FokI", "BsmFI"])
    for r in range(rounds):
        e = pool[r % len(pool)]
        n = len(e.ovhgseq)
        Vec = type(str("AVec%d" % r), (V.CassetteVector,), {"cutter": e})
        Mod = type(str("AMod%d" % r), (M.Entry,), {"cutter": e})
        nmod = rng.randint(1, 4)
        ovs = []
        while len(ovs) < nmod + 1:
            ovs.append(rand_ovhg(rng, n, avoid=ovs))
        kind = r % 14
        label = "asm.%d.%s.k%d" % (r, e, kind)
        mods = []
        for i in range(nmod):
            dna = module_dna(e, rng, ovs[i], ovs[i + 1], clean_dna(rng, rng.randint(0, 30), [e]),
                             clean_dna(rng, rng.randint(5, 40), [e]))
            rec = make_record(rng, dna, "mod%d_%d" % (r, i), rot=rng.choice([0, 2, rng.randrange(len(dna)), -3, len(dna) * 2 + 1]),
                              case=rng.choice([0, 1, 2]), citations=(r % 2 == 0), nfeat=rng.randint(0, 4))
            mods.append(Mod(rec))
        v_end, v_start = ovs[0], ovs[nmod]
        if kind == 5:   # unsuitable vector: same overhangs
            v_start = v_end
        vdna = vector_dna(e, rng, v_end, v_start, clean_dna(rng, rng.randint(0, 30), [e]),
                          clean_dna(rng, rng.randint(5, 50), [e]))
        vrec = make_record(rng, vdna, "vec%d" % r, rot=rng.choice([0, 1, rng.randrange(len(vdna)), -5, len(vdna) + 3]),
                           case=rng.choice([0, 1, 2]), citations=(r % 2 == 0), nfeat=rng.randint(0, 4))
        vec = Vec(vrec)
        kwargs = {}
        if kind == 1:   # duplicate: the very same module twice
            mods.append(mods[0])
        elif kind == 2:  # duplicate: a different module with the same start overhang
            dna = module_dna(e, rng, ovs[0].lower(), rand_ovhg(rng, n, avoid=ovs),
                             clean_dna(rng, 12, [e]), clean_dna(rng, 20, [e]))
            mods.append(Mod(make_record(rng, dna, "dup%d" % r, case=1)))
        elif kind == 3 and nmod > 1:  # missing module
            del mods[rng.randrange(1, nmod)]
        elif kind == 4:  # unused extra module
            a, b = rand_ovhg(rng, n, avoid=ovs), None
            b = rand_ovhg(rng, n, avoid=ovs + [a])
            dna = module_dna(e, rng, a, b, clean_dna(rng, 12, [e]), clean_dna(rng, 20, [e]))
            mods.append(Mod(make_record(rng, dna, "unused%d" % r, citations=True)))
        elif kind == 6:  # reverse-complementing overhangs
            dna = module_dna(e, rng, rc(ovs[0]), rand_ovhg(rng, n, avoid=ovs),
                             clean_dna(rng, 12, [e]), clean_dna(rng, 20, [e]))
            mods.append(Mod(make_record(rng, dna, "rcdup%d" % r)))
        elif kind == 7:
            kwargs = {"name": "custom_name"}
        elif kind == 8:
            kwargs = {"id": "custom_id", "name": "n2", "ignored": 42}
        elif kind == 9 and mods[0].record.features:  # invalid citation
            mods[0].record.features[0].qualifiers["citation"] = ["[x]"]
        elif kind == 10:  # one module is not a module at all
            mods.append(Mod(make_record(rng, clean_dna(rng, 50, [e]), "bad%d" % r)))
        elif kind == 11:  # a module with an illegal site
            dna = module_dna(e, rng, ovs[0], ovs[1], "ACGT" + instantiate(e.site, rng) + "ACGTACGTACGTACGT",
                             clean_dna(rng, 20, [e]))
            mods[0] = Mod(make_record(rng, dna, "illegal%d" % r))
        elif kind == 12:  # citation index out of range
            if mods[-1].record.features:
                mods[-1].record.features[-1].qualifiers["citation"] = ["[99]"]
        rng.shuffle(mods)
        if kind == 13:
            run(label + ".assemble", lambda: vec.assemble())
            run(label + ".assemble_iter", lambda: vec.assemble(mods[0], *iter(mods[1:]), **kwargs))
        res = run(label + ".assemble", lambda: vec.assemble(*mods, **kwargs))
        # the inputs, after the (possibly failed) assembly
        run(label + ".vec_after", lambda: vrec)
        for i, m in enumerate(mods):
            run(label + ".mod_after.%d" % i, lambda: m.record)
        # and a second time, to check nothing was consumed / corrupted
        run(label + ".assemble_again", lambda: vec.assemble(*mods, **kwargs))
        run(label + ".placeholder", vec.placeholder_sequence)


def _registries():
    import moclo.registry.ytk as rytk
    import moclo.registry.cidar as rcidar
    import moclo.registry.ecoflex as reco
    import moclo.registry.plant as rplant
    return [("ytk", rytk.YTKRegistry), ("ptk", rytk.PTKRegistry), ("cidar", rcidar.CIDARRegistry),
            ("ecoflex", reco.EcoFlexRegistry), ("plant", rplant.PlantRegistry)]


def scenario_kits(stride=1, cross=True):
    """Real plasmids of the kits, through the kit classes (some override structure())."""
    for kname, factory in _registries():
        reg = factory()
        ids = sorted(reg)
        classes = sorted(set(type(reg[i].entity) for i in ids), key=lambda c: c.__name__)
        for k, rid in enumerate(ids):
            if k % stride:
                continue
            item = reg[rid]
            ent = item.entity
            label = "kit.%s.%s" % (kname, rid)
            run(label + ".type", lambda: type(ent).__name__)
            snapshot_entity(label, ent, with_placeholder=isinstance(ent, V.AbstractVector))
            # rotated copies of the same plasmid, through a fresh entity
            L = len(ent.record)
            for rot in (1, L // 3, L - 2, -11, 2 * L + 7):
                ent2 = type(ent)(ent.record >> rot)
                snapshot_entity(label + ".rot%d" % rot, ent2,
                                with_placeholder=isinstance(ent2, V.AbstractVector))
            if cross:
                run(label + ".cross", lambda: [c.__name__ for c in classes if c(ent.record).is_valid()])
        for c in classes:
            run("kit.%s.structure.%s" % (kname, c.__name__), c.structure)


def scenario_kit_assembly():
    from moclo.kits import ytk
    import moclo.registry.ytk as rytk
    reg = rytk.YTKRegistry()
    def get(*ids):
        return [reg[i].entity for i in ids]
    vec = reg["pYTK095"].entity
    good = get("pYTK008", "pYTK047", "pYTK073", "pYTK074", "pYTK086", "pYTK092")
    run("kitasm.ytk.types", lambda: [type(x).__name__ for x in [vec] + good])
    for label, mods, kw in [
        ("full", good, {}),
        ("named", good[::-1], {"id": "X1", "name": "Y1"}),
        ("missing", good[:3] + good[4:], {}),
        ("dup", good + [good[2]], {}),
        ("dup2", good + get("pYTK009"), {}),
        ("single", good[:1], {}),
    ]:
        run("kitasm.ytk." + label, lambda: vec.assemble(*mods, **kw))
        run("kitasm.ytk.%s.vec_after" % label, lambda: vec.record)
        for m in mods:
            run("kitasm.ytk.%s.after.%s" % (label, m.record.id), lambda: m.record)


def scenario_characterize(rng, rounds):
    bsai, bsmbi = named(["BsaI", "BsmBI"])
    for r in range(rounds):
        e = [bsai, bsmbi][r % 2]
        n = 4
        sigs = []
        while len(sigs) < 4:
            sigs.append(rand_ovhg(rng, n, avoid=sigs))
        Base = type(str("Base%d" % r), (P.AbstractPart, M.Entry), {"cutter": e})
        SubA = type(str("SubA%d" % r), (Base,), {"signature": (sigs[0], sigs[1])})
        SubB = type(str("SubB%d" % r), (Base,), {"signature": (sigs[1], sigs[2])})
        SubC = type(str("SubC%d" % r), (SubB,), {"signature": (sigs[2], sigs[3])})  # grand-child: not searched from Base
        Conc = type(str("Conc%d" % r), (P.AbstractPart, M.Entry), {"cutter": e, "signature": (sigs[0], sigs[1])})
        ConcSub = type(str("ConcSub%d" % r), (Conc,), {"signature": (sigs[1], sigs[2])})
        # several candidates valid for the same record: the first direct subclass wins,
        # and a concrete class comes after its own subclasses
        SubA2 = type(str("SubA2_%d" % r), (Base,), {"signature": (sigs[0], sigs[1])})
        ConcTwin = type(str("ConcTwin%d" % r), (Conc,), {})
        ConcTwin2 = type(str("ConcTwin2_%d" % r), (Conc,), {"signature": (sigs[0].lower(), "N" * n)})
        VBase = type(str("VBase%d" % r), (P.AbstractPart, V.EntryVector), {"cutter": e})
        VSub = type(str("VSub%d" % r), (VBase,), {"signature": (sigs[0], sigs[3])})
        kind = r % 6
        a, b = [(0, 1), (1, 2), (2, 3), (0, 3), (3, 0), (0, 1)][kind]
        if kind == 5:
            dna = clean_dna(rng, 60, [e])
        else:
            dna = module_dna(e, rng, sigs[a], sigs[b], clean_dna(rng, rng.randint(1, 30), [e]),
                             clean_dna(rng, rng.randint(5, 40), [e]))
        rec = make_record(rng, dna, "char%d" % r, rot=rng.choice([0, 3, rng.randrange(len(dna)), -4]),
                          case=rng.choice([0, 1, 2]))
        vdna = vector_dna(e, rng, sigs[3], sigs[0], clean_dna(rng, 15, [e]), clean_dna(rng, 30, [e]))
        vrec = make_record(rng, vdna, "vchar%d" % r, rot=rng.choice([0, 7, -2]))
        for cls in (Base, SubA, SubB, SubC, Conc, ConcSub, SubA2, ConcTwin, ConcTwin2, VBase, VSub):
            run("char.%d.k%d.%s" % (r, kind, cls.__name__), cls.characterize, rec)
            run("char.%d.k%d.%s.vec" % (r, kind, cls.__name__), cls.characterize, vrec)
        run("char.%d.abstract" % r, P.AbstractPart.characterize, rec)
        if r % 10 == 0:
            # a subclass whose validity check blows up with something else than InvalidSequence
            class Boom(Base):
                signature = (sigs[0], sigs[1])
                def is_valid(self):
                    raise KeyError("boom")
            run("char.%d.boom" % r, Base.characterize, rec)
            run("char.%d.noid" % r, SubC.characterize, object())


def scenario_kit_characterize(stride=3):
    from moclo.kits import ytk, cidar, ecoflex, plant
    import moclo.kits.moclo as mk
    bases = [("ytk", ytk.YTKPart), ("cidar", cidar.CIDARPart), ("ecoflex", ecoflex.EcoFlexPart)]
    regs = dict(_registries())
    for kname, base in bases:
        reg = regs[kname]()
        for k, rid in enumerate(sorted(reg)):
            if k % stride:
                continue
            run("kitchar.%s.%s" % (kname, rid),
                lambda: type(base.characterize(reg[rid].entity.record)).__name__)


def scenario_structured(rng):
    bsai, bsmbi = named(["BsaI", "BsmBI"])
    # regex caching is per class: a subclass overriding the cutter / structure gets its own
    A = type(str("A"), (M.Entry,), {"cutter": bsai})
    run("sr.A.dict.before", lambda: "_regex" in A.__dict__)
    ra = A._get_regex()
    run("sr.A.dict.after", lambda: "_regex" in A.__dict__)
    run("sr.A.same", lambda: A._get_regex() is ra)
    B = type(str("B"), (A,), {"cutter": bsmbi})
    run("sr.B.dict.before", lambda: ("_regex" in B.__dict__, B._regex is ra))
    rb = B._get_regex()
    run("sr.B.own", lambda: (rb is ra, rb.pattern, ra.pattern, B._get_regex() is rb, A._get_regex() is ra))
    C = type(str("C"), (A,), {"_regex": None})
    run("sr.C", lambda: (C._get_regex().pattern, "_regex" in C.__dict__, C._get_regex() is C._regex))
    sentinel = S.DNARegex("(A)(C)(G)")
    D = type(str("D"), (A,), {"_regex": sentinel})
    run("sr.D", lambda: (D._get_regex() is sentinel, D._get_regex().pattern))
    class E(S.StructuredRecord):
        calls = 0
        @classmethod
        def structure(cls):
            cls.calls += 1
            return "(AC)(N*)(GT)"
    run("sr.E.calls0", lambda: E.calls)
    recs = [
        CircularRecord(Seq("TTACGGGGTTT"), id="e1"),
        CircularRecord(Seq("GGGTTTTTTACG"), id="e2"),
        CircularRecord(Seq("ggtTTTTTTacG"), id="e3", annotations={"topology": "circular"}),
        SeqRecord(Seq("GGGTTTTTTACG"), id="e4", annotations={"topology": "linear"}),
        SeqRecord(Seq("GGGTTTTTTACG"), id="e5", annotations={"topology": "CIRCULAR"}),
        SeqRecord(Seq("GGGTTTTTTACG"), id="e6", annotations={"topology": "Linear"}),
        SeqRecord(Seq("GGGTTTTTTACG"), id="e7"),
        SeqRecord(Seq("TTTTTTT"), id="e8"),
        SeqRecord(Seq(""), id="e9"),
        CircularRecord(Seq("ACGT"), id="e10"),
        SeqRecord(Seq("ACGT"), id="e11", annotations={"topology": None}),
        SeqRecord(Seq("ACGT"), id="e12", annotations={"topology": 3}),
        "ACGT",
        None,
    ]
    for i, rec in enumerate(recs):
        def build():
            return E(rec)
        res = run("sr.E.%d.init" % i, lambda: type(build()).__name__)
        if res and res[0] == "EXC":
            continue
        ent = E(rec)
        run("sr.E.%d.is_valid" % i, ent.is_valid)
        run("sr.E.%d.match" % i, lambda: (ent._match.span(0), ent._match.span(1), ent._match.span(2),
                                            ent._match.span(3), ent._match.group(0)))
        run("sr.E.%d.is_valid2" % i, ent.is_valid)
        run("sr.E.%d.attrs" % i, lambda: (ent.record is rec, ent.seq is rec.seq))
    run("sr.E.calls1", lambda: E.calls)
    run("sr.abstract", lambda: S.StructuredRecord(SeqRecord(Seq("A"))))
    run("sr.abstract.structure", lambda: S.StructuredRecord.structure())
    run("sr.meta", lambda: (type(S.StructuredRecord).__name__, [c.__name__ for c in S.StructuredRecord.__mro__],
                            sorted(S.StructuredRecord.__abstractmethods__), S.StructuredRecord.__module__,
                            S.StructuredRecord.__name__, S.StructuredRecord.__doc__,
                            sorted(k for k in vars(S.StructuredRecord) if not k.startswith("_abc"))))
    # an entity whose _match is overridden to return None: is_valid must say False
    class F(E):
        _match = None
    run("sr.F", lambda: F(recs[0]).is_valid())
    class G(E):
        @property
        def _match(self):
            raise errors.IllegalSite(self.seq)
    run("sr.G", lambda: G(recs[0]).is_valid())
    class H(E):
        @property
        def _match(self):
            raise ValueError("plain value error")
    run("sr.H", lambda: H(recs[0]).is_valid())



PART_ENZYMES = ["BsaI", "BtsI", "BsmBI", "BsrDI", "SapI", "BseRI", "BbsI", "BtsIMutI",
                "EciI", "MmeI", "AarI", "BseGI", "BsgI", "BciVI"]


def scenario_part_instances(rng, rounds):
    """Parts (signature-typed modules and vectors), including 3' overhang cutters."""
    pool = named(PART_ENZYMES)
    for r in range(rounds):
        e = pool[r % len(pool)]
        n = len(e.ovhgseq)
        nmod = 1 if n < 2 else rng.randint(1, 3)
        sigs = []
        while len(sigs) < nmod + 1:
            sigs.append(rand_ovhg(rng, n, avoid=sigs))
        kind = r % 9
        label = "part.%d.%s.k%d" % (r, e, kind)
        mods = []
        for i in range(nmod):
            cls = type(str("PM%d_%d" % (r, i)), (P.AbstractPart, rng.choice([M.Entry, M.Cassette])),
                       {"cutter": e, "signature": (sigs[i], sigs[i + 1])})
            dna = module_dna(e, rng, sigs[i], sigs[i + 1], clean_dna(rng, rng.randint(1, 30), [e]),
                             clean_dna(rng, rng.randint(5, 40), [e]))
            rec = make_record(rng, dna, "pm%d_%d" % (r, i),
                              rot=rng.choice([0, 2, rng.randrange(len(dna)), -3, len(dna) * 2 + 1, len(dna) - 1]),
                              case=rng.choice([0, 1, 2]), citations=(r % 3 == 0), nfeat=rng.randint(0, 4))
            mods.append(cls(rec))
        VCls = type(str("PV%d" % r), (P.AbstractPart, V.CassetteVector),
                    {"cutter": e, "signature": (sigs[nmod], sigs[0])})
        vdna = vector_dna(e, rng, sigs[0], sigs[nmod], clean_dna(rng, rng.randint(0, 30), [e]),
                          clean_dna(rng, rng.randint(5, 50), [e]))
        if kind == 6:   # wrong signature on the record
            vdna = vector_dna(e, rng, rc(sigs[0]), sigs[nmod], clean_dna(rng, 10, [e]), clean_dna(rng, 30, [e]))
        vrec = make_record(rng, vdna, "pv%d" % r,
                           rot=rng.choice([0, 1, rng.randrange(len(vdna)), -5, len(vdna) + 3, len(vdna) - 2]),
                           case=rng.choice([0, 1, 2]), citations=(r % 3 == 0), nfeat=rng.randint(0, 4))
        vec = VCls(vrec)
        for i, m in enumerate(mods):
            snapshot_entity(label + ".mod%d" % i, m)
            # the same record through the wrong part class
            other = type(mods[(i + 1) % nmod])(m.record)
            run(label + ".mod%d.wrongclass" % i, other.is_valid)
        snapshot_entity(label + ".vec", vec, with_placeholder=True)
        if kind == 1:
            mods.append(mods[0])
        elif kind == 2 and nmod > 1:
            del mods[rng.randrange(nmod)]
        elif kind == 3:
            mods.reverse()
        kwargs = {"id": "pid%d" % r} if kind == 4 else {}
        run(label + ".assemble", lambda: vec.assemble(*mods, **kwargs))
        run(label + ".vec_after", lambda: vrec)
        for i, m in enumerate(mods):
            run(label + ".mod_after.%d" % i, lambda: m.record)


def scenario_assemble_kwargs(rng, rounds):
    """assemble() keyword handling: defaults, explicit None, unknown keywords, iterables."""
    pool = named(["BsaI", "BsmBI", "SapI", "BbsI"])
    variants = [
        {}, {"name": "n"}, {"id": "i"}, {"name": "n", "id": "i"}, {"name": None}, {"id": None},
        {"name": None, "id": None}, {"id_": "ignored"}, {"vector": "ignored", "modules": "ignored"},
        {"name": "", "id": ""}, {"name": 5, "id": ("t",)}, {"self_": 1, "module_": 2},
    ]
    for r in range(rounds):
        e = pool[r % len(pool)]
        n = len(e.ovhgseq)
        Vec = type(str("KVec%d" % r), (V.EntryVector,), {"cutter": e})
        Mod = type(str("KMod%d" % r), (M.Product,), {"cutter": e})
        nmod = rng.randint(1, 3)
        ovs = []
        while len(ovs) < nmod + 1:
            ovs.append(rand_ovhg(rng, n, avoid=ovs))
        mods = [Mod(make_record(rng, module_dna(e, rng, ovs[i], ovs[i + 1], clean_dna(rng, 10, [e]),
                                                clean_dna(rng, 20, [e])), "kmod%d_%d" % (r, i),
                                rot=rng.randrange(30), citations=True)) for i in range(nmod)]
        vec = Vec(make_record(rng, vector_dna(e, rng, ovs[0], ovs[nmod], clean_dna(rng, 10, [e]),
                                              clean_dna(rng, 25, [e])), "kvec%d" % r, rot=rng.randrange(30),
                              citations=True))
        for j, kw in enumerate(variants):
            run("kw.%d.%d" % (r, j), lambda: vec.assemble(*mods, **kw))
        run("kw.%d.tuple" % r, lambda: vec.assemble(mods[0], *tuple(mods[1:])))
        run("kw.%d.gen" % r, lambda: vec.assemble(mods[0], *(m for m in mods[1:])))
        run("kw.%d.posonly" % r, lambda: vec.assemble(module=mods[0]))
        run("kw.%d.dupkw" % r, lambda: vec.assemble(mods[0], module=mods[0]))
        run("kw.%d.notamodule" % r, lambda: vec.assemble(mods[0], None))
        run("kw.%d.string" % r, lambda: vec.assemble("ACGT"))
        run("kw.%d.unbound" % r, lambda: V.AbstractVector.assemble(vec, *mods, name="unbound"))


if __name__ == "__main__":
    scenario_structures()                                   # structure()/regex of every enzyme
    scenario_module_instances(random.Random(101), 480)      # matches, wraps, case, illegal sites
    scenario_assemblies(random.Random(102), 140)
    scenario_part_instances(random.Random(103), 56)
    scenario_kits(stride=2)                                 # kit classes (some override structure)
    scenario_kit_assembly()
    print(digest())
