# coding: utf-8
"""Differential test for the circular-record code (property C15).

Run as:  cd /tmp/agents5/C15 && /venv/bin/python pairs_out/C15_p2/equiv.py [dump-file]

Exercises `moclo.record.CircularRecord` (constructor, `in`, `+`, slices,
rotations, reverse complement), `moclo.regex` and the `moclo.core` code that
opens plasmids (target sequences, assemblies) on generated inputs, and prints
a digest of every result / exception type and message / warning / input
state afterwards.  The digest must not depend on the refactoring.
"""
import sys

sys.path.insert(0, "/tmp/agents5/C15")
import tests  # noqa: E402,F401

import copy  # noqa: E402
import hashlib  # noqa: E402
import random  # noqa: E402
import re  # noqa: E402
import threading  # noqa: E402
import warnings  # noqa: E402

from Bio.Restriction import BpiI, BsaI, BsmBI, SapI, BseRI  # noqa: E402
from Bio.Seq import Seq  # noqa: E402
from Bio.SeqFeature import (  # noqa: E402
    SeqFeature,
    FeatureLocation,
    CompoundLocation,
    Reference,
)
from Bio.SeqRecord import SeqRecord  # noqa: E402

from moclo.record import CircularRecord  # noqa: E402
from moclo.regex import DNARegex, SeqMatch  # noqa: E402
from moclo.core import AbstractModule, AbstractVector  # noqa: E402
from moclo.core._utils import add_as_source  # noqa: E402

LINES = []
RNG = random.Random(15)


def emit(*parts):
    LINES.append(" | ".join(str(p) for p in parts))


def outcome(func):
    """Run func, describe its result / exception and the warnings it gave."""
    with warnings.catch_warnings(record=True) as caught:
        warnings.simplefilter("always")
        try:
            res = ("ok", func())
        except RecursionError:
            res = ("exc", "RecursionError")
        except Exception as exc:  # noqa
            res = ("exc", type(exc).__name__, str(exc))
    warns = [(type(w.message).__name__, str(w.message)) for w in caught]
    return res + (("warnings", warns) if warns else ())


def show_loc(loc):
    return repr(loc)


def show_feature(feat):
    return (
        feat.type,
        feat.id,
        show_loc(feat.location),
        sorted((k, repr(v)) for k, v in feat.qualifiers.items()),
    )


def show_record(rec):
    if not isinstance(rec, SeqRecord):
        return ("value", type(rec).__name__, repr(rec))
    try:
        text = str(rec.seq)
    except Exception as exc:  # noqa
        text = "<{}>".format(type(exc).__name__)
    return (
        type(rec).__name__,
        text,
        rec.id,
        rec.name,
        rec.description,
        list(rec.dbxrefs),
        [show_feature(f) for f in rec.features],
        sorted((k, repr(v)) for k, v in rec.annotations.items()),
        sorted((k, repr(v)) for k, v in rec.letter_annotations.items()),
    )


def sharing(a, b):
    """Which containers of record a are the very objects of record b."""
    flags = []
    flags.append(("seq", a.seq is b.seq))
    flags.append(("dbxrefs", a.dbxrefs is b.dbxrefs))
    flags.append(("features", a.features is b.features))
    flags.append(("annotations", a.annotations is b.annotations))
    for key in sorted(set(a.annotations) & set(b.annotations)):
        va, vb = a.annotations[key], b.annotations[key]
        if isinstance(va, (list, dict)):
            flags.append(("annotations." + key, va is vb))
    for i, (fa, fb) in enumerate(zip(a.features, b.features)):
        flags.append(("feature%d" % i, fa is fb))
        flags.append(("feature%d.qualifiers" % i, fa.qualifiers is fb.qualifiers))
        flags.append(("feature%d.location" % i, fa.location is fb.location))
    for key in sorted(set(a.letter_annotations) & set(b.letter_annotations)):
        flags.append(
            ("letter." + key, a.letter_annotations[key] is b.letter_annotations[key])
        )
    return flags


def random_seq(n, alphabet="ACGT"):
    return "".join(RNG.choice(alphabet) for _ in range(n))


def sample_features(n):
    """A spread of features for a record of n letters."""
    feats = []
    if n >= 1:
        feats.append(
            SeqFeature(
                FeatureLocation(0, n),
                type="source",
                id="whole",
                qualifiers={"label": ["whole"], "citation": ["[1]"]},
            )
        )
        feats.append(
            SeqFeature(FeatureLocation(0, n, strand=-1), type="misc", id="whole-misc")
        )
    if n >= 3:
        feats.append(
            SeqFeature(
                FeatureLocation(1, 3, strand=1),
                type="CDS",
                id="cds",
                qualifiers={"note": ["x", ["nested"]]},
            )
        )
        feats.append(
            SeqFeature(FeatureLocation(0, 2), type="source", id="partial-source")
        )
        feats.append(
            SeqFeature(
                CompoundLocation(
                    [FeatureLocation(n - 1, n, strand=1), FeatureLocation(0, 2, strand=1)]
                ),
                type="gene",
                id="origin-spanning",
            )
        )
        feats.append(
            SeqFeature(
                CompoundLocation(
                    [FeatureLocation(0, 1), FeatureLocation(2, 3)], operator="order"
                ),
                type="source",
                id="compound-source",
            )
        )
    if n >= 4:
        feats.append(
            SeqFeature(FeatureLocation(n - 2, n + 1, strand=-1), type="over", id="past-end")
        )
        feats.append(
            SeqFeature(
                FeatureLocation(2, 4, ref="other", ref_db="db"), type="ref", id="reffed"
            )
        )
    return feats


def full_record(text, cls=SeqRecord, topology=None, **extra):
    n = len(text)
    annotations = {"references": [["ref-1"]], "comment": {"k": [1]}}
    annotations["molecule_type"] = "DNA"
    if topology is not None:
        annotations["topology"] = topology
    annotations.update(extra)
    return cls(
        Seq(text),
        id="rec-%d" % n,
        name="name-%d" % n,
        description="desc-%d" % n,
        dbxrefs=["db:%d" % n],
        features=sample_features(n),
        annotations=annotations,
        letter_annotations={"phred": list(range(n)), "text": "x" * n},
    )


# --------------------------------------------------------------------------
# 1. membership
# --------------------------------------------------------------------------


def check_membership():
    texts = ["", "A", "AC", "ATGC", "AAAA", "ATAT", "acGT", "ATGCATGCATGC"]
    texts += [random_seq(RNG.randint(1, 9)) for _ in range(12)]
    texts += [random_seq(RNG.randint(2, 7), "ACGTacgt") for _ in range(6)]
    for text in texts:
        n = len(text)
        cr = CircularRecord(Seq(text), id="m")
        queries = {"", "A", "a", "N", text, text * 2, text + "A", text[::-1]}
        doubled = text * 3
        for i in range(n):
            for size in range(1, n + 3):
                queries.add(doubled[i : i + size])
        for _ in range(10):
            queries.add(random_seq(RNG.randint(1, n + 2)))
        for k in range(0, n + 1):
            rot = cr >> k if n else cr
            for q in sorted(queries):
                emit("in", text, k, q, outcome(lambda: q in rot))
        emit("in-state", text, show_record(cr))
    cr = CircularRecord(Seq("ATGC"), id="m")
    others = [Seq("GCAT"), Seq("ATGCA"), b"GC", 3, None, ["A"], ("G", "C"), SeqRecord(Seq("GC"))]
    for other in others:
        emit("in-odd", repr(other), outcome(lambda: other in cr))
    for cr in (CircularRecord(None, id="none"), CircularRecord(Seq(None, length=4), id="u")):
        for q in ("", "A", "AAAAA"):
            emit("in-undefined", cr.id, q, outcome(lambda: q in cr))


# --------------------------------------------------------------------------
# 2. concatenation
# --------------------------------------------------------------------------


def check_addition():
    for text in ["", "A", "ATGC", "atgcATGC"]:
        cr = full_record(text, CircularRecord)
        operands = [
            "",
            "AT",
            Seq("AT"),
            SeqRecord(Seq("AT"), id="lin"),
            CircularRecord(Seq("AT"), id="circ"),
            cr,
            None,
            3,
            [],
            b"AT",
        ]
        for other in operands:
            emit("add", text, repr(other)[:40], outcome(lambda: show_record(cr + other)))
            emit("radd", text, repr(other)[:40], outcome(lambda: show_record(other + cr)))

            def iadd():
                local = cr
                local += other
                return show_record(local)

            emit("iadd", text, repr(other)[:40], outcome(iadd))
            emit("add-kw", outcome(lambda: cr.__add__(other, 1, x=2)))
            emit("radd-kw", outcome(lambda: cr.__radd__()))
        emit("add-state", text, show_record(cr))
    emit("add-meta", CircularRecord.__add__.__name__, CircularRecord.__radd__.__name__)
    emit("add-doc", CircularRecord.__add__.__doc__, CircularRecord.__radd__.__doc__)


# --------------------------------------------------------------------------
# 3. constructor
# --------------------------------------------------------------------------


class Uncopyable(object):
    def __init__(self, tag):
        self.tag = tag

    def __deepcopy__(self, memo):
        raise RuntimeError("cannot copy " + self.tag)

    def __repr__(self):
        return "Uncopyable(%s)" % self.tag


def check_constructor():
    topologies = [None, "circular", "Circular", "CIRCULAR", "linear", "Linear", "LINEAR", "", "foo", 5, b"linear"]
    for text in ["", "A", "ATGC", "atgcATGCat"]:
        for topology in topologies:
            sr = full_record(text, topology=topology)
            before = show_record(sr)

            def wrap():
                cr = CircularRecord(sr)
                return show_record(cr), sharing(cr, sr)

            emit("wrap", text, repr(topology), outcome(wrap))
            emit("wrap-state", show_record(sr) == before)

            # arguments other than the record are ignored
            emit(
                "wrap-ignored",
                outcome(
                    lambda: show_record(
                        CircularRecord(sr, "i", "n", "d", ["x"], [], {"topology": "linear"}, {})
                    )
                ),
            )

            # direct construction keeps references
            def direct():
                dbx, feats, anns = ["d"], sample_features(len(text)), {"k": [1]}
                if topology is not None:
                    anns["topology"] = topology
                letters = {"q": list(range(len(text)))}
                cr = CircularRecord(Seq(text), "i", "n", "d", dbx, feats, anns, letters)
                return (
                    show_record(cr),
                    cr.dbxrefs is dbx,
                    cr.features is feats,
                    cr.annotations is anns,
                )

            emit("direct", text, repr(topology), outcome(direct))
    # defaults and odd arguments
    emit("ctor-defaults", outcome(lambda: show_record(CircularRecord(Seq("ATGC")))))
    emit("ctor-none", outcome(lambda: show_record(CircularRecord(None))))
    emit("ctor-str", outcome(lambda: show_record(CircularRecord("ATGC"))))
    emit("ctor-bad-id", outcome(lambda: show_record(CircularRecord(Seq("A"), id=3))))
    emit("ctor-bad-ann", outcome(lambda: show_record(CircularRecord(Seq("A"), annotations=[]))))
    emit("ctor-bad-ann2", outcome(lambda: show_record(CircularRecord(Seq("A"), annotations=[("topology", "x")]))))
    emit("ctor-bad-feats", outcome(lambda: show_record(CircularRecord(Seq("A"), features=()))))
    emit("ctor-bad-letters", outcome(lambda: show_record(CircularRecord(Seq("AC"), letter_annotations={"q": [1]}))))
    emit(
        "ctor-kw",
        outcome(
            lambda: show_record(
                CircularRecord(seq=Seq("AC"), letter_annotations={"q": [1, 2]}, annotations={"topology": "CirculaR"}, dbxrefs=["z"])
            )
        ),
    )
    # wrapping circular records, twice
    cr = full_record("ATGCAT", CircularRecord, topology="circular")
    emit("rewrap", outcome(lambda: (show_record(CircularRecord(cr)), sharing(CircularRecord(cr), cr))))
    emit("rewrap2", outcome(lambda: show_record(CircularRecord(CircularRecord(cr)))))

    # edits of the copy do not reach the original
    sr = full_record("ATGCAT", topology="circular")
    before = show_record(sr)
    cr = CircularRecord(sr)
    cr.dbxrefs.append("new")
    cr.features[0].qualifiers["label"].append("edited")
    cr.features[2].location = FeatureLocation(0, 1)
    cr.features.pop()
    cr.annotations["references"][0].append("edited")
    cr.annotations["comment"]["k"].append(2)
    cr.annotations["topology"] = "edited"
    cr.letter_annotations["phred"][0] = 99
    cr.id = "edited"
    emit("wrap-edit", show_record(sr) == before, show_record(sr), show_record(cr))

    # payloads that cannot be copied: which failure comes first
    spots = ["dbxrefs", "features", "annotations", "letters"]
    for mask in range(1, 16):
        for topology in ("circular", "linear"):
            sr = full_record("ATGC", topology=topology)
            chosen = [s for i, s in enumerate(spots) if mask & (1 << i)]
            if "dbxrefs" in chosen:
                sr.dbxrefs.append(Uncopyable("dbxrefs"))
            if "features" in chosen:
                sr.features[0].qualifiers["x"] = Uncopyable("features")
            if "annotations" in chosen:
                sr.annotations["x"] = Uncopyable("annotations")
            if "letters" in chosen:
                sr.letter_annotations["x"] = [Uncopyable("letters")] * 4
            emit("uncopyable", chosen, topology, outcome(lambda: show_record(CircularRecord(sr))))
    sr = full_record("ATGC")
    sr.annotations["lock"] = threading.Lock()
    res = outcome(lambda: show_record(CircularRecord(sr)))
    emit("uncopyable-lock", res[:2] if res[0] == "exc" else "copied")  # no addresses


# --------------------------------------------------------------------------
# 4. slices and items
# --------------------------------------------------------------------------


def check_slices():
    for text in ["", "A", "ATGC", "atGCatgcAT"]:
        n = len(text)
        for topology in (None, "circular"):
            cr = full_record(text, CircularRecord, topology=topology)
            before = show_record(cr)
            bounds = [None] + list(range(-n - 2, n + 3))
            for a in bounds:
                for b in bounds:
                    for step in (None, 1, 2, -1):
                        if step in (2, -1) and (a not in (None, 0, 1, -1) or b not in (None, n, -1)):
                            continue

                        def cut():
                            sl = cr[a:b:step]
                            plain = str(sl.seq) == text[a:b:step]
                            return show_record(sl), plain, type(sl) is SeqRecord, sharing(sl, cr)

                        emit("slice", text, topology, a, b, step, outcome(cut))
            for i in list(range(-n - 1, n + 2)) + ["a", None, 1.5, (1, 2)]:
                emit("item", text, repr(i), outcome(lambda: repr(cr[i])))
            emit("slice-zero-step", outcome(lambda: show_record(cr[::0])))
            emit("slice-state", show_record(cr) == before)
    # a slice whose parent still carries a topology / uncopyable payloads
    cr = full_record("ATGCATGC", CircularRecord, topology="circular")
    cr.annotations["molecule_type"] = Uncopyable("molecule_type")
    emit("slice-uncopyable-ann", outcome(lambda: show_record(cr[1:5])))
    cr.features[2].qualifiers["x"] = Uncopyable("qualifier")
    emit("slice-uncopyable-both", outcome(lambda: show_record(cr[0:5])))
    cr.annotations["molecule_type"] = "DNA"
    emit("slice-uncopyable-feat", outcome(lambda: show_record(cr[0:5])))
    cr.letter_annotations["odd"] = [Uncopyable("letter")] * 8
    emit("slice-uncopyable-letter", outcome(lambda: show_record(cr[0:5])))
    emit("slice-uncopyable-skip", outcome(lambda: show_record(cr[5:5])))

    # edits of a slice do not reach the circular record
    cr = full_record("ATGCATGC", CircularRecord, topology="circular")
    before = show_record(cr)
    with warnings.catch_warnings():
        warnings.simplefilter("ignore")
        sl = cr[0:6]
    sl.features[0].qualifiers.setdefault("note", []).append("edited")
    for feat in sl.features:
        feat.qualifiers["edited"] = ["yes"]
    sl.letter_annotations["phred"][0] = 77
    sl.annotations["topology"] = "circular"
    sl.dbxrefs.append("x")
    emit("slice-edit", show_record(cr) == before, show_record(sl))


# --------------------------------------------------------------------------
# 5. rotations and reverse complement
# --------------------------------------------------------------------------


def check_rotations():
    for text in ["A", "AC", "ATGC", "atGCatgcAT"]:
        n = len(text)
        cr = full_record(text, CircularRecord, topology="circular")
        before = show_record(cr)
        for k in range(-2 * n - 1, 2 * n + 2):
            for op in (">>", "<<"):

                def rotate():
                    rot = cr >> k if op == ">>" else cr << k
                    return show_record(rot), rot is cr, sharing(rot, cr)

                emit("rotate", text, op, k, outcome(rotate))
        emit("rotate-twice", outcome(lambda: show_record((cr >> 1) >> (n - 1))))
        nowhere = full_record(text, CircularRecord)
        nowhere.features.insert(1, SeqFeature(None, type="nowhere", id="no-location"))
        for k in (0, 1, n - 1, n, -1):
            emit("rotate-nowhere", text, k, outcome(lambda: show_record(nowhere >> k)), outcome(lambda: show_record(nowhere << k)))
        emit("rotate-state", show_record(cr) == before)
        for kwargs in ({}, {"id": True, "annotations": True}, {"features": False, "letter_annotations": False, "dbxrefs": True, "name": "n", "description": "d"}):
            emit("revcomp", text, sorted(kwargs), outcome(lambda: show_record(cr.reverse_complement(**kwargs))))
        emit("revcomp-state", show_record(cr) == before)
    empty = CircularRecord(Seq(""), id="empty")
    for k in (0, 1, -1):
        emit("rotate-empty", k, outcome(lambda: show_record(empty >> k)), outcome(lambda: show_record(empty << k)))
    cr = CircularRecord(Seq("ATGC"), id="x")
    for k in ("a", None, 1.5):
        emit("rotate-odd", repr(k), outcome(lambda: show_record(cr >> k)), outcome(lambda: show_record(cr << k)))
    linear = full_record("ATGCAT", CircularRecord)
    linear.annotations["topology"] = "linear"
    emit("rotate-relabelled", outcome(lambda: show_record(linear >> 2)))
    emit("revcomp-relabelled", outcome(lambda: show_record(linear.reverse_complement(annotations=True))))
    odd = CircularRecord(Seq("ATGC"), id="x", letter_annotations={"q": [1, 2, 3, 4], "t": (1, 2, 3, 4)})
    odd.letter_annotations["t"] = (1, 2, 3, 4)
    emit("rotate-letters", outcome(lambda: show_record(odd >> 1)))


# --------------------------------------------------------------------------
# 6. regular expressions over circular records
# --------------------------------------------------------------------------


def show_match(match):
    if match is None:
        return None
    groups = []
    for i in range(match.match.re.groups + 1):
        groups.append((match.span(i), outcome(lambda: show_record(match.group(i)))))
    return (match.start(), match.end(), match.shift, type(match.rec).__name__, groups)


def check_regex():
    patterns = ["ATG", "(AT)(GC)", "GGTCTCN(NNNN)", "(N)(NN*N)(N)", "GC(AT)N*", "RY", "atg", "(W)(S)"]
    texts = ["", "A", "ATGC", "GCAT", "TGCA", "atgc", "CATGGTCTCAATGC", "TCAATGCCATGGTC"]
    texts += [random_seq(RNG.randint(3, 12), "ACGTacgt") for _ in range(6)]
    for pattern in patterns:
        rx = DNARegex(pattern)
        emit("regex", pattern, rx.pattern, rx.regex.pattern)
        for text in texts:
            subjects = [
                Seq(text),
                SeqRecord(Seq(text), id="lin", features=sample_features(len(text))),
                full_record(text, CircularRecord, topology="circular"),
            ]
            for subject in subjects:
                before = show_record(subject)
                for kwargs in ({}, {"linear": False}, {"pos": 1}, {"pos": 2, "endpos": 3}, {"endpos": 0}, {"pos": len(text)}):
                    emit(
                        "search",
                        pattern,
                        text,
                        type(subject).__name__,
                        sorted(kwargs.items()),
                        outcome(lambda: show_match(rx.search(subject, **kwargs))),
                    )
                emit("search-state", show_record(subject) == before)
    rx = DNARegex("ATG")
    for subject in ("ATG", b"ATG", None, 3, ["A"]):
        emit("search-odd", repr(subject), outcome(lambda: rx.search(subject)))
    for pattern in ([1, 2], None, ["A", "N"], ("R", "(", ")"), 5, "", "n"):
        emit("transcribe-odd", repr(pattern), outcome(lambda: DNARegex._transcribe(pattern)))
    for args in ((None,), (0, None), ("a",), (-2,), (0, -1), (1, 2, False)):
        for subject in (Seq("CATGCA"), CircularRecord(Seq("TGCA"), id="c")):
            emit("search-bounds", args, type(subject).__name__, outcome(lambda: show_match(rx.search(subject, *args))))
    blank = re.compile("(x)?").match("")
    for rec in (Seq(""), None, SeqRecord(Seq(""), id="e"), CircularRecord(Seq("AT"), id="c")):
        for i in (0, 1, 2):
            emit("group-direct", repr(rec)[:30], i, outcome(lambda: show_record(SeqMatch(blank, rec).group(i))))


# --------------------------------------------------------------------------
# 7. opening plasmids: target sequences and assemblies
# --------------------------------------------------------------------------


def make_kit(enzyme):
    class Vector(AbstractVector):
        cutter = enzyme

    class Module(AbstractModule):
        cutter = enzyme

    return Vector, Module


def site(enzyme):
    return enzyme.site


def revcomp(text):
    return str(Seq(text).reverse_complement())


def build_module(enzyme, up, payload, down, spacer_in, spacer_out, backbone):
    """backbone + site + spacer + up + payload + down + spacer + site(rc)"""
    if enzyme.is_3overhang():
        # 3' overhang cutters are only used to exercise the other branch
        return backbone + site(enzyme) + spacer_in + up + payload + down + spacer_out + revcomp(site(enzyme))
    return backbone + site(enzyme) + spacer_in + up + payload + down + spacer_out + revcomp(site(enzyme))


def build_vector(enzyme, up, down, spacer_in, spacer_out, backbone, placeholder):
    return backbone + up + spacer_out + revcomp(site(enzyme)) + placeholder + site(enzyme) + spacer_in + down + backbone[:3]


def annotate(record, label):
    n = len(record.seq)
    record.annotations["references"] = [Reference()]
    record.annotations["references"][0].title = "ref of " + label
    record.features.extend(
        [
            SeqFeature(FeatureLocation(0, n), type="source", id=label + "-src", qualifiers={"citation": ["[1]"]}),
            SeqFeature(FeatureLocation(n // 3, n // 3 + 5, strand=1), type="CDS", id=label + "-cds", qualifiers={"label": [label], "citation": ["[1]"]}),
            SeqFeature(FeatureLocation(n - 4, n, strand=-1), type="misc", id=label + "-tail"),
        ]
    )
    return record


def describe_entity(entity):
    out = []
    out.append(("valid", outcome(entity.is_valid)))
    out.append(("start", outcome(lambda: str(entity.overhang_start()))))
    out.append(("end", outcome(lambda: str(entity.overhang_end()))))
    out.append(("target", outcome(lambda: show_record(entity.target_sequence()))))
    out.append(("target-again", outcome(lambda: show_record(entity.target_sequence()))))
    if isinstance(entity, AbstractVector):
        out.append(("placeholder", outcome(lambda: show_record(entity.placeholder_sequence()))))
    return out


def check_core():
    spacers = {BpiI: ("TT", "AA"), BsaI: ("T", "A"), BsmBI: ("A", "T"), SapI: ("G", "C")}
    for enzyme in (BpiI, BsaI, BsmBI, SapI):
        Vector, Module = make_kit(enzyme)
        spacer_in, spacer_out = spacers[enzyme]
        size = abs(enzyme.ovhg)
        emit("structure", enzyme.__name__, Vector.structure(), Module.structure())
        ovhs = ["ATGC", "CGTA", "GGAA", "TTCA", "ACCA"]
        ovhs = [o[:size] for o in ovhs]
        for case in range(6):
            backbone = random_seq(RNG.randint(6, 14), "AT")
            chain = ovhs[: RNG.randint(2, 4)]
            texts = []
            for up, down in zip(chain, chain[1:]):
                payload = random_seq(RNG.randint(3, 9), "AT")
                texts.append(build_module(enzyme, up, payload, down, spacer_in, spacer_out, backbone))
            vtext = build_vector(enzyme, chain[0], chain[-1], spacer_in, spacer_out, backbone, random_seq(6, "AT"))
            if case % 2:
                texts = [t.lower() if i % 2 else t for i, t in enumerate(texts)]
                vtext = vtext[:10].lower() + vtext[10:]
            for rotation in (0, 5, len(vtext) - 3):
                modules = []
                for i, t in enumerate(texts):
                    rec = annotate(CircularRecord(Seq(t), id="mod%d" % i, name="mod%d" % i), "mod%d" % i)
                    modules.append(Module(rec >> (rotation + i)))
                vrec = annotate(CircularRecord(Seq(vtext), id="vec", name="vec"), "vec")
                vector = Vector(vrec >> rotation)
                before = [show_record(e.record) for e in modules + [vector]]
                for entity in modules + [vector]:
                    emit("entity", enzyme.__name__, case, rotation, describe_entity(entity))

                def assemble(mods):
                    res = vector.assemble(*mods, id="asm", name="asm")
                    return show_record(res)

                emit("assemble", enzyme.__name__, case, rotation, outcome(lambda: assemble(modules)))
                emit("assemble-rev", outcome(lambda: assemble(modules[::-1])))
                if len(modules) > 1:
                    emit("assemble-missing", outcome(lambda: assemble(modules[1:])))
                    emit("assemble-missing2", outcome(lambda: assemble(modules[:-1])))
                emit("assemble-dup", outcome(lambda: assemble(modules + [Module(modules[0].record >> 1)])))
                extra = Module(CircularRecord(Seq(build_module(enzyme, "AAAA"[:size], "TTT", "CCCC"[:size], spacer_in, spacer_out, backbone)), id="extra"))
                emit("assemble-unused", outcome(lambda: assemble(modules + [extra])))
                emit("core-state", [show_record(e.record) for e in modules + [vector]] == before)
            # linear inputs
            linear = Module(SeqRecord(Seq(texts[0]), id="linear"))
            emit("entity-linear", describe_entity(linear))
            linear = Vector(SeqRecord(Seq(vtext), id="linear", annotations={"topology": "linear"}))
            emit("vector-linear", describe_entity(linear))
            bad = Module(CircularRecord(Seq(backbone * 2), id="bad"))
            emit("entity-bad", describe_entity(bad))
    # a 3' overhang cutter takes the other branch of the target span
    class Module3(AbstractModule):
        cutter = BseRI

        @classmethod
        def structure(cls):
            return "AA(CC)(T*)(GG)AA"

    class Vector3(AbstractVector):
        cutter = BseRI

        @classmethod
        def structure(cls):
            return "A(GG)(AAT*AA)(CC)A"

    for text in ("AACCTTTTGGAAGCGC", "aaccggaaGCGC", "TTGGAAGCGCAACCTT", "AGGAATTAACCAGCGC", "TAACCAGCGCAGGAAT"):
        for cls in (Module3, Vector3):
            for wrap in (CircularRecord, SeqRecord):
                rec = wrap(Seq(text), id="three")
                rec.features.append(SeqFeature(FeatureLocation(2, 9, strand=1), type="CDS"))
                emit("three-prime", text, cls.__name__, wrap.__name__, describe_entity(cls(rec)), show_record(rec))

    # add_as_source on its own
    src = SeqRecord(Seq("ATGC"), id="the-source")
    for location in (None, FeatureLocation(1, 3), FeatureLocation(2, 2), CompoundLocation([FeatureLocation(0, 1), FeatureLocation(2, 3)])):
        dst = SeqRecord(Seq("ATGCATGC"), id="dst", features=[SeqFeature(FeatureLocation(0, 2), type="x")])
        res = add_as_source(src, dst, location) if location is not None else add_as_source(src, dst)
        emit("add_as_source", repr(location), res is dst, show_record(res), show_record(src))
    emit("add_as_source-odd", outcome(lambda: add_as_source(None, SeqRecord(Seq("A")))), outcome(lambda: add_as_source(src, "ATGC")))


def main():
    check_membership()
    check_addition()
    check_constructor()
    check_slices()
    check_rotations()
    check_regex()
    check_core()
    blob = "\n".join(LINES).encode("utf-8")
    if len(sys.argv) > 1:
        with open(sys.argv[1], "wb") as handle:
            handle.write(blob)
    print("checks:", len(LINES))
    print("digest:", hashlib.sha256(blob).hexdigest())


if __name__ == "__main__":
    main()
