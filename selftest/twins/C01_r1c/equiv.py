"""Differential test for the code behind C01 (assembly = Golden Gate ligation).

Exercises, through the API that exists on the pristine tree, the assembly
manager, the module / vector classes, the DNA regex and the circular record
on a few hundred generated inputs, and prints a digest of everything that can
be observed: results, exception types and messages, warnings, and the state of
the inputs afterwards.  The digest must be identical before and after a
behaviour-preserving change.
"""
import copy
import hashlib
import random
import re
import sys
import warnings

sys.path.insert(0, "/tmp/agents7/C01")
import tests  # noqa: F401,E402

from Bio import Restriction  # noqa: E402
from Bio.Seq import Seq  # noqa: E402
from Bio.SeqFeature import (  # noqa: E402
    SeqFeature, FeatureLocation, CompoundLocation, Reference,
)
from Bio.SeqRecord import SeqRecord  # noqa: E402
from moclo import errors  # noqa: E402
from moclo.core import (  # noqa: E402
    AbstractPart, Entry, EntryVector, Cassette, CassetteVector, Product, Device, DeviceVector,
)
from moclo.core.modules import AbstractModule  # noqa: E402
from moclo.core.vectors import AbstractVector  # noqa: E402
from moclo.record import CircularRecord  # noqa: E402
from moclo.regex import DNARegex, SeqMatch  # noqa: E402

ENZYMES = ["BsaI", "BsmBI", "BbsI", "SapI", "BsmAI", "BccI", "FauI", "SfaNI",
           "HgaI", "BbvI", "FokI", "BsmFI", "BceAI", "EarI", "BspMI", "AceIII",
           "BtgZI", "AarI", "BcefI", "BpiI"]

LOG = []


def emit(*items):
    line = " | ".join(str(i) for i in items)
    LOG.append(re.sub(r" at 0x[0-9a-fA-F]+", " at 0x?", line))


# --- serialisation -----------------------------------------------------------

def ser_ref(ref):
    if isinstance(ref, Reference):
        return "Ref(%s;%s;%s)" % (ref.title, ref.authors, ref.journal)
    return repr(ref)


def ser_value(value):
    if isinstance(value, dict):
        return "{%s}" % ", ".join("%r: %s" % (k, ser_value(v)) for k, v in sorted(value.items()))
    if isinstance(value, (list, tuple)):
        return "[%s]" % ", ".join(ser_value(v) for v in value)
    if isinstance(value, Reference):
        return ser_ref(value)
    if isinstance(value, Seq):
        return "Seq(%s)" % str(value)
    return repr(value)


def ser_feature(feat):
    return "%s@%s#%s%s" % (feat.type, feat.location, feat.id, ser_value(dict(feat.qualifiers)))


def ser_record(rec):
    if rec is None:
        return "None"
    if isinstance(rec, Seq):
        return "Seq(%s)" % str(rec)
    if isinstance(rec, str):
        return repr(rec)
    return "%s(%s id=%s name=%s desc=%s dbx=%s ann=%s feats=[%s] let=%s)" % (
        type(rec).__name__, str(rec.seq), rec.id, rec.name, rec.description,
        rec.dbxrefs, ser_value(dict(rec.annotations)),
        "; ".join(ser_feature(f) for f in rec.features),
        ser_value(dict(rec.letter_annotations)),
    )


def observe(label, func, *args, **kwargs):
    """Run func, log result or exception and all warnings."""
    with warnings.catch_warnings(record=True) as caught:
        warnings.simplefilter("always")
        try:
            result = func(*args, **kwargs)
            out = "OK " + (ser_record(result) if isinstance(result, (SeqRecord, Seq)) else ser_value(result))
        except Exception as exc:  # noqa
            result = None
            out = "EXC %s: %s" % (type(exc).__name__, exc)
            cause = exc.__cause__, exc.__suppress_context__
            out += " cause=%s/%s" % (type(cause[0]).__name__, cause[1])
    emit(label, out)
    for w in caught:
        if "pkg_resources" in str(w.message):
            continue
        emit(label, "WARN %s: %s" % (w.category.__name__, w.message))
    return result


# --- generators --------------------------------------------------------------

_RC = str.maketrans("ACGTacgt", "TGCAtgca")


def rc(s):
    return s.translate(_RC)[::-1]


def rnd(rng, n, alphabet="ACGT"):
    return "".join(rng.choice(alphabet) for _ in range(n))


def nsites(cutter, text):
    site = cutter.site
    dbl = (text + text[: len(site) - 1]).upper()
    return sum(dbl.startswith(site, i) + dbl.startswith(rc(site), i) for i in range(len(text)))


def overhangs(rng, size, count, site):
    while True:
        out, tries = [], 0
        while len(out) < count and tries < 1000:
            tries += 1
            o = rnd(rng, size)
            if o == rc(o) or o in out or rc(o) in out or site in o or rc(site) in o:
                continue
            out.append(o)
        for _ in range(100):
            last = rnd(rng, size)
            if last not in out and site not in last and rc(site) not in last:
                return out + [last]


def recase(rng, text, mode):
    if mode == "upper":
        return text
    if mode == "lower":
        return text.lower()
    return "".join(c.lower() if rng.random() < 0.5 else c for c in text)


def module_text(rng, cutter, up, down, tlen, blen, mode, want_sites=2):
    site, off = cutter.site, cutter.fst5 - len(cutter.site)
    while True:
        text = (site + rnd(rng, off) + up + rnd(rng, tlen) + down + rnd(rng, off)
                + rc(site) + rnd(rng, blen))
        if nsites(cutter, text) == want_sites:
            return recase(rng, text, mode)


def vector_text(rng, cutter, start, end, plen, blen, mode):
    site, off = cutter.site, cutter.fst5 - len(cutter.site)
    tries = 0
    while True:
        tries += 1
        if tries > 5000:
            raise SystemExit("vector_text stuck %s %s %s %d %d" % (cutter, start, end, plen, blen))
        text = (rnd(rng, blen // 2 + 1) + end + rnd(rng, off) + rc(site) + rnd(rng, plen)
                + site + rnd(rng, off) + start + rnd(rng, blen - blen // 2 + 1))
        if nsites(cutter, text) == 2:
            return recase(rng, text, mode)


def rotate(text, k):
    k %= len(text)
    return text[k:] + text[:k]


def random_features(rng, n, count, refs=0):
    feats = []
    for i in range(count):
        a = rng.randrange(n)
        b = rng.randrange(a, n) + 1
        strand = rng.choice([1, -1, None])
        if rng.random() < 0.25 and b - a > 4:
            mid = (a + b) // 2
            loc = CompoundLocation([FeatureLocation(a, mid, strand), FeatureLocation(mid + 1, b, strand)])
        else:
            loc = FeatureLocation(a, b, strand)
        quals = {"label": ["f%d" % i]}
        if refs and rng.random() < 0.6:
            quals["citation"] = ["[%d]" % rng.randint(1, refs) for _ in range(rng.randint(1, 2))]
        feats.append(SeqFeature(loc, type=rng.choice(["CDS", "misc_feature", "promoter"]),
                                id="feat%d" % i, qualifiers=quals))
    if rng.random() < 0.3:
        feats.append(SeqFeature(FeatureLocation(0, n), type="source", qualifiers={"organism": ["x"]}))
    return feats


def make_refs(tag, count):
    refs = []
    for i in range(count):
        ref = Reference()
        ref.title = "%s paper %d" % (tag, i)
        ref.authors = "Doe J."
        ref.journal = "J. Irreproducible Results"
        refs.append(ref)
    return refs


def make_record(rng, text, rid, rich=False, plain=False, topology=None):
    n = len(text)
    ann = {}
    feats = []
    letters = None
    if rich:
        nrefs = rng.randint(0, 3)
        if nrefs:
            ann["references"] = make_refs(rid, nrefs)
        feats = random_features(rng, n, rng.randint(0, 4), refs=nrefs)
        ann["molecule_type"] = "DNA"
        if rng.random() < 0.5:
            letters = {"phred_quality": [rng.randint(0, 40) for _ in range(n)]}
    if topology:
        ann["topology"] = topology
    cls = SeqRecord if plain else CircularRecord
    rec = cls(Seq(text), id=rid, name=rid + "_name", description="desc " + rid,
              features=feats, annotations=ann or None, letter_annotations=letters)
    return rec


def kit(name):
    cutter = getattr(Restriction, name)
    vec = type(str("Vec" + name), (EntryVector,), {"cutter": cutter})
    mod = type(str("Mod" + name), (Entry,), {"cutter": cutter})
    return cutter, vec, mod


# --- sections ----------------------------------------------------------------

def section_structures():
    for name in ENZYMES:
        cutter, Vec, Mod = kit(name)
        emit("structure", name, Mod.structure(), Vec.structure())
        emit("regex", name, Mod._get_regex().pattern, Mod._get_regex().regex.pattern,
             Vec._get_regex().regex.pattern, Mod._get_regex() is Mod._get_regex())
    for base in (Product, Entry, Cassette, Device, EntryVector, CassetteVector, DeviceVector,
                 AbstractModule, AbstractVector):
        observe("abstract %s" % base.__name__, base, CircularRecord(Seq("ATGC"), id="x"))
        observe("abstract structure %s" % base.__name__, base.structure)
    base = kit("BsaI")[2]
    base._get_regex()
    sub = type(str("SubBsaI"), (base,), {"cutter": Restriction.BsmBI})
    emit("subclass structure", sub.structure(), sub._get_regex().pattern,
         sub._get_regex() is base._get_regex(), base._get_regex().pattern)
    blunt = type(str("Blunt"), (Entry,), {"cutter": Restriction.EcoRV})
    observe("blunt", blunt, CircularRecord(Seq("ATGC"), id="x"))
    three = type(str("Three"), (Entry,), {"cutter": Restriction.BsgI})
    three_v = type(str("ThreeV"), (EntryVector,), {"cutter": Restriction.BsgI})
    emit("3' structure", three.structure(), three_v.structure())
    rec3 = CircularRecord(Seq("GTGCAG" + "A" * 14 + "CCTTTTTTGG" + "T" * 14 + "CTGCAC" + "ACACAC"), id="r3")
    for ent in (three(rec3), three_v(rec3)):
        observe("3' valid", ent.is_valid)
        observe("3' target", ent.target_sequence)
        observe("3' start", ent.overhang_start)

    class DemoPart(AbstractPart, Entry):
        cutter = Restriction.BsaI
        signature = ("ATGC", "ATTC")

    class DemoVecPart(AbstractPart, EntryVector):
        cutter = Restriction.BbsI
        signature = ("ATGC", "ATTC")

    emit("part structure", DemoPart.structure(), DemoVecPart.structure(),
         DemoPart._get_regex().regex.pattern)


def section_custom():
    """Classes overloading structure(), 3' and 5' cutters, every rotation."""
    for cname in ("BsgI", "BsaI"):
        cutter = getattr(Restriction, cname)
        attrs = {"cutter": cutter, "structure": classmethod(lambda cls: "AAA(CM)(NN*N)(GG)TTT")}
        Mod = type(str("Custom" + cname), (Entry,), dict(attrs))
        Vec = type(str("CustomV" + cname), (EntryVector,), dict(attrs))
        text = "AAACCATATAGGTTT" + "CACACtca"
        feats = [SeqFeature(FeatureLocation(3, 12, 1), type="CDS", qualifiers={"label": ["x"]})]
        for k in range(len(text)):
            rec = CircularRecord(Seq(rotate(text, k)), id="custom%d" % k, features=copy.deepcopy(feats)) >> 0
            for cls in (Mod, Vec):
                ent = cls(rec)
                label = "custom %s %s %d" % (cname, cls.__name__, k)
                observe(label + " valid", ent.is_valid)
                observe(label + " span", lambda: [ent._match.span(i) for i in range(4)])
                observe(label + " start", ent.overhang_start)
                observe(label + " end", ent.overhang_end)
                observe(label + " target", ent.target_sequence)
            observe(label + " placeholder", ent.placeholder_sequence)


def state_of(entities):
    return hashlib.sha1("\n".join(ser_record(e.record) for e in entities).encode()).hexdigest()[:12]


def section_assemblies(rng):
    modes = ["upper", "lower", "mixed"]
    for idx in range(260):
        name = ENZYMES[idx % len(ENZYMES)]
        cutter, Vec, Mod = kit(name)
        size = abs(cutter.ovhg)
        maxmod = {1: 2, 2: 4}.get(size, 5)
        nmod = rng.randint(1, maxmod)
        mode = modes[idx % 3]
        ovs = overhangs(rng, size, nmod, cutter.site)
        kind = rng.choice(["ok"] * 6 + ["missing", "dup", "revcomp", "unused", "samevec",
                                         "nosite", "illegal", "plain", "linear", "unused2"])
        rich = rng.random() < 0.6
        vstart, vend = ovs[-1], ovs[0]
        if kind == "samevec":
            vstart = vend
        vtext = vector_text(rng, cutter, vstart, vend, rng.randint(0, 15), rng.randint(4, 30), mode)
        vtext = rotate(vtext, rng.randrange(len(vtext)))
        vrec = make_record(rng, vtext, "vec%d" % idx, rich=rich,
                           topology="circular" if rng.random() < 0.3 else None)
        mrecs = []
        for i in range(nmod):
            text = module_text(rng, cutter, ovs[i], ovs[i + 1], rng.randint(2, 30),
                               rng.randint(2, 25), mode)
            text = rotate(text, rng.randrange(len(text)))
            mrecs.append(make_record(rng, text, "m%d_%d" % (idx, i), rich=rich))
        if kind == "missing":
            del mrecs[rng.randrange(len(mrecs))]
            if not mrecs:
                text = module_text(rng, cutter, ovs[0], rc(ovs[0]), 5, 5, mode)
                mrecs.append(make_record(rng, text, "m%d_x" % idx))
        elif kind == "dup":
            text = module_text(rng, cutter, ovs[0], ovs[1], 7, 7, mode)
            mrecs.append(make_record(rng, text, "m%d_dup" % idx))
        elif kind == "revcomp":
            text = module_text(rng, cutter, rc(ovs[0]), ovs[1], 7, 7, mode)
            mrecs.append(make_record(rng, text, "m%d_rc" % idx))
        elif kind in ("unused", "unused2"):
            for j in range(1 if kind == "unused" else 2):
                keys = ovs[:-1] + [rc(o) for o in ovs[:-1]]
                for _ in range(200):
                    a, b = rnd(rng, size), rnd(rng, size)
                    if a not in keys and a != rc(a) and (j == 0 or a not in (prev, rc(prev))):
                        break
                else:
                    break
                prev = a
                text = module_text(rng, cutter, a, b, 6, 6, mode)
                mrecs.append(make_record(rng, text, "m%d_un%d" % (idx, j)))
        elif kind == "nosite":
            text = rnd(rng, 40)
            mrecs[0] = make_record(rng, text, "m%d_nosite" % idx)
        elif kind == "illegal":
            site = cutter.site
            off = cutter.fst5 - len(site)
            text = (site + rnd(rng, off) + ovs[0] + rnd(rng, 4) + site + rnd(rng, 6) + ovs[1]
                    + rnd(rng, off) + rc(site) + rnd(rng, 9))
            mrecs[0] = make_record(rng, recase(rng, text, mode), "m%d_illegal" % idx)
        elif kind == "plain":
            j = rng.randrange(len(mrecs))
            mrecs[j] = make_record(rng, str(mrecs[j].seq), mrecs[j].id, plain=True)
        elif kind == "linear":
            j = rng.randrange(len(mrecs))
            mrecs[j] = make_record(rng, str(mrecs[j].seq), mrecs[j].id, plain=True, topology="linear")
        rng.shuffle(mrecs)
        vec = Vec(vrec)
        mods = [Mod(r) for r in mrecs]
        label = "asm %d %s %s n=%d %s" % (idx, name, kind, nmod, mode)
        kwargs = {}
        if idx % 4 == 1:
            kwargs = {"name": "n%d" % idx, "id": "i%d" % idx}
        elif idx % 4 == 2:
            kwargs = {"id": "only%d" % idx, "whatever": 1}
        before = state_of([vec] + mods)
        product = observe(label, vec.assemble, *mods, **kwargs)
        after = state_of([vec] + mods)
        emit(label, "inputs unchanged" if before == after else "inputs CHANGED", after)
        emit(label, "type", type(product).__name__)
        # individual accessors
        for ent in [vec] + mods:
            observe(label + " valid " + ent.record.id, ent.is_valid)
            observe(label + " start " + ent.record.id, ent.overhang_start)
            observe(label + " end " + ent.record.id, ent.overhang_end)
            observe(label + " target " + ent.record.id, ent.target_sequence)
        observe(label + " placeholder", vec.placeholder_sequence)
        if idx % 5 == 0:
            # a second assembly with the same objects, other order
            mods.reverse()
            observe(label + " again", vec.assemble, *mods)
            emit(label, "state again", state_of([vec] + mods))


def section_regex(rng):
    patterns = ["AA(NN)", "GGTCTCN(NNNN)(NN*N)(NNNN)NGAGACC", "(R)(Y)N*(K)", "N(NNN)(NBDHV)(M)SW",
                "GAAGACNN(NNNN)(NN*N)(NNNN)NNGTCTTC", "(A)(C*)(G)"]
    for i in range(150):
        pattern = patterns[i % len(patterns)]
        rx = DNARegex(pattern)
        if i < len(patterns):
            emit("transcribe", pattern, rx.regex.pattern, DNARegex._transcribe(pattern))
        n = rng.randint(1, 60)
        text = rnd(rng, n, "ACGTacgtN" if i % 7 == 0 else "ACGT")
        if i % 3 == 0 and n > 30:
            core = "GGTCTCA" + rnd(rng, 4) + rnd(rng, rng.randint(2, 8)) + rnd(rng, 4) + "AGAGACC"
            text = rotate(core + text[len(core):], rng.randrange(n)) if len(core) < n else text
        kind = i % 4
        if kind == 0:
            subject = Seq(text)
        elif kind == 1:
            subject = SeqRecord(Seq(text), id="lin%d" % i)
        else:
            subject = CircularRecord(Seq(text), id="circ%d" % i,
                                     features=random_features(rng, len(text), 2))
        kwargs = {}
        if i % 5 == 1:
            kwargs["linear"] = False
        if i % 5 == 2:
            kwargs["pos"] = rng.randrange(len(text))
        if i % 5 == 3:
            kwargs["pos"] = rng.randrange(len(text))
            kwargs["endpos"] = rng.randrange(len(text) + 3)
        label = "search %d %s %s %s" % (i, pattern, type(subject).__name__, sorted(kwargs.items()))
        with warnings.catch_warnings():
            warnings.simplefilter("ignore")
            try:
                match = rx.search(subject, **kwargs)
            except Exception as exc:  # noqa
                emit(label, "EXC", type(exc).__name__, exc)
                continue
        if match is None:
            emit(label, "no match")
            continue
        emit(label, type(match).__name__, match.start(), match.end(), match.span(), match.shift,
             match.rec is subject)
        for g in range(rx.regex.groups + 1):
            with warnings.catch_warnings():
                warnings.simplefilter("ignore")
                emit(label, "group", g, match.span(g), ser_record(match.group(g)))
    for bad in ("ATGC", b"ATGC", None, 3, ["A"]):
        observe("search bad %r" % (bad,), DNARegex("NN").search, bad)
    # positional calls
    rx = DNARegex("AA(NN)")
    m = observe("search positional", lambda: rx.search(Seq("ATGCAGCATA"), 0, 100, False).span(1))
    m = SeqMatch(rx.regex.match("AATT"), Seq("AATT"), 2)
    emit("seqmatch", m.shift, m.span(1), m.group(1), m.start(), m.end())


def section_records(rng):
    for i in range(120):
        n = rng.randint(1, 40)
        text = rnd(rng, n, "ACGTacgt" if i % 6 == 0 else "ACGT")
        rec = make_record(rng, text, "rec%d" % i, rich=True)
        snapshot = ser_record(rec)
        k = rng.choice([0, 1, n - 1, n, n + 1, -1, -n, rng.randrange(-3 * n, 3 * n)])
        label = "record %d n=%d k=%d" % (i, n, k)
        with warnings.catch_warnings():
            warnings.simplefilter("ignore")
            observe(label + " >>", lambda: rec >> k)
            observe(label + " <<", lambda: rec << k)
            emit(label, "identity", (rec >> 0) is rec, (rec << n) is rec, (rec >> n) is rec)
            a, b = sorted((rng.randrange(n + 1), rng.randrange(n + 1)))
            observe(label + " slice", lambda: rec[a:b])
            observe(label + " item", lambda: rec[a % n])
            observe(label + " revcomp", rec.reverse_complement)
            observe(label + " revcomp kw", lambda: rec.reverse_complement(id=True, name="zz", annotations=True))
            observe(label + " add", lambda: rec + rec)
            observe(label + " radd", lambda: "AT" + rec)
            probe = rotate(text, a)[: rng.randint(1, n + 1)]
            emit(label, "contains", probe in rec, (text + "A") in rec)
            observe(label + " contains Seq", lambda: Seq(probe) in rec)
            observe(label + " from SeqRecord", lambda: CircularRecord(SeqRecord(Seq(text), id="p", annotations={"topology": "circular"})))
            observe(label + " from linear", lambda: CircularRecord(Seq(text), annotations={"topology": "linear"}))
            observe(label + " from LINEAR rec", lambda: CircularRecord(SeqRecord(Seq(text), id="p", annotations={"topology": "Linear"})))
        emit(label, "unchanged" if ser_record(rec) == snapshot else "CHANGED")


def section_errors():
    rec = CircularRecord(Seq("ATGC"), id="e1")
    mod = kit("BsaI")[2](rec)
    for exc in (
        errors.InvalidSequence("ATGC"), errors.InvalidSequence(rec, details="some details"),
        errors.InvalidSequence("ATGC", exc=ValueError("x"), details="d"),
        errors.IllegalSite("ATGC"), errors.IllegalSite(Seq("ATGC"), details="x"),
        errors.DuplicateModules(mod, mod), errors.DuplicateModules(mod, details="y"),
        errors.MissingModule("ATGC"), errors.MissingModule(Seq("atgc"), details="z"),
        errors.UnusedModules(mod), errors.UnusedModules(mod, mod, details=3),
    ):
        emit("error", type(exc).__name__, str(exc), repr(exc.args), sorted(vars(exc).items(), key=str),
             [c.__name__ for c in type(exc).__mro__])


def section_registry(rng):
    from moclo.registry.ytk import YTKRegistry
    from moclo.kits import ytk

    reg = YTKRegistry()
    for key in sorted(reg)[:96:3]:
        ent = reg[key].entity
        with warnings.catch_warnings():
            warnings.simplefilter("ignore")
            tgt = ent.target_sequence()
        emit("ytk", key, type(ent).__name__, ent.overhang_start(), ent.overhang_end(),
             len(tgt), hashlib.sha1(ser_record(tgt).encode()).hexdigest()[:12])
    names = ["pYTK008", "pYTK047", "pYTK073", "pYTK074", "pYTK086", "pYTK092"]
    for trial in range(4):
        vec = reg["pYTK090"].entity
        mods = [reg[n].entity for n in names]
        if trial:
            vec = type(vec)(vec.record >> rng.randrange(len(vec.record)))
            mods = [type(m)(m.record >> rng.randrange(len(m.record))) for m in mods]
            rng.shuffle(mods)
        before = state_of([vec] + mods)
        with warnings.catch_warnings(record=True) as caught:
            warnings.simplefilter("always")
            product = vec.assemble(*mods, id="integration%d" % trial)
        text = ser_record(product)
        emit("ytk assembly", trial, len(product), hashlib.sha1(text.encode()).hexdigest(),
             hashlib.sha1(str(product.seq).encode()).hexdigest()[:12],
             [str(w.message) for w in caught if "pkg_resources" not in str(w.message)],
             before == state_of([vec] + mods))
        if trial == 0:
            emit("ytk assembly annotations", ser_value(dict(product.annotations))[:2000])


def main():
    rng = random.Random(424242)
    section_structures()
    section_custom()
    section_assemblies(rng)
    section_regex(rng)
    section_records(rng)
    section_errors()
    section_registry(rng)
    blob = "\n".join(LOG)
    if "--dump" in sys.argv:
        print(blob)
    print("observations: %d" % len(LOG))
    print("digest: %s" % hashlib.sha256(blob.encode()).hexdigest())


if __name__ == "__main__":
    main()
