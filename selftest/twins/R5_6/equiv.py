# coding: utf-8
"""Differential test: prints a digest of the observable behaviour of

  * moclo.record.CircularRecord (construction, rotation, slicing, containment,
    reverse complement, ambiguous operators),
  * moclo.core._assembly.AssemblyManager (through AbstractVector.assemble and
    directly), including citation (de)referencing and every failure path,
  * moclo.core._utils.cutter_check / add_as_source.

The digest must be identical on the pristine tree and with the refactoring
applied.  Run as:  cd /tmp/agentsR/R5 && /venv/bin/python refactor_out/<dir>/equiv.py
"""
import sys

sys.path.insert(0, "/tmp/agentsR/R5")
import tests  # noqa: F401,E402  (splices the kit packages into the moclo namespace)

import copy  # noqa: E402
import hashlib  # noqa: E402
import random  # noqa: E402
import re  # noqa: E402
import warnings  # noqa: E402

from Bio.Restriction import BpiI, BsaI, EcoRV, EcoRI  # noqa: E402
from Bio.Seq import Seq  # noqa: E402
from Bio.SeqFeature import (  # noqa: E402
    AfterPosition,
    BeforePosition,
    CompoundLocation,
    ExactPosition,
    FeatureLocation,
    Reference,
    SeqFeature,
)
from Bio.SeqRecord import SeqRecord  # noqa: E402

from moclo import errors  # noqa: E402
from moclo.record import CircularRecord  # noqa: E402
from moclo.core._assembly import AssemblyManager  # noqa: E402
from moclo.core._utils import add_as_source, cutter_check  # noqa: E402
from moclo.core.modules import AbstractModule  # noqa: E402
from moclo.core.vectors import AbstractVector  # noqa: E402

RESULTS = []


_ADDRESS = re.compile(r" at 0x[0-9a-fA-F]+")


def emit(*items):
    # memory addresses (default object reprs inside messages) are not behaviour
    RESULTS.append(_ADDRESS.sub(" at 0x?", repr(items)))


# --- serialisation ----------------------------------------------------------


def ser_pos(p):
    return (type(p).__name__, int(p))


def ser_loc(loc):
    if loc is None:
        return None
    if isinstance(loc, CompoundLocation):
        return ("compound", loc.operator, [ser_loc(p) for p in loc.parts])
    return (
        type(loc).__name__,
        ser_pos(loc.start),
        ser_pos(loc.end),
        loc.strand,
        loc.ref,
        loc.ref_db,
    )


def ser_value(v):
    if isinstance(v, Reference):
        return (
            "Reference",
            v.title,
            v.authors,
            v.journal,
            [ser_loc(l) for l in v.location],
        )
    if isinstance(v, (list, tuple)):
        return [ser_value(x) for x in v]
    if isinstance(v, dict):
        return [(k, ser_value(x)) for k, x in v.items()]
    if isinstance(v, (Seq,)):
        return ("Seq", str(v))
    if isinstance(v, SeqRecord):
        return ser_record(v)
    return repr(v)


def ser_feature(f):
    return (
        f.type,
        f.id,
        ser_loc(f.location),
        [(k, ser_value(v)) for k, v in f.qualifiers.items()],
    )


def ser_record(r):
    return (
        type(r).__name__,
        str(r.seq),
        r.id,
        r.name,
        r.description,
        list(r.dbxrefs),
        [(k, ser_value(v)) for k, v in r.annotations.items()],
        [(k, ser_value(v)) for k, v in r.letter_annotations.items()],
        [ser_feature(f) for f in r.features],
    )


def ser_exc(e):
    ctx = e.__context__
    return (
        "EXC",
        type(e).__name__,
        str(e),
        type(ctx).__name__ if ctx is not None else None,
        type(e.__cause__).__name__ if e.__cause__ is not None else None,
        e.__suppress_context__,
    )


def attempt(label, func, *args, **kwargs):
    ser = kwargs.pop("ser", ser_value)
    try:
        res = func(*args, **kwargs)
    except Exception as e:  # noqa
        emit(label, ser_exc(e))
        return None
    emit(label, ser(res))
    return res


# --- random material --------------------------------------------------------


def rand_dna(rng, n, forbidden=(), mixed=False):
    while True:
        s = "".join(rng.choice("ACGT") for _ in range(n))
        d = (s * 2).upper()
        if not any(site in d for site in forbidden):
            break
    if mixed:
        s = "".join(c.lower() if rng.random() < 0.4 else c for c in s)
    return s


def rand_simple_loc(rng, n, allow_beyond=False):
    hi = n * 3 if allow_beyond else n
    a = rng.randint(0, hi)
    b = rng.randint(0, hi)
    if a > b:
        a, b = b, a
    strand = rng.choice([1, -1, 0, None])
    kind = rng.random()
    if kind < 0.1:
        start, end = BeforePosition(a), ExactPosition(b)
    elif kind < 0.2:
        start, end = ExactPosition(a), AfterPosition(b)
    else:
        start, end = ExactPosition(a), ExactPosition(b)
    if rng.random() < 0.1:
        return FeatureLocation(start, end, strand=strand, ref="REF1", ref_db="DB")
    return FeatureLocation(start, end, strand=strand)


def rand_loc(rng, n, allow_none=True):
    r = rng.random()
    if r < 0.55:
        return rand_simple_loc(rng, n)
    if r < 0.65:
        return rand_simple_loc(rng, n, allow_beyond=True)
    if r < 0.70:
        return None if allow_none else rand_simple_loc(rng, n)
    parts = [
        rand_simple_loc(rng, n, allow_beyond=rng.random() < 0.2)
        for _ in range(rng.randint(2, 4))
    ]
    return CompoundLocation(parts, operator=rng.choice(["join", "order"]))


def rand_features(rng, n, refs=0, bad_citations=False, none_rate=1.0):
    feats = []
    for i in range(rng.randint(0, 5)):
        quals = {"label": ["f{}".format(i)]}
        if rng.random() < 0.3:
            quals["note"] = ["x", "y"]
        if refs and rng.random() < 0.6:
            quals["citation"] = [
                "[{}]".format(rng.randint(1, refs)) for _ in range(rng.randint(1, 3))
            ]
        if bad_citations:
            quals["citation"] = [
                rng.choice(["[x]", "foo", "[]", "[{}]".format(refs + 5), "[0]", "[-1]", "[1"])
            ]
        ftype = rng.choice(["CDS", "promoter", "misc_feature", "source", "terminator"])
        loc = rand_loc(rng, n, allow_none=rng.random() < none_rate)
        r = rng.random()
        if r < 0.15:
            ftype, loc = "source", FeatureLocation(0, n)
        elif r < 0.20:
            ftype, loc = "source", FeatureLocation(ExactPosition(0), ExactPosition(n), strand=1)
        elif r < 0.25:
            ftype, loc = "misc_feature", FeatureLocation(0, n)
        elif r < 0.30:
            ftype, loc = "source", CompoundLocation(
                [FeatureLocation(0, n), FeatureLocation(0, max(n - 1, 0))]
            )
        feats.append(
            SeqFeature(loc, type=ftype, id="feat{}".format(i), qualifiers=quals)
        )
    return feats


def rand_refs(rng, k, shared_pool):
    refs = []
    for i in range(k):
        if shared_pool and rng.random() < 0.5:
            refs.append(rng.choice(shared_pool))
        elif rng.random() < 0.04:
            refs.append("plain string reference {}".format(rng.randint(0, 3)))
        else:
            ref = Reference()
            ref.title = "Title {}".format(rng.randint(0, 5))
            ref.authors = "Author {}".format(rng.randint(0, 2))
            ref.journal = "J {}".format(rng.randint(0, 1))
            refs.append(ref)
    return refs


# --- part 1: CircularRecord --------------------------------------------------


def record_identity_facts(src, dst):
    facts = [dst is src, dst.annotations is src.annotations, dst.dbxrefs is src.dbxrefs]
    if len(dst.features) == len(src.features):
        for a, b in zip(src.features, dst.features):
            facts.append(a is b)
            facts.append(a.qualifiers is b.qualifiers)
            facts.append(a.location is b.location)
    return facts


def exercise_records():
    rng = random.Random(20240926)
    for case in range(260):
        n = rng.choice([1, 2, 3, 4, 5, 8, 12, 17, 30, 61])
        seq = rand_dna(rng, n, mixed=rng.random() < 0.3)
        annotations = {}
        r = rng.random()
        if r < 0.3:
            annotations["topology"] = rng.choice(["circular", "Circular", "CIRCULAR"])
        if rng.random() < 0.5:
            annotations["molecule_type"] = "DNA"
        if rng.random() < 0.3:
            annotations["references"] = rand_refs(rng, 2, [])
        letter = {}
        if rng.random() < 0.4:
            letter["phred_quality"] = [rng.randint(0, 40) for _ in range(n)]
        if rng.random() < 0.2:
            letter["marks"] = "".join(rng.choice("xyz") for _ in range(n))
        feats = rand_features(rng, n)
        kwargs = dict(
            id="rec{}".format(case),
            name="name{}".format(case),
            description="desc {}".format(case),
            dbxrefs=["DB:{}".format(case)],
            features=feats,
            annotations=annotations if (annotations or rng.random() < 0.5) else None,
            letter_annotations=letter or None,
        )
        label = ("rec", case)
        try:
            if rng.random() < 0.5:
                rec = CircularRecord(Seq(seq), **kwargs)
            else:
                base = SeqRecord(Seq(seq), **kwargs)
                rec = CircularRecord(base)
                emit(label, "copied", base.features is not rec.features,
                     base.annotations is not rec.annotations,
                     all(a is not b for a, b in zip(base.features, rec.features)))
        except Exception as e:  # noqa
            emit(label, "ctor", ser_exc(e))
            continue
        emit(label, "ctor", ser_record(rec))
        before = ser_record(rec)

        amounts = [0, 1, -1, n, -n, n + 1, -n - 1, 2 * n, 3 * n + 2, -5 * n - 3, n - 1,
                   rng.randint(-200, 200), rng.randint(-200, 200), rng.randint(0, n)]
        for amount in amounts:
            for opname, op in (("rshift", lambda a, b: a >> b), ("lshift", lambda a, b: a << b)):
                try:
                    res = op(rec, amount)
                except Exception as e:  # noqa
                    emit(label, opname, amount, ser_exc(e))
                    continue
                emit(label, opname, amount, ser_record(res), record_identity_facts(rec, res))
                # chained rotation
                if amount in (1, -1, n + 1):
                    try:
                        res2 = op(res, amount + 2)
                        emit(label, opname, "chain", ser_record(res2))
                    except Exception as e:  # noqa
                        emit(label, opname, "chain", ser_exc(e))
        emit(label, "unchanged", before == ser_record(rec))

        # containment
        doubled = str(rec.seq) * 3
        probes = ["", str(rec.seq), str(rec.seq).lower(), str(rec.seq).upper(), "A", "N"]
        for _ in range(12):
            a = rng.randint(0, 2 * n)
            ln = rng.randint(0, n + 2)
            probes.append(doubled[a:a + ln])
        probes.append(rand_dna(rng, rng.randint(1, n + 1)))
        for p in probes:
            attempt((label, "contains", p), lambda p=p: p in rec)
        attempt((label, "contains", "Seq"), lambda: Seq(str(rec.seq)[:2]) in rec)
        attempt((label, "contains", "int"), lambda: 3 in rec)
        attempt((label, "contains", "list"), lambda: ["A"] in rec)

        # indexing and slicing
        idxs = [0, -1, n - 1, n, -n - 1, slice(None), slice(0, 0), slice(1, None),
                slice(None, -1), slice(n // 2, n), slice(None, None, -1),
                slice(None, None, 2), slice(-3, 2), "x", None]
        for idx in idxs:
            try:
                res = rec[idx]
            except Exception as e:  # noqa
                emit(label, "getitem", repr(idx), ser_exc(e))
                continue
            if isinstance(res, SeqRecord):
                emit(label, "getitem", repr(idx), ser_record(res),
                     res.annotations is not rec.annotations)
            else:
                emit(label, "getitem", repr(idx), repr(res))
        emit(label, "unchanged2", before == ser_record(rec))

        # reverse complement
        attempt((label, "rc"), rec.reverse_complement, ser=ser_record)
        attempt((label, "rc2"), rec.reverse_complement, id=True, name="nm", description=True,
                features=False, annotations=True, letter_annotations=False, dbxrefs=True,
                ser=ser_record)
        attempt((label, "rc3"), rec.reverse_complement, annotations={"topology": "linear"},
                ser=ser_record)
        attempt((label, "rc4"), lambda: (rec >> 1).reverse_complement(id="other"),
                ser=ser_record)

        # ambiguous operators
        attempt((label, "add"), lambda: rec + rec)
        attempt((label, "add2"), lambda: rec + "ATGC")
        attempt((label, "radd"), lambda: "ATGC" + rec)
        attempt((label, "radd2"), lambda: SeqRecord(Seq("AT")) + rec)
        emit(label, CircularRecord.__add__.__name__, CircularRecord.__radd__.__name__,
             CircularRecord.__add__.__doc__, CircularRecord.__radd__.__doc__)

    # constructor edge cases
    for topo in ["linear", "Linear", "LINEAR", "circular", "CiRcUlAr", "", "other", None, 3]:
        ann = {"topology": topo}
        attempt(("ctor-topo", repr(topo)), CircularRecord, Seq("ATGC"), annotations=ann,
                ser=ser_record)
        attempt(("ctor-topo-rec", repr(topo)),
                lambda: CircularRecord(_raw_record(Seq("ATGC"), ann)), ser=ser_record)
    attempt(("ctor-empty",), CircularRecord, Seq(""), ser=ser_record)
    attempt(("ctor-empty-shift",), lambda: CircularRecord(Seq("")) >> 1, ser=ser_record)
    attempt(("ctor-empty-shift0",), lambda: CircularRecord(Seq("")) >> 0, ser=ser_record)
    attempt(("ctor-empty-lshift",), lambda: CircularRecord(Seq("")) << 1, ser=ser_record)
    attempt(("ctor-empty-lshift0",), lambda: CircularRecord(Seq("")) << 0, ser=ser_record)
    attempt(("shift-float",), lambda: CircularRecord(Seq("ATGC")) >> 1.5, ser=ser_record)
    attempt(("lshift-float",), lambda: CircularRecord(Seq("ATGC")) << 1.5, ser=ser_record)
    attempt(("shift-float0",), lambda: CircularRecord(Seq("ATGC")) >> 4.0, ser=ser_record)
    attempt(("lshift-float0",), lambda: CircularRecord(Seq("ATGC")) << 8.0, ser=ser_record)
    attempt(("shift-str",), lambda: CircularRecord(Seq("ATGC")) >> "a", ser=ser_record)
    attempt(("lshift-str",), lambda: CircularRecord(Seq("ATGC")) << "a", ser=ser_record)
    attempt(("shift-none",), lambda: CircularRecord(Seq("ATGC")) >> None, ser=ser_record)
    attempt(("lshift-none",), lambda: CircularRecord(Seq("ATGC")) << None, ser=ser_record)
    attempt(("shift-bool",), lambda: CircularRecord(Seq("ATGC")) >> True, ser=ser_record)
    attempt(("ctor-nested",), lambda: CircularRecord(CircularRecord(Seq("ATGC"), id="x")),
            ser=ser_record)
    attempt(("ctor-str",), lambda: CircularRecord("ATGC"), ser=ser_record)
    attempt(("ctor-none",), lambda: CircularRecord(None), ser=ser_record)
    attempt(("ctor-ignored",), lambda: CircularRecord(SeqRecord(Seq("AT"), id="a"), id="b",
                                                      annotations={"topology": "linear"}),
            ser=ser_record)

    # subclass keeps its type through rotation / reverse complement
    class Sub(CircularRecord):
        pass

    s = Sub(Seq("ATGCAA"), id="sub", features=[SeqFeature(FeatureLocation(4, 6), type="CDS")])
    attempt(("sub-shift",), lambda: s >> 3, ser=ser_record)
    attempt(("sub-lshift",), lambda: s << 3, ser=ser_record)
    attempt(("sub-rc",), s.reverse_complement, ser=ser_record)
    attempt(("sub-slice",), lambda: s[1:3], ser=ser_record)


def _raw_record(seq, annotations):
    rec = SeqRecord(seq, id="raw")
    rec.annotations = annotations
    return rec


# --- part 2: assemblies -------------------------------------------------------


class VecBpiI(AbstractVector):
    cutter = BpiI


class ModBpiI(AbstractModule):
    cutter = BpiI


class VecBsaI(AbstractVector):
    cutter = BsaI


class ModBsaI(AbstractModule):
    cutter = BsaI


KITS = {
    "BpiI": (VecBpiI, ModBpiI, "GAAGAC", "GTCTTC", "TT"),
    "BsaI": (VecBsaI, ModBsaI, "GGTCTC", "GAGACC", "T"),
}
ALL_SITES = ("GAAGAC", "GTCTTC", "GGTCTC", "GAGACC")


def rand_overhang(rng):
    return "".join(rng.choice("ACGT") for _ in range(4))


def rotate_str(s, k):
    k %= len(s)
    return s[k:] + s[:k]


def make_record(rng, seq, rid, refs_pool, bad_citations=False, rotate=True, mixed=False):
    n = len(seq)
    if rotate:
        seq = rotate_str(seq, rng.randint(0, n - 1))
    if mixed:
        seq = "".join(c.lower() if rng.random() < 0.5 else c for c in seq)
    nrefs = rng.randint(0, 3)
    annotations = {}
    if rng.random() < 0.7:
        annotations["molecule_type"] = "DNA"
    if rng.random() < 0.4:
        annotations["topology"] = rng.choice(["circular", "Circular"])
    if rng.random() < 0.3:
        annotations["organism"] = "Escherichia coli"
    if nrefs or rng.random() < 0.3:
        annotations["references"] = rand_refs(rng, nrefs, refs_pool)
    feats = rand_features(rng, n, refs=nrefs, bad_citations=bad_citations, none_rate=0.05)
    return CircularRecord(
        Seq(seq), id=rid, name=rid + "_name", description="d " + rid,
        features=feats, annotations=annotations,
    )


def make_module(rng, kit, start, end, rid, refs_pool, **kw):
    _, mod_cls, site, rsite, pad = KITS[kit]
    # the module structure needs a target of at least two nucleotides
    insert = rand_dna(rng, rng.randint(0, 25) if rng.random() < 0.05 else rng.randint(2, 25),
                      ALL_SITES)
    backbone = rand_dna(rng, rng.randint(0, 30), ALL_SITES)
    seq = site + pad + start + insert + end + pad + rsite + backbone
    return mod_cls(make_record(rng, seq, rid, refs_pool, **kw))


def make_vector(rng, kit, start, end, rid, refs_pool, **kw):
    vec_cls, _, site, rsite, pad = KITS[kit]
    dropout = rand_dna(rng, rng.randint(0, 20), ALL_SITES)
    # the vector structure needs at least two nucleotides of backbone
    backbone = rand_dna(rng, rng.randint(0, 40) if rng.random() < 0.05 else rng.randint(2, 40),
                        ALL_SITES)
    # overhang_end (group 1) comes first, overhang_start (group 3) last
    seq = end + pad + rsite + dropout + site + pad + start + backbone
    return vec_cls(make_record(rng, seq, rid, refs_pool, **kw))


def revcomp(s):
    return str(Seq(s).reverse_complement())


def citation_state(entity):
    rec = entity.record
    return (
        rec.id,
        [(k, ser_value(v)) for k, v in rec.annotations.items()],
        [ser_feature(f) for f in rec.features],
    )


def run_assembly(label, vector, modules, direct, kwargs):
    with warnings.catch_warnings(record=True) as caught:
        warnings.simplefilter("always")
        try:
            if direct:
                mgr = AssemblyManager(vector, list(modules), **kwargs)
                res = mgr.assemble()
            else:
                kw = {}
                if "id_" in kwargs:
                    kw["id"] = kwargs["id_"]
                if "name" in kwargs:
                    kw["name"] = kwargs["name"]
                res = vector.assemble(*modules, **kw)
            out = ser_record(res)
        except Exception as e:  # noqa
            out = ser_exc(e)
            if isinstance(e, errors.DuplicateModules):
                out = out + ([d.record.id for d in e.duplicates], e.details)
            if isinstance(e, errors.MissingModule):
                out = out + (ser_value(e.start_overhang), type(e.start_overhang).__name__)
    warns = [
        (type(w.message).__name__, str(w.message),
         [m.record.id for m in getattr(w.message, "remaining", ())])
        for w in caught
        if isinstance(w.message, errors.MocloError)
    ]
    emit(label, out, warns, citation_state(vector), [citation_state(m) for m in modules])


def exercise_assemblies():
    rng = random.Random(987654321)
    for case in range(320):
        kit = rng.choice(["BpiI", "BsaI"])
        scenario = rng.choice([
            "ok", "ok", "ok", "ok", "missing", "unused", "dup-same", "dup-diff", "revcomp",
            "palindrome", "bad-vector", "bad-citation", "mixed-case", "twice", "wrongkit",
            "unused-loop", "missing-first", "empty",
        ])
        k = rng.randint(1, 5)
        overhangs = []
        while len(overhangs) < k + 1:
            o = rand_overhang(rng)
            if o in overhangs or revcomp(o) in overhangs or o == revcomp(o):
                continue
            overhangs.append(o)
        pool = rand_refs(rng, 3, [])
        mixed = scenario == "mixed-case"
        # vector end overhang starts the chain; vector start overhang closes it
        v_end, v_start = overhangs[0], overhangs[-1]
        if scenario == "bad-vector":
            v_start = v_end
        vector = make_vector(rng, kit, v_start, v_end, "vec{}".format(case), pool,
                             mixed=mixed, bad_citations=(scenario == "bad-citation"
                                                         and rng.random() < 0.3))
        modules = []
        bad_at = rng.randint(0, k - 1)
        for i in range(k):
            modules.append(make_module(
                rng, kit, overhangs[i], overhangs[i + 1], "mod{}_{}".format(case, i), pool,
                mixed=mixed,
                bad_citations=(scenario == "bad-citation" and i == bad_at),
            ))
        if scenario == "missing":
            del modules[rng.randint(0, k - 1)]
        elif scenario == "missing-first":
            del modules[0]
        elif scenario == "unused":
            o1, o2 = rand_overhang(rng), rand_overhang(rng)
            modules.append(make_module(rng, kit, o1, o2, "extra{}".format(case), pool))
            if rng.random() < 0.5:
                modules.append(make_module(rng, kit, rand_overhang(rng), rand_overhang(rng),
                                           "extra{}b".format(case), pool))
        elif scenario == "unused-loop":
            o1 = rand_overhang(rng)
            modules.append(make_module(rng, kit, o1, o1, "loop{}".format(case), pool))
        elif scenario == "dup-same":
            modules.append(rng.choice(modules))
        elif scenario == "dup-diff":
            j = rng.randint(0, k - 1)
            modules.append(make_module(rng, kit, overhangs[j].lower(), rand_overhang(rng),
                                       "dup{}".format(case), pool))
        elif scenario == "revcomp":
            j = rng.randint(0, k - 1)
            modules.append(make_module(rng, kit, revcomp(overhangs[j]), rand_overhang(rng),
                                       "rc{}".format(case), pool))
        elif scenario == "palindrome":
            modules.append(make_module(rng, kit, rng.choice(["ACGT", "AATT", "GATC", "gcgc"]),
                                       rand_overhang(rng), "pal{}".format(case), pool))
        elif scenario == "wrongkit":
            other = "BsaI" if kit == "BpiI" else "BpiI"
            modules[rng.randint(0, k - 1)] = make_module(
                rng, other, overhangs[0], overhangs[1], "wk{}".format(case), pool)
        elif scenario == "empty":
            modules = []
        rng.shuffle(modules)
        kwargs = {}
        if rng.random() < 0.5:
            kwargs["id_"] = "asm{}".format(case)
        if rng.random() < 0.5:
            kwargs["name"] = "asmname{}".format(case)
        direct = rng.random() < 0.5 or not modules
        label = ("asm", case, scenario, kit, direct)
        run_assembly(label, vector, modules, direct, kwargs)
        if scenario == "twice" or rng.random() < 0.25:
            # a second run on the same (re-referenced) records
            run_assembly(label + ("again",), vector, modules, direct, kwargs)

    # the fixed cases of the test-suite
    vec = VecBpiI(CircularRecord(Seq("CCATGCTTGTCTTCCACAGAAGACTTCGTAGG"), "vector"))
    m1 = ModBpiI(CircularRecord(Seq("GAAGACTTATGCCACACGTATTGTCTTC"), "mod1"))
    m2 = ModBpiI(CircularRecord(Seq("GAAGACTTATGCTATACGTATTGTCTTC"), "mod2"))
    m3 = ModBpiI(CircularRecord(Seq("GAAGACTTAAAACACACCCCTTGTCTTC"), "mod3"))
    m4 = ModBpiI(CircularRecord(Seq("GAAGACTTATGACACACGTATTGTCTTC"), "mod4"))
    bad = VecBpiI(CircularRecord(Seq("CCATGCTTGTCTTCCACAGAAGACTTATGCGG"), "badvector"))
    nomatch = ModBpiI(CircularRecord(Seq("ATGCATGCATGC"), "nomatch"))
    for i, (v, mods) in enumerate([
        (vec, [m1]), (vec, [m1, m2]), (vec, [m4]), (vec, [m1, m3]), (bad, [m1]),
        (vec, [m1, m1]), (vec, [nomatch]), (vec, [m1, nomatch]), (vec, [m3, m3, m1]),
    ]):
        run_assembly(("fixed", i, False), v, mods, False, {})
        run_assembly(("fixed", i, True), v, mods, True, {"id_": "I", "name": "N"})


# --- part 3: core helpers ------------------------------------------------------


class FakeCutter(object):
    def __init__(self, blunt, unknown, boom=None):
        self.blunt, self.unknown, self.boom = blunt, unknown, boom
        self.calls = []

    def is_blunt(self):
        self.calls.append("blunt")
        if self.boom == "blunt":
            raise RuntimeError("boom blunt")
        return self.blunt

    def is_unknown(self):
        self.calls.append("unknown")
        if self.boom == "unknown":
            raise RuntimeError("boom unknown")
        return self.unknown


def exercise_helpers():
    rng = random.Random(4242)
    for cutter in [NotImplemented, BpiI, BsaI, EcoRV, EcoRI, None, 3]:
        attempt(("cutter_check", repr(cutter)), cutter_check, cutter, "Name{}".format(cutter))
        attempt(("cutter_check-kw", repr(cutter)), cutter_check, cutter=cutter, name="Klass")
    for blunt in (True, False, 0, 1, "", "x"):
        for unknown in (True, False, 0, 1, None):
            for boom in (None, "blunt", "unknown"):
                fc = FakeCutter(blunt, unknown, boom)
                attempt(("cutter_check-fake", repr(blunt), repr(unknown), boom),
                        cutter_check, fc, "Fake")
                emit("calls", fc.calls)

    class NoCutterVec(AbstractVector):
        pass

    class BluntMod(AbstractModule):
        cutter = EcoRV

    attempt(("new-nocutter",), lambda: NoCutterVec(CircularRecord(Seq("ATGC"))) and 1)
    attempt(("new-blunt",), lambda: BluntMod(CircularRecord(Seq("ATGC"))) and 1)

    for case in range(200):
        n = rng.randint(0, 40)
        src = SeqRecord(Seq(rand_dna(rng, rng.randint(0, 10))), id="src{}".format(case))
        dst = SeqRecord(Seq(rand_dna(rng, n)), id="dst{}".format(case),
                        features=rand_features(rng, n))
        r = rng.random()
        if r < 0.4:
            args = ()
        elif r < 0.5:
            args = (None,)
        elif r < 0.6:
            args = (FeatureLocation(0, 0),)  # falsy location
        elif r < 0.7:
            args = (FeatureLocation(3, 3, strand=1),)  # falsy location
        elif r < 0.8:
            args = (CompoundLocation([FeatureLocation(0, 2), FeatureLocation(4, 9)]),)
        else:
            args = (rand_simple_loc(rng, max(n, 1)),)
        try:
            if rng.random() < 0.5 and args:
                res = add_as_source(src, dst, location=args[0])
            else:
                res = add_as_source(src, dst, *args)
        except Exception as e:  # noqa
            emit(("add_as_source", case), ser_exc(e))
            continue
        emit(("add_as_source", case), res is dst, ser_record(res), ser_record(src),
             [type(v).__name__ for v in res.features[-1].qualifiers.values()])
    attempt(("add_as_source-noid",), add_as_source, object(), SeqRecord(Seq("AT")))
    attempt(("add_as_source-nolen",), add_as_source, SeqRecord(Seq("AT"), id="q"), object())


def main():
    exercise_records()
    exercise_assemblies()
    exercise_helpers()
    h = hashlib.sha256()
    for line in RESULTS:
        h.update(line.encode("utf-8"))
        h.update(b"\n")
    kinds = {}
    for line in RESULTS:
        if "'EXC'" in line:
            kinds["exc"] = kinds.get("exc", 0) + 1
    print("results:", len(RESULTS), "with-exceptions:", kinds.get("exc", 0))
    print("digest:", h.hexdigest())


if __name__ == "__main__":
    main()
