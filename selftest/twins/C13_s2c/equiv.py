# coding: utf-8
"""Differential test: prints a digest of everything observable through the
existing API around CircularRecord (rotation, construction, slicing), the DNA
regex, the module / vector classes of every kit, assemblies and registries.

Run as: cd <worktree> && /venv/bin/python pairs_out/<dir>/equiv.py
"""
import hashlib
import os
import random
import sys
import warnings

HERE = os.path.dirname(os.path.abspath(__file__))
ROOT = os.path.dirname(os.path.dirname(HERE))
sys.path.insert(0, ROOT)
import tests  # noqa: E402,F401  (splices the kits into the moclo namespace)

from Bio.Seq import Seq  # noqa: E402
from Bio.SeqRecord import SeqRecord  # noqa: E402
from Bio.SeqFeature import (  # noqa: E402
    SeqFeature,
    FeatureLocation,
    CompoundLocation,
    BeforePosition,
    AfterPosition,
)
from Bio.Restriction import BpiI, BsaI, BsmBI, EcoRV, SapI  # noqa: E402

from moclo import errors  # noqa: E402
from moclo.record import CircularRecord  # noqa: E402
from moclo.regex import DNARegex  # noqa: E402
from moclo.core import (  # noqa: E402
    AbstractModule,
    AbstractVector,
    AbstractPart,
    Entry,
    EntryVector,
)
from moclo.registry._utils import find_resistance  # noqa: E402

import re  # noqa: E402

_ADDRESS = re.compile(r"at 0x[0-9a-fA-F]+")
LINES = []
SECTIONS = {}
_section = [None]


def section(name):
    _section[0] = name
    SECTIONS[name] = 0


def out(*items):
    line = "|".join(str(i) for i in items).replace(ROOT, "<root>")
    LINES.append(_ADDRESS.sub("at 0x?", line))
    SECTIONS[_section[0]] += 1


# --- describing objects --------------------------------------------------


def d_loc(loc):
    if loc is None:
        return "None"
    parts = [
        "{!r}:{!r}:{!r}:{!r}:{!r}".format(p.start, p.end, p.strand, p.ref, p.ref_db)
        for p in loc.parts
    ]
    return "{}<{}>[{}]".format(
        type(loc).__name__, getattr(loc, "operator", "-"), ",".join(parts)
    )


def d_feat(f):
    return "F({}|{}|{}|{})".format(
        f.type, f.id, d_loc(f.location), sorted((k, repr(v)) for k, v in f.qualifiers.items())
    )


def d_rec(rec):
    if rec is None:
        return "None"
    return "R<{}>({!r}|{}|{}|{}|{}|{}|{}|{})".format(
        type(rec).__name__,
        str(rec.seq),
        rec.id,
        rec.name,
        rec.description,
        rec.dbxrefs,
        [d_feat(f) for f in rec.features],
        sorted((k, repr(v)) for k, v in rec.annotations.items()),
        sorted((k, type(v).__name__, repr(v)) for k, v in rec.letter_annotations.items()),
    )


def d_alias(res, src):
    """Which mutable parts of `res` are the very objects of `src`."""
    flags = [
        res is src,
        res.seq is src.seq,
        res.dbxrefs is src.dbxrefs,
        res.annotations is src.annotations,
        res.features is src.features,
        res.letter_annotations is src.letter_annotations,
    ]
    if len(res.features) == len(src.features):
        flags.append([a is b for a, b in zip(res.features, src.features)])
        flags.append(
            [a.qualifiers is b.qualifiers for a, b in zip(res.features, src.features)]
        )
        flags.append(
            [a.location is b.location for a, b in zip(res.features, src.features)]
        )
    return flags


def attempt(label, func, *args, **kwargs):
    describe = kwargs.pop("describe", repr)
    with warnings.catch_warnings(record=True) as caught:
        warnings.simplefilter("always")
        try:
            res = func(*args, **kwargs)
        except RecursionError:
            out(label, "EXC", "RecursionError")
            return None
        except Exception as exc:  # noqa
            out(label, "EXC", type(exc).__name__, str(exc))
            res = None
        else:
            out(label, "OK", describe(res))
    for w in caught:
        out(label, "WARN", w.category.__name__, str(w.message))
    return res


# --- record generation ---------------------------------------------------

ALPHABET = "ABCDEFGHIJKLMNOPQRSTUVWXYZabcdefghijklmnopqrstuvwxyz0123456789"


def make_location(rng, n, kind):
    strand = rng.choice([1, -1, None, 0, 1, -1])
    if kind == "simple":
        a = rng.randrange(0, n)
        b = rng.randrange(a, n + 1)
        return FeatureLocation(a, b, strand=strand)
    if kind == "empty":
        a = rng.randrange(0, n + 1)
        return FeatureLocation(a, a, strand=strand)
    if kind == "whole":
        return FeatureLocation(0, n, strand=strand)
    if kind == "overflow":  # the way `>>` itself writes an origin-spanning part
        a = rng.randrange(0, n)
        b = rng.randrange(n, n + a + 1)
        return FeatureLocation(a, b, strand=strand)
    if kind == "past":  # lies entirely beyond the end
        a = rng.randrange(n, 3 * n + 1)
        b = rng.randrange(a, a + n + 1)
        return FeatureLocation(a, b, strand=strand)
    if kind == "fuzzy":
        a = rng.randrange(0, n)
        b = rng.randrange(a, n + 1)
        return FeatureLocation(BeforePosition(a), AfterPosition(b), strand=strand)
    if kind == "ref":
        a = rng.randrange(0, n)
        b = rng.randrange(a, n + 1)
        return FeatureLocation(a, b, strand=strand, ref="X0001.1", ref_db="GB")
    if kind == "join":  # origin spanning compound location
        a = rng.randrange(0, n)
        b = rng.randrange(0, n + 1)
        parts = [FeatureLocation(a, n, strand=strand), FeatureLocation(0, b, strand=strand)]
        if strand == -1:
            parts.reverse()
        return CompoundLocation(parts)
    if kind == "compound":
        k = rng.randrange(2, 5)
        parts = []
        for _ in range(k):
            a = rng.randrange(0, n)
            b = rng.randrange(a, n + 1)
            parts.append(FeatureLocation(a, b, strand=rng.choice([strand, strand, 1, -1])))
        return CompoundLocation(parts, operator=rng.choice(["join", "join", "order"]))
    if kind == "tiling":  # several parts that together cover 0..n
        cut = rng.randrange(0, n + 1)
        return CompoundLocation(
            [FeatureLocation(0, cut, strand=strand), FeatureLocation(cut, n, strand=strand)]
        )
    raise ValueError(kind)


KINDS = [
    "simple", "simple", "empty", "whole", "overflow", "past", "fuzzy", "ref",
    "join", "compound", "tiling",
]


def make_record(rng, n, idx, cls=CircularRecord):
    letters = [rng.choice(ALPHABET) for _ in range(n)]
    if rng.random() < 0.5 and n <= len(ALPHABET):
        letters = rng.sample(ALPHABET, n)
    seq = Seq("".join(letters))
    feats = []
    for j in range(rng.randrange(0, 6) if n else 0):
        kind = rng.choice(KINDS)
        ftype = rng.choice(["source", "CDS", "misc_feature", "promoter", "source"])
        quals = {"label": ["f{}".format(j)], "note": [kind]}
        if rng.random() < 0.3:
            quals["citation"] = ["[1]"]
        feats.append(
            SeqFeature(make_location(rng, n, kind), type=ftype, id="id{}".format(j), qualifiers=quals)
        )
    if n and rng.random() < 0.25:
        feats.append(SeqFeature(None, type="misc_feature", id="noloc"))
    letan = {}
    if rng.random() < 0.7:
        letan["phred_quality"] = [rng.randrange(0, 60) for _ in range(n)]
    if rng.random() < 0.5:
        letan["mark"] = "".join(rng.choice("xyz.") for _ in range(n))
    if rng.random() < 0.3:
        letan["idx"] = tuple(range(n))
    ants = {}
    r = rng.random()
    if r < 0.3:
        ants["topology"] = "circular"
    elif r < 0.4:
        ants["topology"] = "Circular"
    if rng.random() < 0.5:
        ants["references"] = ["ref-a", "ref-b"]
        ants["organism"] = "synthetic"
    kwargs = dict(
        id="rec{}".format(idx),
        name="name{}".format(idx),
        description="description {}".format(idx),
        dbxrefs=["db:{}".format(idx)],
        features=feats,
        annotations=ants,
        letter_annotations=letan,
    )
    if rng.random() < 0.15:
        kwargs = dict(id="bare{}".format(idx))
    return cls(seq, **kwargs)


def rotation_section():
    section("rotation")
    rng = random.Random(1313)
    lengths = list(range(1, 15)) * 4 + [20, 31, 64, 97]
    for idx, n in enumerate(lengths):
        rec = make_record(rng, n, idx)
        before = d_rec(rec)
        out("REC", idx, before)
        ks = sorted(set(list(range(-n - 2, 2 * n + 3)) + [3 * n, -3 * n, 7 * n + 1, -5 * n - 2, 10 ** 12 + 3]))
        if n > 20:
            ks = sorted(set([-n - 1, -n, -3, -1, 0, 1, 2, n // 2, n - 1, n, n + 1, 2 * n + 5]))
        for k in ks:
            for opname, op in (("R", lambda r, k: r >> k), ("L", lambda r, k: r << k)):
                label = "{}:{}:{}".format(idx, opname, k)
                res = attempt(label, op, rec, k, describe=d_rec)
                if res is not None:
                    out(label, "ALIAS", d_alias(res, rec))
        # compositions
        for _ in range(10):
            a, b, c = (rng.randrange(-2 * n, 3 * n + 1) for _ in range(3))

            def compose(r):
                return ((r >> a) << b) >> c

            attempt("{}:COMP:{}:{}:{}".format(idx, a, b, c), compose, rec, describe=d_rec)
        # odd arguments
        for k in (True, 1.0, 0.0, 2.5, None, "2", "%d", [1], 1 + 0j):
            attempt("{}:ODD:R:{!r}".format(idx, k), lambda: rec >> k, describe=d_rec)
            attempt("{}:ODD:L:{!r}".format(idx, k), lambda: rec << k, describe=d_rec)
        out("AFTER", idx, d_rec(rec) == before)

    # empty record
    empty = CircularRecord(Seq(""), id="empty")
    for k in (0, 1, -1, 2.5):
        attempt("EMPTY:R:{}".format(k), lambda: empty >> k, describe=d_rec)
        attempt("EMPTY:L:{}".format(k), lambda: empty << k, describe=d_rec)

    # subclass keeps its type through rotation
    class Plasmid(CircularRecord):
        pass

    p = Plasmid(Seq("ABCDEFG"), id="p", letter_annotations={"q": list(range(7))})
    attempt("SUB:R", lambda: p >> 3, describe=d_rec)
    attempt("SUB:L", lambda: p << 3, describe=d_rec)
    attempt("SUB:RC", lambda: p.reverse_complement(), describe=d_rec)


def construction_section():
    section("construction")
    rng = random.Random(77)
    for idx in range(40):
        n = rng.randrange(1, 12)
        src = make_record(rng, n, idx, cls=SeqRecord)
        before = d_rec(src)
        res = attempt("INIT:{}".format(idx), CircularRecord, src, describe=d_rec)
        if res is not None:
            out("INIT:{}".format(idx), "ALIAS", d_alias(res, src))
            res.annotations["x"] = 1
            res.dbxrefs.append("y")
            if res.features:
                res.features[0].qualifiers["z"] = ["z"]
            for track in res.letter_annotations.values():
                if isinstance(track, list) and track:
                    track[0] = -1
        out("INIT:{}".format(idx), "SRC-AFTER", d_rec(src) == before)
        cr = attempt("INIT2:{}".format(idx), CircularRecord, CircularRecord(src), describe=d_rec)
        if cr is None:
            continue
        before = d_rec(cr)
        # slicing / indexing
        for sl in (
            slice(None), slice(0, n), slice(1, None), slice(None, -1), slice(2, 5),
            slice(None, None, -1), slice(None, None, 2), slice(5, 2), slice(n, 2 * n),
            0, -1, n - 1, n, -n - 1, "a", None, (1, 2),
        ):
            got = attempt(
                "GET:{}:{!r}".format(idx, sl),
                lambda: cr[sl],
                describe=lambda r: d_rec(r) if isinstance(r, SeqRecord) else repr(r),
            )
            if isinstance(got, SeqRecord):
                out("GET:{}:{!r}".format(idx, sl), "ALIAS", d_alias(got, cr)[:6])
        # containment
        doubled = str(cr.seq) * 2
        for probe in (doubled[n - 1 : n + 1], doubled[: n], doubled[1 : n + 1], doubled[: n + 1], "", "~", Seq(doubled[2:4]), 3, None):
            attempt("IN:{}:{!r}".format(idx, probe), lambda: probe in cr)
        # ambiguous operations
        attempt("ADD:{}".format(idx), lambda: cr + cr)
        attempt("RADD:{}".format(idx), lambda: "AC" + cr)
        attempt("ADD2:{}".format(idx), lambda: cr + "AC")
        # reverse complement
        for kw in ({}, {"id": True, "name": True, "description": True, "annotations": True, "dbxrefs": True}, {"features": False, "letter_annotations": False}, {"id": "other"}):
            attempt("RC:{}:{}".format(idx, sorted(kw.items())), lambda: cr.reverse_complement(**kw), describe=d_rec)
        out("AFTER", idx, d_rec(cr) == before)

    # topology validation
    for topo in ("linear", "LINEAR", "circular", "CIRCULAR", "", None, 3):
        attempt("TOPO:kw:{!r}".format(topo), lambda: CircularRecord(Seq("ACGT"), annotations={"topology": topo}), describe=d_rec)
        attempt("TOPO:rec:{!r}".format(topo), lambda: CircularRecord(SeqRecord(Seq("ACGT"), annotations={"topology": topo})), describe=d_rec)
    attempt("INIT:str", lambda: CircularRecord("ACGT"), describe=d_rec)
    attempt("INIT:none", lambda: CircularRecord(None), describe=lambda r: type(r).__name__)
    attempt("INIT:badid", lambda: CircularRecord(Seq("ACGT"), id=3), describe=d_rec)
    attempt("INIT:badfeat", lambda: CircularRecord(Seq("ACGT"), features=()), describe=d_rec)
    attempt("INIT:badletan", lambda: CircularRecord(Seq("ACGT"), letter_annotations={"q": [1]}), describe=d_rec)
    attempt("INIT:positional", lambda: CircularRecord(Seq("ACGT"), "i", "n", "d", ["x"], [], {"a": 1}, {"q": "abcd"}), describe=d_rec)


def regex_section():
    section("regex")
    rng = random.Random(5)
    patterns = [
        "GGTCTCN(NNNN)(N*)(NNNN)NGAGACC", "(ATG)(N*?)(TAA)", "RYSWKM", "BDHV", "(GAAGAC)NN(NNNN)",
        "AC(G)(T)", "N", "ACGTN*ACGT", "(?P<x>CC)(GG)",
    ]
    for pi, pattern in enumerate(patterns):
        rx = attempt("RX:{}".format(pi), DNARegex, pattern, describe=lambda r: r.regex.pattern)
        if rx is None:
            continue
        for si in range(14):
            n = rng.randrange(4, 40)
            text = "".join(rng.choice("ACGT") for _ in range(n))
            if si % 3 == 0:
                core = "GGTCTCAACGTTTTTTTGGGGAGAGACC" if pi == 0 else "ATGCCGGTAAGAAGACTTACGT"
                text = core + text
                cut = rng.randrange(1, len(text))
                text = text[cut:] + text[:cut]
            if si % 2:
                text = "".join(c.lower() if rng.random() < 0.5 else c for c in text)
            subjects = [
                ("seq", Seq(text)),
                ("lin", SeqRecord(Seq(text), id="lin")),
                ("circ", CircularRecord(Seq(text), id="circ", letter_annotations={"i": list(range(len(text)))})),
            ]
            for sname, subject in subjects:
                for kw in ({}, {"linear": False}, {"pos": 3}, {"pos": 2, "endpos": 6}):
                    label = "RX:{}:{}:{}:{}".format(pi, si, sname, sorted(kw.items()))

                    def describe(m):
                        if m is None:
                            return "nomatch"
                        groups = []
                        for g in range(m.match.re.groups + 1):
                            try:
                                got = m.group(g)
                                groups.append((m.span(g), d_rec(got) if isinstance(got, SeqRecord) else repr(got)))
                            except Exception as exc:  # noqa
                                groups.append((m.span(g), type(exc).__name__, str(exc)))
                        return repr((m.start(), m.end(), m.shift, groups))

                    attempt(label, rx.search, subject, describe=describe, **kw)
        attempt("RX:{}:str".format(pi), rx.search, "ACGT")
        attempt("RX:{}:none".format(pi), rx.search, None)
    out("LETTERMAP", sorted(DNARegex._lettermap.items()), DNARegex._transcribe("ABDHKMNRSVWYX()*"))
    attempt("LETTERMAP:get", lambda: DNARegex._lettermap.get("N"))
    attempt("LETTERMAP:len", lambda: len(DNARegex._lettermap))
    attempt("LETTERMAP:in", lambda: ("N" in DNARegex._lettermap, "A" in DNARegex._lettermap))


def kit_modules():
    from moclo.kits import cidar, ecoflex, moclo as moclo_kit, plant, ytk

    return [("cidar", cidar), ("ecoflex", ecoflex), ("moclo", moclo_kit), ("plant", plant), ("ytk", ytk)]


def kit_classes(mod):
    found = []
    for name in sorted(vars(mod)):
        obj = getattr(mod, name)
        if isinstance(obj, type) and issubclass(obj, (AbstractModule, AbstractVector, AbstractPart)):
            if obj.__module__ == mod.__name__:
                found.append(obj)
    return found


def d_entity(ent):
    res = []
    for meth in ("is_valid", "overhang_start", "overhang_end", "target_sequence", "placeholder_sequence"):
        if not hasattr(ent, meth):
            continue
        with warnings.catch_warnings(record=True) as caught:
            warnings.simplefilter("always")
            try:
                got = getattr(ent, meth)()
            except Exception as exc:  # noqa
                res.append((meth, "EXC", type(exc).__name__, str(exc)[:300]))
            else:
                res.append((meth, d_rec(got) if isinstance(got, SeqRecord) else repr(got)))
        for w in caught:
            res.append((meth, "WARN", w.category.__name__, str(w.message)))
    return repr(res)


def core_section():
    section("core")
    bases = [AbstractModule, AbstractVector, AbstractPart, Entry, EntryVector]
    for kname, mod in kit_modules():
        for cls in kit_classes(mod):
            out(
                "CLS", kname, cls.__name__,
                [b.__name__ for b in cls.__mro__ if b.__module__.startswith("moclo.kits") or b in bases],
                [issubclass(cls, b) for b in bases],
                getattr(cls, "_level", "-"),
                getattr(cls, "cutter", "-"),
                getattr(cls, "signature", "-"),
            )
            attempt("STRUCT:{}:{}".format(kname, cls.__name__), cls.structure)
            attempt("NEW:{}:{}".format(kname, cls.__name__), lambda: type(cls(CircularRecord(Seq("ACGT"), id="x"))).__name__)
    for base in (AbstractModule, AbstractVector, AbstractPart):
        attempt("ABSTRACT:{}".format(base.__name__), lambda: base(CircularRecord(Seq("ACGT"))))

        class Blunt(base):
            cutter = EcoRV

        attempt("BLUNT:{}".format(base.__name__), lambda: Blunt(CircularRecord(Seq("ACGT"))))

    # generic modules / vectors with other enzymes, matches wrapping the origin,
    # mixed case, plain SeqRecord, illegal sites
    rng = random.Random(99)
    for enzyme in (BsaI, BpiI, BsmBI, SapI):
        class Mod(AbstractModule):
            cutter = enzyme

        class Vec(AbstractVector):
            cutter = enzyme

        class Part(AbstractPart, Entry):
            cutter = enzyme
            signature = ("ATGC"[: len(enzyme.ovhgseq)], "GGTA"[: len(enzyme.ovhgseq)])

        class VPart(AbstractPart, EntryVector):
            cutter = enzyme
            signature = ("ATGC"[: len(enzyme.ovhgseq)], "GGTA"[: len(enzyme.ovhgseq)])

        for cls in (Mod, Vec, Part, VPart):
            attempt("GEN:{}:{}:structure".format(enzyme, cls.__name__), cls.structure)
        site = enzyme.site
        rsite = str(Seq(site).reverse_complement())
        gap = "A" * (enzyme.fst5 - len(site))
        ov = len(enzyme.ovhgseq)
        for trial in range(8):
            o1 = "ATGC"[:ov]
            o2 = "GGTA"[:ov] if trial % 4 else "".join(rng.choice("ACGT") for _ in range(ov))
            inner = "".join(rng.choice("AT") for _ in range(rng.randrange(3, 12)))
            outer = "".join(rng.choice("AT") for _ in range(rng.randrange(3, 12)))
            if trial == 5:
                inner = inner + site + "AAAAAAAAAAAA"  # illegal site
            mod_text = site + gap + o1 + inner + o2 + gap + rsite + outer
            vec_text = outer + o1 + gap + rsite + inner + site + gap + o2
            for tname, text, classes in (("mod", mod_text, (Mod, Part)), ("vec", vec_text, (Vec, VPart))):
                n = len(text)
                feats = [
                    SeqFeature(FeatureLocation(0, n, strand=1), type="source", qualifiers={"label": ["src"]}),
                    SeqFeature(FeatureLocation(2, n - 2, strand=-1), type="CDS", qualifiers={"label": ["KanR"], "citation": ["[1]"]}),
                    SeqFeature(CompoundLocation([FeatureLocation(n - 4, n, strand=1), FeatureLocation(0, 5, strand=1)]), type="misc", qualifiers={"label": ["wrap"]}),
                ]
                base = CircularRecord(
                    Seq(text), id="{}{}".format(tname, trial), name="nm", features=feats,
                    annotations={"references": ["REF"], "topology": "circular"},
                    letter_annotations={"i": list(range(n))},
                )
                for shift in (0, 3, n // 2, n - 2):
                    rec = base >> shift
                    if trial % 2:
                        rec.seq = Seq("".join(c.lower() if i % 3 else c for i, c in enumerate(str(rec.seq))))
                    variants = [("circ", rec), ("plain", SeqRecord(rec.seq, id=rec.id, features=list(rec.features)))]
                    for vname, r in variants:
                        before = d_rec(r)
                        for cls in classes:
                            label = "GEN:{}:{}:{}:{}:{}:{}".format(enzyme, tname, trial, shift, vname, cls.__name__)
                            out(label, d_entity(cls(r)))
                        out("GEN-AFTER", d_rec(r) == before)


def assembly_section():
    section("assembly")

    class MockVector(AbstractVector):
        cutter = BpiI

    class MockModule(AbstractModule):
        cutter = BpiI

    def feats(n, cite):
        fs = [
            SeqFeature(FeatureLocation(0, n, strand=1), type="source", qualifiers={"label": ["whole"]}),
            SeqFeature(FeatureLocation(1, n - 1, strand=-1), type="CDS", qualifiers={"label": ["cds"], "citation": [cite]}),
            SeqFeature(CompoundLocation([FeatureLocation(n - 3, n, strand=1), FeatureLocation(0, 3, strand=1)]), type="misc", qualifiers={"label": ["span"]}),
            SeqFeature(FeatureLocation(12, 16, strand=1), type="misc", qualifiers={"label": ["inner"], "citation": ["[1]", cite]}),
        ]
        return fs

    def rec(text, id_, cite="[1]", refs=("Ref A", "Ref B"), shift=0, lower=False):
        n = len(text)
        r = CircularRecord(
            Seq(text), id=id_, name=id_ + "-name", features=feats(n, cite),
            annotations={"references": list(refs)}, letter_annotations={"i": list(range(n))},
        )
        r = r >> shift
        if lower:
            r.seq = Seq(str(r.seq).lower())
        return r

    cases = {
        "ok": ("CCATGCTTGTCTTCCACAGAAGACTTCGTAGG", ["GAAGACTTATGCTATACGTATTGTCTTC"]),
        "two": ("CCATGCTTGTCTTCCACAGAAGACTTCGTAGG", ["GAAGACTTATGCTATAGGGATTGTCTTC", "GAAGACTTGGGATTTACGTATTGTCTTC"]),
        "invalid-vector": ("CCATGCTTGTCTTCCACAGAAGACTTATGCGG", ["GAAGACTTATGCCACAATGCTTGTCTTC"]),
        "duplicate": ("CCATGCTTGTCTTCCACAGAAGACTTCGTAGG", ["GAAGACTTATGCCACACGTATTGTCTTC", "GAAGACTTATGCTATACGTATTGTCTTC"]),
        "missing": ("CCATGCTTGTCTTCCACAGAAGACTTCGTAGG", ["GAAGACTTATGACACACGTATTGTCTTC"]),
        "unused": ("CCATGCTTGTCTTCCACAGAAGACTTCGTAGG", ["GAAGACTTATGCTATACGTATTGTCTTC", "GAAGACTTAAAACACACCCCTTGTCTTC"]),
        "nomatch": ("CCATGCTTGTCTTCCACAGAAGACTTCGTAGG", ["GAAGACTTATGCTATACGTATTGTCAAC"]),
    }
    for cname in sorted(cases):
        vtext, mtexts = cases[cname]
        for shift in (0, 5, 17):
            for lower in (False, True):
                for cite in ("[1]", "[2]", "[7]", "bad"):
                    v = rec(vtext, "vector", cite=cite, shift=shift, lower=lower)
                    ms = [rec(t, "mod{}".format(i), cite=cite, shift=shift + i, lower=lower and i) for i, t in enumerate(mtexts)]
                    inputs = [v] + ms
                    before = [d_rec(r) for r in inputs]
                    label = "ASM:{}:{}:{}:{}".format(cname, shift, lower, cite)
                    attempt(
                        label,
                        lambda: MockVector(v).assemble(*[MockModule(m) for m in ms], id="asm", name="asm-name"),
                        describe=d_rec,
                    )
                    out(label, "INPUTS-SAME", [d_rec(r) == b for r, b in zip(inputs, before)])
                    out(label, "INPUTS", [d_rec(r) for r in inputs] if cite != "[1]" else "-")

    # the integration vector of the YTK paper (FASTA files of the test suite)
    import Bio.SeqIO
    import fs.archive
    from moclo.kits import ytk
    from tests._utils import DATAFS

    with fs.archive.open_archive(DATAFS, "cases/ytk_integration_vector.tar.xz") as casefs:
        with casefs.open("vector.fa") as fh:
            vec = CircularRecord(Bio.SeqIO.read(fh, "fasta"))
        with casefs.open("modules.fa") as fh:
            mods = {r.id: CircularRecord(r) for r in Bio.SeqIO.parse(fh, "fasta")}
    out("YTK-IV", "modules", sorted(mods))
    types = {
        "pYTK008.gb": ytk.YTKPart1, "pYTK047.gb": ytk.YTKPart234r, "pYTK073.gb": ytk.YTKPart5,
        "pYTK074.gb": ytk.YTKPart6, "pYTK086.gb": ytk.YTKPart7, "pYTK092.gb": ytk.YTKPart8b,
    }
    wrapped = []
    for key in sorted(mods):
        cls = types.get(key)
        if cls is None:
            for cand in kit_classes(ytk):
                if issubclass(cand, AbstractPart) and issubclass(cand, AbstractModule) and cand.signature is not NotImplemented:
                    try:
                        if cand(mods[key]).is_valid():
                            cls = cand
                            break
                    except Exception:  # noqa
                        pass
        out("YTK-IV", key, cls.__name__ if cls else None)
        if cls is not None:
            wrapped.append(cls(mods[key]))
    for shift in (0, 1234):
        attempt(
            "YTK-IV:asm:{}".format(shift),
            lambda: ytk.YTKCassetteVector(vec >> shift).assemble(*wrapped),
            describe=lambda r: hashlib.sha256(d_rec(r).encode()).hexdigest(),
        )


def registry_section():
    section("registry")
    from moclo.registry.cidar import CIDARRegistry
    from moclo.registry.ecoflex import EcoFlexRegistry
    from moclo.registry.plant import PlantRegistry
    from moclo.registry.ytk import YTKRegistry, PTKRegistry
    from moclo.registry.base import CombinedRegistry

    regs = [("cidar", CIDARRegistry), ("ecoflex", EcoFlexRegistry), ("plant", PlantRegistry), ("ytk", YTKRegistry), ("ptk", PTKRegistry)]
    combined = CombinedRegistry()
    for rname, factory in regs:
        reg = factory()
        combined << reg
        ids = sorted(reg)
        out("REG", rname, len(reg), len(ids), hash(reg) == hash(factory()), reg == factory())
        for i, id_ in enumerate(ids):
            item = reg[id_]
            rec = item.entity.record
            out("ITEM", rname, id_, item.name, item.resistance, type(item.entity).__name__, type(rec).__name__, len(rec))
            digest = hashlib.sha256(d_entity(item.entity).encode()).hexdigest()
            out("ENT", rname, id_, digest)
            attempt("RES:{}:{}".format(rname, id_), find_resistance, rec)
            if i % 6 == 0:
                n = len(rec)
                rot = rec >> (n // 3)
                out("ROT", rname, id_, hashlib.sha256(d_rec(rot).encode()).hexdigest())
                out("ROT-BACK", rname, id_, str((rot << (n // 3)).seq) == str(rec.seq))
                out("ROT-ENT", rname, id_, hashlib.sha256(d_entity(type(item.entity)(rot)).encode()).hexdigest())
    out("COMBINED", len(combined), sorted(combined)[:5])

    # a CIDAR assembly out of the registry
    from moclo.registry.cidar import CIDARRegistry

    reg = CIDARRegistry()
    vector = reg["DVK_AE"].entity
    mods = [reg[x].entity for x in ("J23102_AB", "BCD2_BC", "E0040m_CD", "B0015_DE")]
    inputs = [vector.record] + [m.record for m in mods]
    before = [d_rec(r) for r in inputs]
    attempt("CIDAR:asm", lambda: vector.assemble(*mods), describe=lambda r: hashlib.sha256(d_rec(r).encode()).hexdigest())
    attempt("CIDAR:asm:missing", lambda: vector.assemble(*mods[:-1]), describe=d_rec)
    attempt("CIDAR:asm:dup", lambda: vector.assemble(*(mods + [type(mods[0])(mods[0].record >> 7)])), describe=d_rec)
    out("CIDAR:inputs-same", [d_rec(r) == b for r, b in zip(inputs, before)])

    # synthetic resistance lookups
    def with_labels(*labels):
        fs = [SeqFeature(FeatureLocation(0, 2), type="CDS", qualifiers={"label": list(l)} if l is not None else {}) for l in labels]
        return SeqRecord(Seq("ACGT"), id="synthetic", features=fs)

    for labels in ((), (None,), (["KanR"],), (["x"], ["CmR"]), (["KanR", "AmpR"],), (["SpecR"], ["AmpR"]), (["kanr"],), (["KnR", "KnR"],), (["SmR", "x"],), (["CamR"],), (["AmpR"],)):
        attempt("RES:syn:{!r}".format(labels), find_resistance, with_labels(*labels))


def main():
    rotation_section()
    construction_section()
    regex_section()
    core_section()
    assembly_section()
    registry_section()
    text = "\n".join(LINES)
    if "--dump" in sys.argv:
        sys.stdout.write(text + "\n")
    for name in SECTIONS:
        print("{:14s} {:7d} lines".format(name, SECTIONS[name]))
    print("DIGEST", hashlib.sha256(text.encode("utf-8")).hexdigest())


if __name__ == "__main__":
    main()
