# coding: utf-8
"""Differential test for the rewrite of DNARegex._transcribe / DNARegex.search."""
import sys

sys.path.insert(0, "/tmp/agentsR4/R15")
import tests  # noqa: E402,F401

import hashlib  # noqa: E402
import random  # noqa: E402
import warnings  # noqa: E402

warnings.simplefilter("ignore")

from Bio.Seq import Seq  # noqa: E402
from Bio.SeqRecord import SeqRecord  # noqa: E402
from Bio.SeqFeature import SeqFeature, FeatureLocation  # noqa: E402
from Bio.Restriction import BpiI, BsaI, BsmBI, SapI  # noqa: E402

from moclo.record import CircularRecord  # noqa: E402
from moclo.regex import DNARegex, SeqMatch  # noqa: E402
from moclo.core.modules import AbstractModule  # noqa: E402
from moclo.core.vectors import AbstractVector  # noqa: E402

rng = random.Random(150001)
results = []


def outcome(fn, *args, **kwargs):
    try:
        return ("ok", fn(*args, **kwargs))
    except Exception as exc:  # noqa
        return ("exc", type(exc).__name__, str(exc))


def show(obj):
    if isinstance(obj, SeqRecord):
        return (
            type(obj).__name__,
            str(obj.seq),
            obj.id,
            [(f.type, repr(f.location)) for f in obj.features],
            sorted(obj.annotations.items()),
        )
    if isinstance(obj, Seq):
        return ("Seq", str(obj))
    return repr(obj)


def show_match(m):
    if m is None:
        return None
    assert isinstance(m, SeqMatch)
    out = [m.start(), m.end(), m.span(), m.shift, m.rec is not None, m.match.re.pattern]
    for g in range(m.match.re.groups + 1):
        out.append((m.span(g), show(outcome(m.group, g)[-1])))
    out.append(outcome(m.group, m.match.re.groups + 1)[:2])
    return out


def randseq(n, alphabet="ACGT"):
    return "".join(rng.choice(alphabet) for _ in range(n))


PATTERNS = [
    "GGTCTC",
    "GAAGACNN(NNNN)(NN*N)(NNNN)NNGTCTTC",
    "N(NNNN)(NGAGACCN*GGTCTCN)(NNNN)N",
    "ggtctcn(nnnn)",
    "GgTcTcN(NNNN)(NN*N)",
    "(ATG)(NNN)*(TAA|TAG|TGA)",
    "RYSWKM",
    "BDHVN",
    "(A)(C)?(G)",
    "A{2,4}(T+)",
    "",
    "N*",
    "(?P<x>GATC)",
    "[AC]G",
    "XZ",
    "A.C",
    "(",
    "N)",
    "*",
]

# 1. transcription (observable through .pattern / .regex.pattern)
for pat in PATTERNS + [randseq(rng.randint(0, 12), "ACGTNBDHKMRSVWYacgtn()*") for _ in range(150)]:
    o = outcome(DNARegex, pat)
    if o[0] == "ok":
        results.append(("T", pat, o[1].pattern, o[1].regex.pattern, o[1].regex.flags))
    else:
        results.append(("T", pat) + o)
for bad in (None, 3, ["A", "N"], ["A", 1], ("G", "R"), b"AN"):
    o = outcome(DNARegex, bad)
    if o[0] == "ok":
        results.append(("T", repr(bad), repr(o[1].pattern), o[1].regex.pattern))
    else:
        results.append(("T", repr(bad)) + o)


class SubRegex(DNARegex):
    _lettermap = dict(DNARegex._lettermap, X="[AT]", N=".")


results.append(("T-sub", SubRegex("NXGA").regex.pattern, SubRegex("nxga").regex.pattern))

# 2. search on generated inputs
compiled = []
for pat in PATTERNS:
    try:
        compiled.append(DNARegex(pat))
    except Exception:
        pass
compiled.append(SubRegex("GXNC"))

SITES = ["GGTCTC", "GAGACC", "GAAGAC", "GTCTTC", "ATG", "TAA", "GATC", "ggtctc", "gAaGaC"]


def make_string():
    n = rng.randint(0, 60)
    s = randseq(n, rng.choice(["ACGT", "ACGTacgt", "ACGTN", "AC"]))
    for _ in range(rng.randint(0, 3)):
        site = rng.choice(SITES)
        if len(s) >= len(site):
            at = rng.randint(0, len(s) - len(site))
            s = s[:at] + site + s[at + len(site):]
    if rng.random() < 0.3 and len(s) > 12:
        # make a site wrap around the origin
        site = rng.choice(SITES[:4])
        k = rng.randint(1, len(site) - 1)
        s = site[k:] + s[len(site):] + site[:k]
    kind = rng.choice(["seq", "rec", "circ", "circ", "sub"])
    if kind == "seq":
        return Seq(s)
    feats = [SeqFeature(FeatureLocation(0, min(3, len(s))), type="misc")] if s else []
    if kind == "rec":
        return SeqRecord(Seq(s), id="r", features=feats)
    if kind == "sub":

        class MyCirc(CircularRecord):
            pass

        return MyCirc(Seq(s), id="s", features=feats)
    return CircularRecord(Seq(s), id="c", features=feats)


for case in range(700):
    string = make_string()
    rx = rng.choice(compiled)
    n = len(string)
    kwargs = {}
    if rng.random() < 0.5:
        kwargs["pos"] = rng.choice([0, 1, n // 2, n - 1, n, n + 3, -1, -n, rng.randint(-5, n + 5)])
    if rng.random() < 0.5:
        kwargs["endpos"] = rng.choice([0, 1, n // 2, n - 1, n, n + 3, -1, 2 * n, rng.randint(-5, 2 * n + 5)])
    if rng.random() < 0.5:
        kwargs["linear"] = rng.choice([True, False])
    o = outcome(rx.search, string, **kwargs)
    if o[0] == "ok":
        m = o[1]
        if m is not None:
            assert m.rec is string
        results.append(("S", case, rx.pattern, show(string), sorted(kwargs.items()), show_match(m)))
    else:
        results.append(("S", case, rx.pattern, show(string), sorted(kwargs.items())) + o)

# 3. invalid arguments
rx = DNARegex("GGTCTC")
for bad in ("GGTCTC", b"GGTCTC", None, 12, ["G"], object):
    results.append(("B", repr(bad)) + outcome(rx.search, bad)[0:3])
for kwargs in ({"pos": None}, {"pos": "1"}, {"endpos": None}, {"pos": 1.5}, {"endpos": 2.5}):
    results.append(("B2", sorted(kwargs)) + outcome(rx.search, Seq("AAGGTCTCAA"), **kwargs)[0:3])
    results.append(("B3", sorted(kwargs)) + outcome(rx.search, Seq(""), **kwargs)[0:3])

# 4. through structured records
ENZ = [BpiI, BsaI, BsmBI, SapI]


def structured(base, cutter):
    return type(str("X" + base.__name__), (base,), {"cutter": cutter})


for case in range(250):
    cutter = rng.choice(ENZ)
    site = cutter.site
    rcsite = str(Seq(site).reverse_complement())
    ov = cutter.ovhg and abs(cutter.ovhg)
    gap = "N" * (cutter.elucidate().index("^") - len(site))
    o1, o2 = randseq(ov), randseq(ov)
    inner = randseq(rng.randint(0, 30))
    outer = randseq(rng.randint(0, 30))
    fill = lambda g: "".join(rng.choice("ACGT") for _ in g)  # noqa: E731
    if rng.random() < 0.5:
        base = AbstractModule
        s = site + fill(gap) + o1 + inner + o2 + fill(gap) + rcsite + outer
    else:
        base = AbstractVector
        s = outer[:len(outer) // 2] + o1 + fill(gap) + rcsite + inner + site + fill(gap) + o2 + outer[len(outer) // 2:]
    if rng.random() < 0.2:
        s = s.lower()
    elif rng.random() < 0.2:
        s = "".join(rng.choice([c.lower(), c]) for c in s)
    if rng.random() < 0.15 and len(s) > 3:
        at = rng.randrange(len(s))
        s = s[:at] + rng.choice("ACGT") + s[at + 1:]
    rot = rng.randint(0, len(s))
    s = s[rot:] + s[:rot]
    topo = rng.choice([None, "circular", "linear", "Circular", "LINEAR"])
    if topo is not None and topo.lower() == "linear":
        rec = SeqRecord(Seq(s), id="lin", annotations={"topology": topo})
    elif topo is None:
        rec = rng.choice([CircularRecord, SeqRecord])(Seq(s), id="none")
    else:
        rec = CircularRecord(Seq(s), id="circ", annotations={"topology": topo})
    cls = structured(base, cutter)
    ent = cls(rec)
    row = ["E", case, cls.structure(), s, topo, type(rec).__name__, ent.is_valid()]
    for meth in ("overhang_start", "overhang_end", "target_sequence"):
        o = outcome(getattr(ent, meth))
        row.append(o[:1] + (show(o[1]),) if o[0] == "ok" else o)
    results.append(tuple(row))

digest = hashlib.sha256(repr(results).encode("utf-8")).hexdigest()
print(len(results), digest)
