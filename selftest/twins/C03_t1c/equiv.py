# coding: utf-8
"""Differential test for the assembly code (property C03).

Exercises the assembly machinery through the existing API on generated and
registry inputs and prints a digest of everything observable: results,
exception types / messages / ``args`` / attributes, warnings, and the state
of the inputs afterwards. The digest has to be identical before and after a
behaviour-preserving change.

Run as:  cd /tmp/agents9/C03 && /venv/bin/python pairs_out/C03_t1/equiv.py
"""
from __future__ import print_function

import copy
import hashlib
import itertools
import os
import pickle
import random
import re
import sys
import warnings

sys.path.insert(0, "/tmp/agents9/C03")
warnings.filterwarnings("ignore", message="pkg_resources is deprecated")
import tests  # noqa: E402,F401

from Bio.Restriction import BpiI, BsaI, BsmBI, BtsI, BsrDI  # noqa: E402
from Bio.Seq import Seq  # noqa: E402
from Bio.SeqFeature import SeqFeature, FeatureLocation, Reference  # noqa: E402
from Bio.SeqRecord import SeqRecord  # noqa: E402

from moclo import errors  # noqa: E402
from moclo.core import AbstractModule, AbstractPart, AbstractVector  # noqa: E402
from moclo.core import Entry, EntryVector  # noqa: E402
from moclo.core._assembly import AssemblyManager  # noqa: E402
from moclo.core._structured import StructuredRecord  # noqa: E402
from moclo.record import CircularRecord  # noqa: E402


# --- Describing objects without addresses -------------------------------------


def describe(obj, depth=0):
    if depth > 8:
        return "..."
    if obj is None or isinstance(obj, (bool, int, float)):
        return repr(obj)
    if isinstance(obj, str):
        return "str:" + obj
    if isinstance(obj, bytes):
        return "bytes:" + repr(obj)
    if isinstance(obj, Seq):
        return "Seq:" + str(obj)
    if isinstance(obj, StructuredRecord):
        return "entity:{}:{}".format(type(obj).__name__, obj.record.id)
    if isinstance(obj, SeqRecord):
        return describe_record(obj, depth + 1)
    if isinstance(obj, Reference):
        return "Reference:" + describe(
            [obj.title, obj.authors, obj.journal, obj.pubmed_id, obj.comment, [str(l) for l in obj.location]],
            depth + 1,
        )
    if isinstance(obj, SeqFeature):
        return "Feature:" + describe(
            [obj.type, str(obj.location), obj.id, obj.qualifiers], depth + 1
        )
    if isinstance(obj, BaseException):
        return describe_exception(obj, depth + 1)
    if isinstance(obj, dict):
        items = [(describe(k, depth + 1), describe(v, depth + 1)) for k, v in obj.items()]
        return "{}{{{}}}".format(type(obj).__name__, ", ".join("{}: {}".format(*kv) for kv in items))
    if isinstance(obj, (list, tuple)):
        return "{}[{}]".format(type(obj).__name__, ", ".join(describe(x, depth + 1) for x in obj))
    if isinstance(obj, (set, frozenset)):
        return "set[{}]".format(", ".join(sorted(describe(x, depth + 1) for x in obj)))
    if isinstance(obj, type):
        return "class:" + obj.__name__
    return "<{}>".format(type(obj).__name__)


def describe_record(rec, depth=0):
    return "{}({})".format(
        type(rec).__name__,
        describe(
            [
                str(rec.seq),
                rec.id,
                rec.name,
                rec.description,
                list(rec.dbxrefs),
                dict(rec.annotations),
                list(rec.features),
                dict(rec.letter_annotations),
            ],
            depth + 1,
        ),
    )


def describe_exception(exc, depth=0):
    attrs = {k: v for k, v in sorted(vars(exc).items())}
    return "{}(str={!r}, args={}, attrs={}, cause={}, context={}, suppress={})".format(
        type(exc).__name__,
        str(exc),
        describe(tuple(exc.args), depth + 1),
        describe(attrs, depth + 1),
        type(exc.__cause__).__name__,
        type(exc.__context__).__name__,
        exc.__suppress_context__,
    )


def call(func, *args, **kwargs):
    """Call and describe the outcome, including warnings."""
    with warnings.catch_warnings(record=True) as caught:
        warnings.simplefilter("always")
        try:
            out = "ok:" + describe(func(*args, **kwargs))
        except Exception as exc:  # noqa
            out = "raised:" + describe_exception(exc)
    warns = [
        "{}:{}:{}:{}".format(
            w.category.__name__,
            str(w.message),
            describe(tuple(w.message.args)),
            describe(dict(sorted(vars(w.message).items()))),
        )
        for w in caught
        if "pkg_resources" not in str(w.message)
    ]
    return out + " warnings=" + describe(warns)


#: object addresses leak into some messages (``InvalidSequence(vector)``)
ADDRESS = re.compile(r"0x[0-9a-fA-F]+")


class Digest(object):
    def __init__(self):
        self.total = hashlib.sha256()
        self.sections = []

    def section(self, name, lines):
        h = hashlib.sha256()
        n = 0
        lines = [ADDRESS.sub("0x?", line) for line in lines]
        for line in lines:
            data = line.encode("utf-8", "backslashreplace")
            h.update(data + b"\n")
            self.total.update(data + b"\n")
            n += 1
        self.sections.append((name, n, h.hexdigest()))
        if os.environ.get("EQUIV_DUMP"):
            with open(os.path.join(os.environ["EQUIV_DUMP"], name + ".txt"), "w") as f:
                f.write("\n".join(lines))

    def report(self):
        for name, n, h in self.sections:
            print("{:<22} {:>6} entries  {}".format(name, n, h[:32]))
        print("DIGEST", self.total.hexdigest())


# --- Synthetic kits ---------------------------------------------------------


def make_kit(cutter):
    vec = type(str("V" + cutter.__name__), (AbstractVector,), {"cutter": cutter})
    mod = type(str("M" + cutter.__name__), (AbstractModule,), {"cutter": cutter})
    return vec, mod


SITES = {
    "BpiI": ("GAAGACTT", "TTGTCTTC"),
    "BsaI": ("GGTCTCA", "TGAGACC"),
    "BsmBI": ("CGTCTCA", "TGAGACG"),
}
KITS = {name: make_kit(c) for name, c in (("BpiI", BpiI), ("BsaI", BsaI), ("BsmBI", BsmBI))}

OVERHANGS = ["CCCT", "TACA", "AAAC", "GTTT", "ACGT", "AATT", "TTCA", "CGCT", "AGGT", "GCTA"]


def respell(s, case):
    if case == 0:
        return s.upper()
    if case == 1:
        return s.lower()
    return "".join(c.lower() if i % 2 else c.upper() for i, c in enumerate(s))


def tag(rng, n=8):
    return "".join(rng.choice("ACT") for _ in range(n))


def reference(i):
    ref = Reference()
    ref.title = "Title {}".format(i)
    ref.authors = "Author {}".format(i)
    ref.journal = "Journal"
    return ref


def decorate(rec, rng, nrefs):
    """Add features, citations and references to a record."""
    if nrefs:
        rec.annotations["references"] = [reference(rng.randrange(4)) for _ in range(nrefs)]
    for k in range(rng.randrange(3)):
        a = rng.randrange(len(rec))
        b = rng.randrange(a, len(rec)) + 1
        quals = {"label": ["f{}".format(k)]}
        if nrefs and rng.random() < 0.8:
            quals["citation"] = ["[{}]".format(rng.randrange(nrefs) + 1) for _ in range(rng.randrange(1, 3))]
        rec.features.append(SeqFeature(FeatureLocation(a, b, strand=rng.choice([1, -1])), type="misc_feature", qualifiers=quals))
    return rec


def make_module(rng, kit, start, end, case=0, shift=0, circular=True, topology=None, nrefs=0, ident=None):
    left, right = SITES[kit]
    seq = respell(left + start + tag(rng) + end + right + "CATCATCAT", case)
    seq = seq[shift:] + seq[:shift]
    ident = ident or "m{}{}{}".format(start, end, rng.randrange(1000))
    cls = CircularRecord if circular else SeqRecord
    rec = cls(Seq(seq), id=ident, name=ident, description="module")
    if topology is not None:
        rec.annotations["topology"] = topology
    decorate(rec, rng, nrefs)
    return KITS[kit][1](rec)


def make_vector(rng, kit, end, start, case=0, shift=0, circular=True, topology=None, nrefs=0):
    left, right = SITES[kit]
    seq = respell("CAT" + tag(rng) + end + right + "CACA" + left + start + tag(rng) + "TAC", case)
    seq = seq[shift:] + seq[:shift]
    ident = "v{}{}".format(end, start)
    cls = CircularRecord if circular else SeqRecord
    rec = cls(Seq(seq), id=ident, name=ident, description="vector")
    if topology is not None:
        rec.annotations["topology"] = topology
    decorate(rec, rng, nrefs)
    return KITS[kit][0](rec)


def entity_state(entity):
    return describe_record(entity.record)


def synthetic(rng, count):
    for i in range(count):
        kit = rng.choice(sorted(KITS))
        alphabet = rng.sample(OVERHANGS, rng.randrange(2, 6))
        vcase, mcase = rng.choice([0, 0, 1, 2]), rng.choice([0, 0, 1, 2])
        vend = rng.choice(alphabet)
        vstart = rng.choice([o for o in alphabet if o != vend]) if rng.random() < 0.9 else vend
        if rng.random() < 0.1:
            vstart = respell(vend, 1)
        vector = make_vector(
            rng, kit, vend, vstart, case=vcase, shift=rng.choice([0, 0, 3, 14, 25]),
            circular=rng.random() < 0.85, topology=rng.choice([None, None, "circular", "linear"]) if rng.random() < 0.3 else None,
            nrefs=rng.choice([0, 0, 1, 3]),
        )
        mods = []
        cursor = vend
        nmods = rng.randrange(1, 5)
        for k in range(nmods):
            if rng.random() < 0.85:
                start = cursor
                end = vstart if (k == nmods - 1 or rng.random() < 0.3) else rng.choice(alphabet)
                cursor = end
            else:
                start, end = rng.choice(alphabet), rng.choice(alphabet)
            mods.append(
                make_module(
                    rng, kit, start, end, case=mcase if rng.random() < 0.8 else rng.choice([0, 1, 2]),
                    shift=rng.choice([0, 0, 4, 11, 20]),
                    circular=rng.random() < 0.9,
                    topology=rng.choice(["circular", "linear", "Circular"]) if rng.random() < 0.15 else None,
                    nrefs=rng.choice([0, 0, 2]),
                    ident="m{}_{}".format(i, k),
                )
            )
        if rng.random() < 0.1:
            mods.append(mods[0])  # the very same object twice
        rng.shuffle(mods)
        kwargs = rng.choice([{}, {}, {"id": "x{}".format(i)}, {"name": "n", "id": "i"}, {"bogus": 1}])
        out = call(vector.assemble, *mods, **kwargs)
        again = call(vector.assemble, *mods, **kwargs) if rng.random() < 0.3 else ""
        state = [entity_state(e) for e in [vector] + mods]
        yield "synthetic {} {} -> {} | again {} | state {}".format(i, kit, out, again, hashlib.md5(repr(state).encode()).hexdigest())


def permutations(rng):
    """A fixed family of graphs in every order of the arguments."""
    graphs = [
        ("CCCT", "TACA", [("CCCT", "TACA"), ("AAAC", "CCCT"), ("GTTT", "CCCT")]),
        ("CCCT", "TACA", [("CCCT", "AAAC"), ("AAAC", "TACA"), ("GTTT", "CCCT")]),
        ("CCCT", "TACA", [("CCCT", "AAAC"), ("AAAC", "ACGT"), ("TACA", "CCCT")]),
        ("CCCT", "TACA", [("CCCT", "TACA"), ("AAAC", "CCCT"), ("TACA", "AAAC")]),
        ("CCCT", "TACA", [("CCCT", "AAAC"), ("AAAC", "CCCT")]),
        ("CCCT", "TACA", [("CCCT", "AAAC"), ("CCCT", "TACA"), ("AAAC", "TACA")]),
        ("CCCT", "TACA", [("ACGT", "AAAC"), ("CCCT", "TACA")]),
        ("CCCT", "CCCT", [("CCCT", "CCCT")]),
        ("ACGT", "AATT", [("ACGT", "AATT")]),
        ("AAAC", "GTTT", [("AAAC", "GTTT")]),
        ("AAAC", "GTTT", [("AAAC", "CCCT"), ("CCCT", "GTTT"), ("TACA", "TACA"), ("TTCA", "TACA")]),
    ]
    for g, (vend, vstart, graph) in enumerate(graphs):
        for kit in sorted(KITS):
            for case in (0, 1, 2):
                vector = make_vector(rng, kit, vend, vstart, case=case)
                mods = [make_module(rng, kit, s, e, case=case, ident="p{}_{}".format(g, k)) for k, (s, e) in enumerate(graph)]
                for perm in itertools.permutations(mods):
                    yield "perm {} {} {} {} -> {}".format(g, kit, case, [m.record.id for m in perm], call(vector.assemble, *perm))


# --- 3' overhang enzymes (through AbstractPart, the only structure accepting them) ---


def three_prime(rng):
    for cutter, site, rsite in ((BtsI, "GCAGTG", "CACTGC"), (BsrDI, "GCAATG", "CATTGC")):
        for sigs in ([("AA", "CT"), ("CT", "GG")], [("AA", "CT"), ("AG", "GG")], [("AA", "TT"), ("TT", "GG")]):
            vsig = (sigs[-1][1], sigs[0][0])

            class PVec(AbstractPart, EntryVector):
                pass

            PVec.cutter, PVec.signature = cutter, vsig
            yield "3' {} vector structure {}".format(cutter.__name__, call(PVec.structure))
            vseq = "CAT" + tag(rng) + vsig[1] + rsite + "CACA" + site + vsig[0] + tag(rng)
            for circular in (True, False):
                cls = CircularRecord if circular else SeqRecord
                vector = PVec(cls(Seq(vseq), id="v3", name="v3"))
                yield "3' vector valid {}".format(call(vector.is_valid))
                for meth in ("overhang_start", "overhang_end", "placeholder_sequence", "target_sequence"):
                    yield "3' vector {} {}".format(meth, call(getattr(vector, meth)))
                mods = []
                for k, sig in enumerate(sigs):
                    PMod = type(str("PMod{}".format(k)), (AbstractPart, Entry), {"cutter": cutter, "signature": sig})
                    yield "3' module structure {}".format(call(PMod.structure))
                    mseq = site + sig[0] + "A" + tag(rng) + "A" + sig[1] + rsite + "CATCAT"
                    for shift in (0, 7):
                        m = PMod(CircularRecord(Seq(mseq[shift:] + mseq[:shift]), id="m3_{}".format(k), name="m"))
                        yield "3' module {}".format(call(m.is_valid))
                        for meth in ("overhang_start", "overhang_end", "target_sequence"):
                            yield "3' module {} {}".format(meth, call(getattr(m, meth)))
                    mods.append(m)
                for perm in itertools.permutations(mods):
                    yield "3' assemble {}".format(call(vector.assemble, *perm))
                yield "3' assemble partial {}".format(call(vector.assemble, mods[0]))
        # the plain structures do not support these enzymes: record how they fail
        V, M = make_kit(cutter)
        yield "3' plain {}".format(call(V.structure))
        yield "3' plain {}".format(call(M.structure))
        yield "3' plain {}".format(call(lambda: M(CircularRecord(Seq("ACGT" * 10), id="x")).is_valid()))
        yield "3' plain {}".format(call(lambda: V(CircularRecord(Seq("ACGT" * 10), id="x")).overhang_start()))


# --- Registries: every kit class on every record, and assemblies between records ---


def registries(rng):
    from moclo.registry.ytk import YTKRegistry, PTKRegistry
    from moclo.registry.cidar import CIDARRegistry
    from moclo.registry.ecoflex import EcoFlexRegistry
    from moclo.registry.plant import PlantRegistry

    for factory in (YTKRegistry, PTKRegistry, CIDARRegistry, EcoFlexRegistry, PlantRegistry):
        name = factory.__name__
        try:
            registry = factory()
            items = [registry[k] for k in sorted(registry)]
        except Exception as exc:  # noqa
            yield "registry {} unavailable {}".format(name, type(exc).__name__)
            continue
        vectors, modules = [], []
        for item in items:
            entity = item.entity
            line = ["registry", name, item.id, type(entity).__name__]
            line.append(call(entity.is_valid))
            line.append(call(entity.overhang_start))
            line.append(call(entity.overhang_end))
            tgt = call(entity.target_sequence)
            line.append(hashlib.md5(tgt.encode()).hexdigest())
            if isinstance(entity, AbstractVector):
                line.append(hashlib.md5(call(entity.placeholder_sequence).encode()).hexdigest())
                vectors.append(entity)
            else:
                modules.append(entity)
            yield " ".join(line)
        # random and guided assemblies between the records of the registry
        by_start = {}
        for m in modules:
            try:
                by_start.setdefault((type(m).cutter, str(m.overhang_start()).upper()), []).append(m)
            except Exception:  # noqa
                pass
        for n in range(80 if vectors else 0):
            vector = rng.choice(vectors)
            picked = []
            if rng.random() < 0.8:
                try:
                    cursor, stop = str(vector.overhang_end()).upper(), str(vector.overhang_start()).upper()
                except Exception:  # noqa
                    cursor = stop = None
                steps = 0
                while cursor is not None and cursor != stop and steps < 8:
                    candidates = by_start.get((type(vector).cutter, cursor))
                    if not candidates:
                        break
                    m = rng.choice(candidates)
                    picked.append(m)
                    cursor = str(m.overhang_end()).upper()
                    steps += 1
                if picked and rng.random() < 0.2:
                    picked.pop(rng.randrange(len(picked)))
                if rng.random() < 0.3:
                    picked.append(rng.choice(modules))
            else:
                picked = [rng.choice(modules) for _ in range(rng.randrange(1, 5))]
            if not picked:
                picked = [rng.choice(modules)]
            rng.shuffle(picked)
            out = call(vector.assemble, *picked)
            state = hashlib.md5(repr([entity_state(e) for e in [vector] + picked]).encode()).hexdigest()
            yield "registry {} assemble {} {} -> {} | state {}".format(
                name, vector.record.id, [m.record.id for m in picked], hashlib.md5(out.encode()).hexdigest() + out[:160], state
            )


# --- The manager and its helpers, called directly --------------------------------------


def manager(rng):
    vector = make_vector(rng, "BpiI", "CCCT", "TACA", nrefs=2)
    a = make_module(rng, "BpiI", "CCCT", "AAAC", nrefs=2, ident="a")
    b = make_module(rng, "BpiI", "AAAC", "TACA", nrefs=1, ident="b")
    c = make_module(rng, "BpiI", "TTCA", "TACA", ident="c")
    d = make_module(rng, "BpiI", "GTTT", "TACA", ident="d")
    e = make_module(rng, "BpiI", "AAAC", "CCCT", ident="e")
    for mods in ([a, b], [b, a, c], [a], [a, b, d], [a, e], [c], [a, a, b], [d, c, b, a]):
        for kwargs in ({}, {"id_": "I"}, {"name": "N", "id_": "J"}):
            def run():
                mgr = AssemblyManager(vector, list(mods), **kwargs)
                out = [describe([mgr.vector, mgr.modules, mgr.elements, mgr.name, mgr.id])]
                modmap = mgr._generate_modules_map()
                out.append(describe(modmap))
                try:
                    asm = mgr._generate_assembly(modmap)
                    out.append(describe(asm))
                finally:
                    out.append(describe(modmap))
                out.append(describe(mgr.assemble()))
                out.append(describe(mgr.assemble()))
                return out
            yield "manager {} {} -> {}".format([m.record.id for m in mods], sorted(kwargs), call(run))
    yield "manager positional " + call(lambda: AssemblyManager(vector, [a, b], "pid", "pname").assemble())
    yield "manager rx " + describe([AssemblyManager._CITATION_RX.pattern, AssemblyManager._CITATION_RX.flags])
    same = make_vector(rng, "BpiI", "CCCT", "ccct")
    yield "manager invalid " + call(AssemblyManager, same, [a])
    yield "manager invalid " + call(AssemblyManager, vector=same, modules=[])
    yield "manager no modules " + call(lambda: AssemblyManager(vector, []).assemble())
    # citations
    mgr = AssemblyManager(vector, [a, b])
    weird = [
        {"citation": ["[1]"]},
        {"citation": ["[2]", "[1]"]},
        {"citation": ["[3]"]},
        {"citation": ["[]"]},
        {"citation": ["1"]},
        {"citation": "[1]"},
        {"citation": ["[1] and more"]},
        {"citation": [reference(7)]},
        {"citation": []},
        {},
    ]
    for nrefs in (0, 1, 2):
        for quals in weird:
            rec = SeqRecord(Seq("ACGTACGTAC"), id="r")
            if nrefs:
                rec.annotations["references"] = [reference(k) for k in range(nrefs)]
            rec.features.append(SeqFeature(FeatureLocation(0, 4), type="misc_feature", qualifiers=copy.deepcopy(quals)))
            rec.features.append(SeqFeature(FeatureLocation(2, 6), type="misc_feature", qualifiers={"citation": ["[1]"]}))
            out = call(mgr._deref_citations, rec)
            mid = describe_record(rec)
            out2 = call(mgr._ref_citations, rec)
            yield "citations {} {} -> {} | {} | {} | {}".format(nrefs, describe(quals), out, mid, out2, describe_record(rec))
    # assembling records that cite the same / different references
    for nv, na, nb in ((0, 0, 0), (1, 0, 2), (3, 3, 3), (0, 2, 0)):
        vec = make_vector(rng, "BsaI", "CCCT", "TACA", nrefs=nv)
        m1 = make_module(rng, "BsaI", "CCCT", "AAAC", nrefs=na, ident="c1")
        m2 = make_module(rng, "BsaI", "AAAC", "TACA", nrefs=nb, ident="c2")
        out = call(vec.assemble, m2, m1)
        yield "cited {} {} {} -> {} | {}".format(nv, na, nb, out, [entity_state(x) for x in (vec, m1, m2)])
        bad = make_module(rng, "BsaI", "AAAC", "TACA", ident="c3")
        bad.record.features.append(SeqFeature(FeatureLocation(0, 3), type="misc_feature", qualifiers={"citation": ["[9]"]}))
        out = call(vec.assemble, bad, m1)
        yield "cited bad {} -> {} | {}".format(nv, out, [entity_state(x) for x in (vec, m1, bad)])


# --- Exceptions --------------------------------------------------------------------------


def exceptions(rng):
    a = make_module(rng, "BpiI", "CCCT", "AAAC", ident="a")
    b = make_module(rng, "BpiI", "AAAC", "TACA", ident="b")
    rec = SeqRecord(Seq("ACGT"), id="rec")
    cases = [
        (errors.InvalidSequence, (rec,), {}),
        (errors.InvalidSequence, (rec,), {"details": "d"}),
        (errors.InvalidSequence, (rec, ValueError("x")), {}),
        (errors.InvalidSequence, (rec, None, "det"), {}),
        (errors.InvalidSequence, (), {"sequence": "ACGT", "exc": None, "details": "x"}),
        (errors.InvalidSequence, (), {}),
        (errors.IllegalSite, (Seq("ACGT"),), {}),
        (errors.IllegalSite, (Seq("ACGT"),), {"details": "dd"}),
        (errors.DuplicateModules, (a, b), {}),
        (errors.DuplicateModules, (a, b), {"details": "same"}),
        (errors.DuplicateModules, (), {}),
        (errors.DuplicateModules, (a,), {"details": None, "other": 3}),
        (errors.MissingModule, ("ATGC",), {}),
        (errors.MissingModule, (Seq("ATGC"),), {"details": "hm"}),
        (errors.MissingModule, (), {"start_overhang": "ATGC"}),
        (errors.MissingModule, (), {}),
        (errors.MissingModule, ("A", "B"), {}),
        (errors.MissingModule, ("A",), {"bogus": 1}),
        (errors.UnusedModules, (a,), {}),
        (errors.UnusedModules, (a, b), {"details": 12}),
        (errors.UnusedModules, (), {"details": "x", "y": 2}),
        (errors.MocloError, ("m",), {}),
        (errors.AssemblyError, ("m", 2), {}),
        (errors.AssemblyWarning, ("w",), {}),
    ]
    for cls, args, kwargs in cases:
        def build():
            exc = cls(*args, **kwargs)
            clone = copy.copy(exc) if cls in (errors.MissingModule, errors.MocloError, errors.AssemblyError, errors.AssemblyWarning) else None
            return [exc, repr(exc) if cls is not errors.InvalidSequence and not any(isinstance(x, StructuredRecord) for x in args) else "-", clone]
        yield "exception {} {} {} -> {}".format(cls.__name__, describe(args), describe(kwargs), call(build))
    for cls in (errors.MocloError, errors.InvalidSequence, errors.IllegalSite, errors.AssemblyError, errors.DuplicateModules, errors.MissingModule, errors.AssemblyWarning, errors.UnusedModules):
        yield "mro {} {}".format(cls.__name__, [c.__name__ for c in cls.__mro__])
    yield "pickle " + call(lambda: pickle.loads(pickle.dumps(errors.MissingModule("ATGC"))))
    yield "pickle " + call(lambda: pickle.loads(pickle.dumps(errors.MissingModule("ATGC", details="x"))))


def surface():
    """Names that have to stay importable."""
    import moclo.core._assembly as A
    import moclo.core.vectors as V
    import moclo.core.modules as M
    import moclo.core._structured as S
    import moclo.core._utils as U
    import moclo.errors as E
    import moclo._utils as MU
    import inspect

    for mod, names in (
        (A, ["AssemblyManager", "errors", "CircularRecord", "catch_warnings", "re", "warnings", "six", "Seq", "SeqRecord", "BiopythonWarning", "__version__"]),
        (V, ["AbstractVector", "EntryVector", "CassetteVector", "DeviceVector", "AssemblyManager", "cutter_check", "add_as_source", "StructuredRecord", "errors", "cached_property", "Seq", "typing"]),
        (M, ["AbstractModule", "Product", "Entry", "Cassette", "Device", "cutter_check", "add_as_source", "StructuredRecord", "errors", "cached_property", "Seq", "typing"]),
        (S, ["StructuredRecord", "DNARegex", "errors", "abc", "six", "typing", "cached_property"]),
        (U, ["cutter_check", "add_as_source", "SeqFeature", "FeatureLocation"]),
        (E, ["MocloError", "InvalidSequence", "IllegalSite", "AssemblyError", "DuplicateModules", "MissingModule", "AssemblyWarning", "UnusedModules", "six", "typing"]),
        (MU, ["classproperty", "isabstract", "catch_warnings", "functools", "inspect", "warnings"]),
    ):
        for name in names:
            yield "surface {} {} {}".format(mod.__name__, name, hasattr(mod, name))
    for func in (
        AssemblyManager.__init__, AssemblyManager.assemble, AssemblyManager._generate_modules_map,
        AssemblyManager._generate_assembly, AssemblyManager._deref_citations, AssemblyManager._ref_citations,
        AssemblyManager._annotate_assembly, AbstractVector.overhang_start, AbstractVector.overhang_end,
        AbstractVector.placeholder_sequence, AbstractVector.target_sequence,
        AbstractModule.overhang_start, AbstractModule.overhang_end, AbstractModule.target_sequence,
        StructuredRecord.__init__, StructuredRecord.is_valid, MU.catch_warnings, U.add_as_source, U.cutter_check,
    ):
        yield "callable {} {}".format(func.__qualname__, [p.name for p in inspect.signature(func).parameters.values()])
    vec, mod = KITS["BpiI"]
    for cls in (vec, mod, AbstractVector, AbstractModule, AbstractPart):
        yield "bases {} {}".format(cls.__name__, [c.__name__ for c in cls.__mro__])
    yield "abstract " + call(lambda: AbstractVector(SeqRecord(Seq("A"))))
    yield "abstract " + call(lambda: AbstractModule(SeqRecord(Seq("A"))))
    yield "structure " + describe([vec.structure(), mod.structure()])
    yield "assemble no module " + call(lambda: vec(CircularRecord(Seq("CCATGCTTGTCTTCCACAGAAGACTTCGTAGG"), "v")).assemble())
    yield "assemble invalid module " + call(
        lambda: vec(CircularRecord(Seq("CCATGCTTGTCTTCCACAGAAGACTTCGTAGG"), "v")).assemble(mod(CircularRecord(Seq("ACGT" * 8), "junk")))
    )
    yield "assemble invalid vector " + call(
        lambda: vec(CircularRecord(Seq("ACGT" * 8), "junk")).assemble(mod(CircularRecord(Seq("GAAGACTTATGCCACACGTATTGTCTTC"), "m")))
    )
    yield "assemble illegal site " + call(
        lambda: vec(CircularRecord(Seq("CCATGCTTGTCTTCCACAGAAGACTTCGTAGG"), "v")).assemble(
            mod(CircularRecord(Seq("GAAGACTTATGCCAGAAGACCACGTATTGTCTTC"), "m"))
        )
    )


def main():
    digest = Digest()
    digest.section("surface", list(surface()))
    digest.section("exceptions", list(exceptions(random.Random(5))))
    digest.section("manager", list(manager(random.Random(4))))
    digest.section("permutations", list(permutations(random.Random(3))))
    digest.section("synthetic", list(synthetic(random.Random(2), 600)))
    digest.section("three_prime", list(three_prime(random.Random(1))))
    digest.section("registries", list(registries(random.Random(0))))
    digest.report()


if __name__ == "__main__":
    main()
