# coding: utf-8
"""Differential test: prints a digest of everything observable about the
record / regex / module / vector / assembly code on a few hundred generated
inputs.  The digest must be identical before and after a behaviour-preserving
refactoring.
"""
import collections
import copy
import hashlib
import random
import sys
import warnings

warnings.simplefilter("ignore")
sys.path.insert(0, "/tmp/agents6/C08")
import tests  # noqa: F401,E402

from Bio.Restriction import BsaI, BpiI, BsmBI, SapI, BtsI, EcoRV  # noqa: E402
from Bio.Seq import Seq  # noqa: E402
from Bio.SeqRecord import SeqRecord  # noqa: E402
from Bio.SeqFeature import (  # noqa: E402
    SeqFeature,
    FeatureLocation,
    CompoundLocation,
    Reference,
    ExactPosition,
    BeforePosition,
    AfterPosition,
    WithinPosition,
    BetweenPosition,
    OneOfPosition,
    UnknownPosition,
)

from moclo import errors  # noqa: E402
from moclo.core import AbstractModule, AbstractVector, AbstractPart, Entry  # noqa: E402
from moclo.record import CircularRecord  # noqa: E402
from moclo.regex import DNARegex, SeqMatch  # noqa: E402

import os  # noqa: E402

import re  # noqa: E402

ADDRESS = re.compile(r" at 0x[0-9a-fA-F]+")
DIGEST = hashlib.sha256()
DUMP = open(os.environ["EQUIV_DUMP"], "w") if os.environ.get("EQUIV_DUMP") else None
COUNTS = collections.Counter()


def emit(*items):
    line = ADDRESS.sub(" at 0x?", " | ".join(str(i) for i in items))
    DIGEST.update(line.encode("utf-8"))
    DIGEST.update(b"\n")
    COUNTS["lines"] += 1
    if DUMP is not None:
        DUMP.write(line + "\n")


# --- descriptions ---------------------------------------------------------------


def d_loc(loc):
    if loc is None:
        return "None"
    if isinstance(loc, CompoundLocation):
        return "{}{{{}}}".format(loc.operator, ",".join(d_loc(p) for p in loc.parts))
    return "{}({!r},{!r},{!r},{!r},{!r})".format(
        type(loc).__name__, loc.start, loc.end, loc.strand, loc.ref, loc.ref_db
    )


def d_val(v):
    if isinstance(v, Reference):
        return "Ref<{}|{}|{}>".format(v.title, v.authors, [d_loc(l) for l in v.location])
    if isinstance(v, (list, tuple)):
        return type(v).__name__ + "[" + ",".join(d_val(x) for x in v) + "]"
    if isinstance(v, dict):
        return "{" + ",".join("{}:{}".format(k, d_val(v[k])) for k in sorted(v)) + "}"
    return repr(v)


def d_feat(f):
    return "{}/{}/{}/{}".format(f.type, f.id, d_loc(f.location), d_val(dict(f.qualifiers)))


def d_rec(rec):
    if not isinstance(rec, SeqRecord):
        return "{}:{!r}".format(type(rec).__name__, rec)
    return "{}<{}|{}|{}|{}|{}|{}|{}|{}>".format(
        type(rec).__name__,
        str(rec.seq),
        rec.id,
        rec.name,
        rec.description,
        d_val(list(rec.dbxrefs)),
        d_val(dict(rec.annotations)),
        d_val(dict(rec.letter_annotations)),
        ";".join(d_feat(f) for f in rec.features),
    )


def run(tag, fn, describe=d_rec):
    """Call fn, emit what it returned / raised / warned."""
    with warnings.catch_warnings(record=True) as caught:
        warnings.simplefilter("always")
        try:
            result = fn()
            out = describe(result)
        except Exception as exc:  # noqa
            result = None
            out = "!{}: {}".format(type(exc).__name__, exc)
            COUNTS[type(exc).__name__] += 1
    warned = [
        "{}:{}".format(w.category.__name__, w.message)
        for w in caught
        if "pkg_resources" not in str(w.message)
    ]
    COUNTS["warnings"] += len(warned)
    emit(tag, out, warned)
    return result


# --- generators -------------------------------------------------------------------


def rand_dna(rng, n, alphabet="ACGT"):
    return "".join(rng.choice(alphabet) for _ in range(n))


def rand_pos(rng, p, exotic):
    if not exotic or rng.random() < 0.6:
        return ExactPosition(p) if rng.random() < 0.5 else p
    kind = rng.randrange(6)
    if kind == 0:
        return BeforePosition(p)
    if kind == 1:
        return AfterPosition(p)
    if kind == 2:
        return WithinPosition(p, p, p + 2)
    if kind == 3:
        return BetweenPosition(p, p, p + 1)
    if kind == 4:
        return OneOfPosition(p, [ExactPosition(p), ExactPosition(p + 1)])
    return ExactPosition(p)


def rand_simple(rng, n, exotic):
    a = rng.randrange(0, n + 1)
    b = rng.randrange(a, min(n, a + rng.randrange(1, n + 1)) + 1)
    if exotic and rng.random() < 0.15:  # the "past the end" form left by a rotation
        b = b + rng.randrange(1, n + 1)
        if rng.random() < 0.3:
            a, b = a + n, b + n
    strand = rng.choice((1, -1, None, 0)) if exotic else rng.choice((1, -1))
    kw = {}
    if exotic and rng.random() < 0.06:
        kw = {"ref": "X{}".format(a), "ref_db": rng.choice((None, "GB"))}
    return FeatureLocation(rand_pos(rng, a, exotic), rand_pos(rng, b, exotic), strand, **kw)


def rand_location(rng, n, exotic=True):
    r = rng.random()
    if exotic and r < 0.012:
        return None
    if exotic and r < 0.024:
        return FeatureLocation(ExactPosition(rng.randrange(n)), UnknownPosition(), 1)
    if r < 0.55:
        return rand_simple(rng, n, exotic)
    parts = [rand_simple(rng, n, exotic) for _ in range(rng.randrange(2, 5))]
    op = rng.choice(("join", "join", "order")) if exotic else "join"
    return CompoundLocation(parts, op)


TYPES = ("CDS", "gene", "misc_feature", "source", "promoter", "rep_origin")


def rand_features(rng, n, exotic=True, citations=0):
    feats = []
    for i in range(rng.randrange(0, 9)):
        quals = {"label": ["f{}".format(i)]}
        if rng.random() < 0.4:
            quals["note"] = ["n{}".format(rng.randrange(100)), "second"]
        if citations and rng.random() < 0.5:
            quals["citation"] = [
                "[{}]".format(rng.randrange(1, citations + 1)) for _ in range(rng.randrange(1, 3))
            ]
        feats.append(
            SeqFeature(
                rand_location(rng, n, exotic),
                type=rng.choice(TYPES),
                id=rng.choice(("<unknown id>", "id{}".format(i))),
                qualifiers=quals,
            )
        )
    r = rng.random()
    if r < 0.3:
        feats.insert(
            rng.randrange(len(feats) + 1),
            SeqFeature(FeatureLocation(0, n, rng.choice((1, None))), type="source", qualifiers={"mol_type": ["other DNA"]}),
        )
    elif r < 0.4 and n > 4:
        feats.append(
            SeqFeature(
                CompoundLocation([FeatureLocation(0, n // 2, 1), FeatureLocation(n // 2, n, 1)]),
                type="source",
                qualifiers={"note": ["two-part whole"]},
            )
        )
    elif r < 0.5:
        feats.append(SeqFeature(FeatureLocation(0, n, 1), type="misc_feature", qualifiers={"note": ["whole, not a source"]}))
    return feats


def rand_references(rng, k):
    refs = []
    for i in range(k):
        ref = Reference()
        ref.title = "title {}".format(i if rng.random() < 0.8 else 0)
        ref.authors = "author {}".format(i if rng.random() < 0.8 else 0)
        refs.append(ref)
    return refs


def rand_circular(rng, n, seq=None, exotic=True, citations=0, name="rec"):
    seq = seq if seq is not None else rand_dna(rng, n, rng.choice(("ACGT", "ACGTacgt", "ACGTN")))
    ann = {}
    if rng.random() < 0.7:
        ann["topology"] = rng.choice(("circular", "Circular", "CIRCULAR"))
    if rng.random() < 0.5:
        ann["molecule_type"] = "DNA"
    if citations:
        ann["references"] = rand_references(rng, citations)
    letters = None
    if exotic and rng.random() < 0.3:
        letters = {"phred_quality": [rng.randrange(40) for _ in range(n)]}
        if rng.random() < 0.5:
            letters["secondary"] = rand_dna(rng, n, "HEC")
    return CircularRecord(
        Seq(seq),
        id=name,
        name=name + "_name",
        description=rng.choice(("<unknown description>", "some plasmid")),
        dbxrefs=["db:{}".format(rng.randrange(9))] if rng.random() < 0.3 else None,
        features=rand_features(rng, n, exotic, citations),
        annotations=ann,
        letter_annotations=letters,
    )


# --- A/B: rotation and slicing ----------------------------------------------------


def sharing(src, res):
    """How much state the result shares with the record it came from."""
    if res is src:
        return "same object"
    out = [
        res.annotations is src.annotations,
        res.dbxrefs is src.dbxrefs,
        res.features is src.features,
        res.letter_annotations is src.letter_annotations,
    ]
    for a, b in zip(src.features, res.features):
        out.append(a is b)
        out.append(a.qualifiers is b.qualifiers)
        out.append(all(a.qualifiers[k] is b.qualifiers[k] for k in a.qualifiers))
        out.append(a.location is b.location)
    return "".join("1" if x else "0" for x in out)


def part_rotation(rng):
    for case in range(170):
        n = rng.choice((1, 2, 3, 4, 7, 12, 25, 40, 61))
        rec = rand_circular(rng, n, name="rot{}".format(case))
        before = d_rec(rec)
        shifts = [0, 1, n - 1, n, n + 1, -1, -n, 3 * n + 2, rng.randrange(-50, 50), rng.randrange(n)]
        for k in shifts:
            res = run("rshift {} {}".format(case, k), lambda: rec >> k)
            if res is not None:
                emit("sharing", sharing(rec, res), type(res).__name__)
            res = run("lshift {} {}".format(case, k), lambda: rec << k)
            if res is not None:
                emit("sharing", sharing(rec, res))
                m = rng.randrange(n + 1)
                run("slice head", lambda: res[:m])
                run("slice tail", lambda: res[m:])
                run("slice mid", lambda: res[m // 2 : m])
                run("item", lambda: res[rng.randrange(n)], describe=repr)
        if rng.random() < 0.3:
            run("chain", lambda: (rec >> 3) >> (n - 3 % n) if n > 3 else rec << 1 << 1)
            run("revcomp", lambda: (rec >> 1).reverse_complement())
        for needle in ("A", rand_dna(rng, min(n, 3)), str(rec.seq)[-2:] + str(rec.seq)[:2], str(rec.seq) * 2):
            run("contains", lambda: needle in rec, describe=repr)
        emit("input unchanged", before == d_rec(rec))
    empty = CircularRecord(Seq(""), id="empty")
    run("empty >>", lambda: empty >> 1)
    run("empty <<", lambda: empty << 1)
    run("add", lambda: empty + empty)
    run("radd", lambda: "A" + empty)
    run("linear", lambda: CircularRecord(SeqRecord(Seq("ACGT"), annotations={"topology": "linear"})))


# --- C/D: patterns ------------------------------------------------------------------


def d_match(m):
    if m is None:
        return "no match"
    groups = m.match.re.groups
    out = [m.start(), m.end(), m.shift, type(m.rec).__name__]
    for g in range(groups + 1):
        out.append(m.span(g))
        grp = m.group(g)
        out.append(d_rec(grp) if isinstance(grp, SeqRecord) else "{}:{}".format(type(grp).__name__, grp))
    return repr(out)


PATTERNS = [
    "GGTCTCN(NNNN)(NN*N)(NNNN)NGAGACC",
    "N(NNNN)(NGAGACCN*GGTCTCN)(NNNN)N",
    "GAAGACNN(NNNN)(NN*N)(NNNN)NNGTCTTC",
    "(AT)(N*?)(GC)",
    "RYSWKM(BD)(HV)(N)",
    "(A)(C)?(G)",
    "ACGT",
]


def part_regex(rng):
    for p in PATTERNS + ["XYZ", "", "(?P<x>A)N", "[AT]N{2}"]:
        run("transcribe", lambda: DNARegex._transcribe(p), describe=repr)
        run("pattern", lambda: (DNARegex(p).pattern, DNARegex(p).regex.pattern), describe=repr)
    for case in range(220):
        pattern = rng.choice(PATTERNS)
        n = rng.randrange(4, 70)
        seq = rand_dna(rng, n, rng.choice(("ACGT", "ACGTacgt", "ACGTN")))
        if rng.random() < 0.6 and n > 34:
            # plant an occurrence, possibly across the origin
            ins = rng.choice(
                (
                    "GGTCTCaATGC" + rand_dna(rng, rng.randrange(2, 9)) + "GGCAtGAGACC",
                    "cATGCtGAGACC" + rand_dna(rng, rng.randrange(0, 6)) + "GGTCTCaGGCAt",
                    "GAAGACttATGCcaGGCAttGTCTTC",
                )
            )
            at = rng.randrange(n)
            seq = (seq + seq)[at : at + n - len(ins)] + ins if len(ins) < n else seq
            k = rng.randrange(n)
            seq = seq[k:] + seq[:k]
        kind = rng.randrange(4)
        if kind == 0:
            subject = Seq(seq)
        elif kind == 1:
            subject = SeqRecord(Seq(seq), id="lin", features=rand_features(rng, len(seq), exotic=False))
        else:
            subject = rand_circular(rng, len(seq), seq=seq, exotic=rng.random() < 0.3, name="circ")
        kwargs = {}
        if rng.random() < 0.5:
            kwargs["linear"] = rng.random() < 0.5
        if rng.random() < 0.3:
            kwargs["pos"] = rng.randrange(len(seq))
        if rng.random() < 0.3:
            kwargs["endpos"] = rng.randrange(len(seq) + 3)
        regex = DNARegex(pattern)
        run("search {} {}".format(case, sorted(kwargs.items())), lambda: regex.search(subject, **kwargs), describe=d_match)
    run("search str", lambda: DNARegex("A").search("AAAA"), describe=d_match)
    run("search none", lambda: DNARegex("A").search(None), describe=d_match)
    run("search empty", lambda: DNARegex("A*").search(Seq("")), describe=d_match)
    run("search empty circular", lambda: DNARegex("(A*)").search(CircularRecord(Seq(""))), describe=d_match)


# --- E: modules, vectors, assemblies ----------------------------------------------


def revcomp(s):
    return str(Seq(s).reverse_complement())


class Kit(object):
    def __init__(self, enzyme):
        self.enzyme = enzyme
        self.site = enzyme.site
        self.gap = enzyme.fst5 - enzyme.size
        self.ovlen = abs(enzyme.ovhg)
        self.Vec = type(str("Vec" + enzyme.__name__), (AbstractVector,), {"cutter": enzyme})
        self.Mod = type(str("Mod" + enzyme.__name__), (AbstractModule,), {"cutter": enzyme})

    def free(self, rng, n, alphabet="ACGT"):
        while True:
            s = rand_dna(rng, n, alphabet)
            if self.site not in (s + s).upper() and revcomp(self.site) not in (s + s).upper():
                return s

    def module_seq(self, rng, ov5, ov3, size, backbone, alphabet="ACGT"):
        bb = self.free(rng, backbone, alphabet)
        cut = rng.randrange(backbone + 1)
        gap5, gap3 = rand_dna(rng, self.gap, alphabet), rand_dna(rng, self.gap, alphabet)
        return bb[:cut] + self.site + gap5 + ov5 + self.free(rng, size, alphabet) + ov3 + gap3 + revcomp(self.site) + bb[cut:]

    def vector_seq(self, rng, ov_first, ov_last, size, dropout, alphabet="ACGT"):
        bb = self.free(rng, size, alphabet)
        cut = rng.randrange(size + 1)
        gap5, gap3 = rand_dna(rng, self.gap, alphabet), rand_dna(rng, self.gap, alphabet)
        return (
            bb[:cut] + ov_first + gap5 + revcomp(self.site) + self.free(rng, dropout, alphabet)
            + self.site + gap3 + ov_last + bb[cut:]
        )


def rotated_text(rng, s):
    k = rng.randrange(len(s))
    return s[k:] + s[:k]


def mixed_case(rng, s):
    return "".join(c.lower() if rng.random() < 0.3 else c for c in s)


def d_entity(e):
    out = []
    for name in ("is_valid", "overhang_start", "overhang_end", "target_sequence", "placeholder_sequence"):
        if hasattr(e, name):
            run("  " + name, getattr(e, name), describe=lambda v: d_rec(v) if isinstance(v, SeqRecord) else repr(v))
    return out


def part_assembly(rng):
    kits = [Kit(e) for e in (BsaI, BpiI, BsmBI, SapI)]
    for case in range(180):
        kit = rng.choice(kits)
        L = kit.ovlen
        chain_len = rng.randrange(1, 4)
        ovs = []
        while len(ovs) < chain_len + 1:
            o = rand_dna(rng, L)
            if o not in ovs and revcomp(o) not in ovs and o != revcomp(o):
                ovs.append(o)
        scenario = rng.choice(
            ["ok"] * 8 + ["missing", "duplicate", "unused", "same-ends", "bad-citation", "citation-range", "revcomp", "plain", "linear", "illegal"]
        )
        citations = rng.choice((0, 0, 2, 3))
        if scenario in ("bad-citation", "citation-range"):
            citations = 2
        alphabet = rng.choice(("ACGT", "ACGT", "ACGTN"))

        def record(seq, name, klass=CircularRecord):
            seq = rotated_text(rng, seq)
            if rng.random() < 0.5:
                seq = mixed_case(rng, seq)
            rec = rand_circular(rng, len(seq), seq=seq, exotic=rng.random() < 0.25, citations=citations, name=name)
            return rec

        vseq = kit.vector_seq(rng, ovs[0], ovs[0] if scenario == "same-ends" else ovs[-1], rng.randrange(8, 40), rng.randrange(0, 12), alphabet)
        recs = [record(vseq, "vec{}".format(case))]
        for i in range(chain_len):
            recs.append(record(kit.module_seq(rng, ovs[i], ovs[i + 1], rng.randrange(1, 30), rng.randrange(0, 25), alphabet), "mod{}_{}".format(case, i)))
        if scenario == "missing" and chain_len > 1:
            del recs[rng.randrange(1, len(recs))]
        elif scenario == "duplicate":
            recs.append(record(kit.module_seq(rng, ovs[0], ovs[1], 5, 5), "dup{}".format(case)))
        elif scenario == "unused":
            recs.append(record(kit.module_seq(rng, "T" * L, "G" * L, 5, 5), "spare{}".format(case)))
        elif scenario == "revcomp":
            recs.append(record(kit.module_seq(rng, revcomp(ovs[0]), "G" * L, 5, 5), "rc{}".format(case)))
        elif scenario == "bad-citation" and recs[-1].features:
            recs[-1].features[-1].qualifiers["citation"] = [rng.choice(("1", "[x]", "(1)", "[]"))]
        elif scenario == "citation-range" and recs[0].features:
            recs[0].features[0].qualifiers["citation"] = ["[1]", "[7]"]
        elif scenario == "plain":
            r = recs[-1]
            recs[-1] = SeqRecord(r.seq, id=r.id, name=r.name, features=r.features, annotations=dict(r.annotations))
        elif scenario == "linear":
            r = recs[-1]
            ann = dict(r.annotations)
            ann["topology"] = "linear"
            recs[-1] = SeqRecord(r.seq, id=r.id, name=r.name, features=r.features, annotations=ann)
        elif scenario == "illegal":
            r = recs[-1]
            s = str(r.seq)
            m = kit.Mod(r)
            try:
                a, b = m._match.span(2)
                mid = (a + (b - a) // 2) % len(s)
                s = s[:mid] + kit.site + s[mid:]
                recs[-1] = CircularRecord(Seq(s), id=r.id, name=r.name)
            except Exception:
                pass

        emit("case", case, kit.enzyme.__name__, scenario, chain_len, citations)
        before = [d_rec(r) for r in recs]
        vector = run("vector", lambda: kit.Vec(recs[0]), describe=lambda v: type(v).__name__)
        modules = [run("module", lambda: kit.Mod(r), describe=lambda v: type(v).__name__) for r in recs[1:]]
        rng.shuffle(modules)
        if rng.random() < 0.5:
            for e in [vector] + modules:
                d_entity(e)
            emit("inputs unchanged by accessors", before == [d_rec(r) for r in recs])
        kwargs = rng.choice(({}, {"id": "construct{}".format(case)}, {"id": "c", "name": "n"}))
        product = run("assemble", lambda: vector.assemble(*modules, **kwargs))
        after = [d_rec(r) for r in recs]
        emit("inputs unchanged", before == after)
        if before != after:
            emit("inputs after", after)
        if product is not None and rng.random() < 0.4:
            run("again", lambda: vector.assemble(*modules, **kwargs))
            emit("inputs unchanged (2)", before == [d_rec(r) for r in recs])


def part_classes(rng):
    class NoCutter(AbstractModule):
        pass

    class Blunt(AbstractVector):
        cutter = EcoRV

    class ThreePrime(AbstractModule):
        cutter = BtsI

    class APart(AbstractPart, Entry):
        cutter = BsaI
        signature = ("ATGC", "GGCA")

    class BPart(APart):
        signature = ("CCCC", "GGCA")

    class Unsigned(AbstractPart, Entry):
        cutter = BsaI

    rec = CircularRecord(Seq("TTGGTCTCAATGCAAAAAAGGCATGAGACCTT"), id="p")
    for klass in (NoCutter, Blunt, ThreePrime, APart, BPart, Unsigned, AbstractModule, AbstractVector, AbstractPart):
        run("structure " + klass.__name__, klass.structure, describe=repr)
        e = run("new " + klass.__name__, lambda: klass(rec), describe=lambda v: type(v).__name__)
        if e is not None:
            d_entity(e)
    run("characterize", lambda: APart.characterize(rec), describe=lambda v: type(v).__name__)
    run("characterize none", lambda: BPart.characterize(rec), describe=lambda v: type(v).__name__)


def part_registry(rng):
    try:
        from moclo.registry.cidar import CIDARRegistry
    except Exception as exc:  # noqa
        emit("registry unavailable", type(exc).__name__)
        return
    reg = CIDARRegistry()
    vector = reg["DVK_AE"].entity
    mods = [reg[x].entity for x in ("J23102_AB", "BCD2_BC", "E1010m_CD", "B0015_DE")]
    before = [d_rec(e.record) for e in [vector] + mods]
    product = run("cidar", lambda: vector.assemble(*mods))
    emit("cidar inputs unchanged", before == [d_rec(e.record) for e in [vector] + mods])
    if product is not None:
        for k in (1, 17, len(product) - 1, 1000):
            run("cidar rot", lambda: product >> k)
        run("cidar target", mods[0].target_sequence)
        run("cidar vector target", vector.target_sequence)
        run("cidar placeholder", vector.placeholder_sequence)


def main():
    rng = random.Random(20808)
    part_rotation(rng)
    part_regex(rng)
    part_assembly(rng)
    part_classes(rng)
    part_registry(rng)
    summary = ", ".join("{}={}".format(k, COUNTS[k]) for k in sorted(COUNTS))
    print(summary)
    print("digest", DIGEST.hexdigest())


if __name__ == "__main__":
    main()
