# coding: utf-8
"""Differential test for the code `CircularRecord` and `DNARegex` are made of.

Run as ``cd /tmp/agents9/C15 && /venv/bin/python pairs_out/C15_t1/equiv.py``.
Prints a digest of every result / exception (type, message, args) / warning /
input state afterwards; the digest must not change under a refactoring.
"""
import hashlib
import re as _re
import inspect
import io
import itertools
import random
import sys
import warnings

sys.path.insert(0, "/tmp/agents9/C15")
import tests  # noqa: F401,E402

import Bio.SeqIO  # noqa: E402
from Bio.Seq import Seq, MutableSeq  # noqa: E402
from Bio.SeqRecord import SeqRecord  # noqa: E402
from Bio.SeqFeature import (  # noqa: E402
    SeqFeature,
    FeatureLocation,
    CompoundLocation,
    ExactPosition,
    BeforePosition,
)
from Bio.Restriction import BpiI, BsaI, BsmBI, SapI, BstXI, SfiI, BtsI  # noqa: E402

import moclo  # noqa: E402
import moclo.record  # noqa: E402
import moclo.regex  # noqa: E402
from moclo import errors  # noqa: E402
from moclo.record import CircularRecord  # noqa: E402
from moclo.regex import DNARegex, SeqMatch  # noqa: E402
from moclo.core import (  # noqa: E402
    AbstractModule,
    AbstractVector,
    AbstractPart,
)
from moclo.registry.base import (  # noqa: E402
    CombinedRegistry,
    EmbeddedRegistry,
    FilesystemRegistry,
)

LOG = []
SECTIONS = []


def section(name):
    SECTIONS.append((name, len(LOG)))


# --- canonical rendering ----------------------------------------------------


def show(x, depth=0):
    if depth > 6:
        return "..."
    if x is None or isinstance(x, (bool, int, float, str, bytes)):
        return repr(x)
    if x is NotImplemented:
        return "NotImplemented"
    if isinstance(x, (Seq, MutableSeq)):
        try:
            return "{}({!r})".format(type(x).__name__, str(x))
        except Exception as e:  # undefined sequence
            return "{}(<{}>)".format(type(x).__name__, type(e).__name__)
    if isinstance(x, SeqRecord):
        return "{}(seq={}, id={!r}, name={!r}, desc={!r}, dbx={}, ann={}, let={}, feats={})".format(
            type(x).__name__,
            show(x.seq, depth + 1),
            x.id,
            x.name,
            x.description,
            show(x.dbxrefs, depth + 1),
            show(x.annotations, depth + 1),
            show(dict(x.letter_annotations), depth + 1),
            show(x.features, depth + 1),
        )
    if isinstance(x, SeqFeature):
        return "Feature(type={!r}, id={!r}, loc={}, quals={})".format(
            x.type, x.id, show(x.location, depth + 1), show(dict(x.qualifiers), depth + 1)
        )
    if isinstance(x, (FeatureLocation, CompoundLocation)):
        return "{}:{!r}".format(type(x).__name__, x)
    if isinstance(x, dict):
        items = ["{}: {}".format(show(k, depth + 1), show(v, depth + 1)) for k, v in x.items()]
        return "{}{{{}}}".format(type(x).__name__, ", ".join(items))
    if isinstance(x, (list, tuple, set, frozenset)):
        items = [show(v, depth + 1) for v in x]
        if isinstance(x, (set, frozenset)):
            items.sort()
        return "{}[{}]".format(type(x).__name__, ", ".join(items))
    if isinstance(x, SeqMatch):
        return "SeqMatch(span={}, shift={}, rec={})".format(
            x.match.span(), x.shift, type(x.rec).__name__
        )
    if isinstance(x, (AbstractModule, AbstractVector, AbstractPart)):
        return "{}<{}>".format(type(x).__name__, x.record.id)
    if isinstance(x, BaseException):
        return show_exc(x, depth + 1)
    if isinstance(x, type):
        return "class:{}".format(x.__name__)
    if hasattr(x, "year") and hasattr(x, "month"):
        return repr(x)
    r = type(x).__name__
    if hasattr(x, "__dict__"):
        r += show({k: v for k, v in sorted(vars(x).items())}, depth + 1)
    return "<{}>".format(r)


def show_exc(e, depth=0):
    parts = [type(e).__name__, repr(str(e)), "args=" + show(e.args, depth + 1)]
    if e.__cause__ is not None:
        parts.append("cause=" + type(e.__cause__).__name__)
    parts.append("suppress={}".format(e.__suppress_context__))
    if e.__context__ is not None:
        parts.append("context=" + type(e.__context__).__name__)
    for attr in ("details", "sequence", "duplicates", "remaining", "start_overhang"):
        if hasattr(e, attr):
            parts.append("{}={}".format(attr, show(getattr(e, attr), depth + 1)))
    return "!" + "|".join(parts)


def run(label, func, *watched):
    """Run func, log its outcome, the warnings and the watched inputs."""
    with warnings.catch_warnings(record=True) as caught:
        warnings.simplefilter("always")
        try:
            out = func()
            res = show(out)
        except Exception as e:
            out = None
            res = show_exc(e)
    line = "{} => {}".format(label, res)
    for w in caught:
        line += " [warn {}: {}]".format(
            w.category.__name__,
            show(w.message) if isinstance(w.message, errors.MocloError) else str(w.message),
        )
    for w in watched:
        line += " [after {}]".format(show(w))
    LOG.append(line)
    return out


# --- generators -------------------------------------------------------------

RNG = random.Random(1515)


def randseq(n, alphabet="ACGT"):
    return "".join(RNG.choice(alphabet) for _ in range(n))


def make_features(n, with_none=False):
    feats = []
    if n == 0:
        return feats
    feats.append(SeqFeature(FeatureLocation(0, n, strand=1), type="source", id="whole",
                            qualifiers={"organism": ["x"], "citation": ["[1]"]}))
    feats.append(SeqFeature(FeatureLocation(0, max(1, n // 2), strand=-1), type="source", id="half"))
    a = RNG.randrange(0, n)
    b = RNG.randrange(a, n + 1)
    feats.append(SeqFeature(FeatureLocation(a, b, strand=1), type="CDS", id="cds",
                            qualifiers={"label": ["cds"], "note": ["n1", "n2"]}))
    if n >= 4:
        feats.append(
            SeqFeature(
                CompoundLocation(
                    [FeatureLocation(n - 2, n, strand=1), FeatureLocation(0, 2, strand=1)]
                ),
                type="misc_feature",
                id="wrap",
            )
        )
        feats.append(SeqFeature(FeatureLocation(BeforePosition(1), ExactPosition(3)), type="gene"))
    if with_none:
        feats.append(SeqFeature(None, type="nowhere", id="none"))
    return feats


def make_record(seq, rich, topology="circular", rid="rec", with_none=False):
    if not rich:
        return SeqRecord(Seq(seq), id=rid)
    n = len(seq)
    ann = {
        "molecule_type": "DNA",
        "references": ["ref-a", "ref-b"],
        "nested": {"k": [1, 2]},
    }
    if topology is not NotImplemented:
        ann["topology"] = topology
    return SeqRecord(
        Seq(seq),
        id=rid,
        name=rid + "_name",
        description=rid + " description",
        dbxrefs=["db:1", "db:2"],
        features=make_features(n, with_none),
        annotations=ann,
        letter_annotations={"phred_quality": list(range(n)), "txt": "x" * n},
    )


def sharing(a, b):
    """Describe what two records share by identity (never addresses)."""
    out = []
    out.append("seq" if a.seq is b.seq else "-")
    out.append("dbx" if a.dbxrefs is b.dbxrefs else "-")
    out.append("feat" if a.features is b.features else "-")
    out.append("ann" if a.annotations is b.annotations else "-")
    out.append(
        "f0" if a.features and b.features and a.features[0] is b.features[0] else "-"
    )
    out.append(
        "q0"
        if a.features and b.features and a.features[0].qualifiers is b.features[0].qualifiers
        else "-"
    )
    out.append(
        "refs"
        if a.annotations.get("references") is not None
        and a.annotations.get("references") is b.annotations.get("references")
        else "-"
    )
    la, lb = a.letter_annotations, b.letter_annotations
    out.append("let" if la is lb else "-")
    out.append(
        "phred" if "phred_quality" in la and la.get("phred_quality") is lb.get("phred_quality") else "-"
    )
    return ",".join(out)


# --- 1. the record ----------------------------------------------------------


def check_module_surface():
    section("surface")
    names = [
        "CircularRecord", "CompoundLocation", "FeatureLocation", "SeqFeature",
        "SeqRecord", "_ambiguous", "copy", "functools", "six", "typing",
    ]
    LOG.append("record names: " + ",".join(n for n in names if hasattr(moclo.record, n)))
    names = ["Bio", "CircularRecord", "DNARegex", "SeqMatch", "_S", "re", "six", "typing"]
    LOG.append("regex names: " + ",".join(n for n in names if hasattr(moclo.regex, n)))
    LOG.append("mro: " + ",".join(c.__name__ for c in CircularRecord.__mro__))
    for cls, meths in [
        (CircularRecord, ["__init__", "__add__", "__radd__", "__contains__", "__getitem__",
                          "reverse_complement", "__lshift__", "__rshift__"]),
        (DNARegex, ["__init__", "search", "_transcribe"]),
        (SeqMatch, ["__init__", "end", "start", "span", "group"]),
    ]:
        for m in meths:
            f = getattr(cls, m)
            sig = inspect.signature(f)
            params = [
                (p.name, str(p.kind), repr(p.default) if p.default is not p.empty else "-")
                for p in sig.parameters.values()
            ]
            LOG.append("{}.{}: name={} doc={} params={}".format(
                cls.__name__, m, f.__name__,
                hashlib.md5((f.__doc__ or "").encode()).hexdigest()[:8], params))
    LOG.append("lettermap: " + show(dict(DNARegex._lettermap)))

    def probe(self, x):
        """probe doc."""
        return 42

    g = moclo.record._ambiguous(probe)
    LOG.append("guard meta: {} {} {}".format(g.__name__, g.__doc__, g.__wrapped__ is probe))
    run("guard call", lambda: g(None, 1))
    run("guard call kw", lambda: g(None, x=1, y=2))
    run("guard call noself", lambda: g())


def check_constructor():
    section("constructor")
    for n in [0, 1, 2, 4, 7, 12]:
        seq = randseq(n)
        for rich in (False, True):
            sr = make_record(seq, rich)
            cr = run("wrap n={} rich={}".format(n, rich), lambda: CircularRecord(sr), sr)
            if cr is None:
                continue
            LOG.append("  sharing: " + sharing(cr, sr))
            # edits of the copy must not reach the original (and vice versa)
            cr.dbxrefs.append("db:new")
            cr.annotations["added"] = 1
            cr.features.append(SeqFeature(FeatureLocation(0, 0), type="added"))
            if rich:
                cr.annotations["references"].append("ref-c")
                cr.annotations["nested"]["k"].append(3)
                if cr.features and cr.features[0].type != "added":
                    cr.features[0].qualifiers["edited"] = ["yes"]
                    cr.features[0].type = "edited"
                if n:
                    cr.letter_annotations["phred_quality"][0] = 99
            cr.id = "edited-id"
            LOG.append("  after edit copy: {} || orig: {}".format(show(cr), show(sr)))
            cr2 = run("rewrap", lambda: CircularRecord(cr), cr)
            if cr2 is not None:
                LOG.append("  sharing2: " + sharing(cr2, cr))
            # extra arguments are ignored when wrapping
            run("wrap+extra", lambda: CircularRecord(sr, "other", "n", "d", ["x"], [], {"topology": "linear"}, None), sr)
            run("wrap kw", lambda: CircularRecord(seq=sr, id="kw"), sr)
    # topology declarations
    for topo in ["circular", "Circular", "CIRCULAR", "linear", "Linear", "LINEAR", "", "foo",
                 "circular ", None, 3, b"circular", NotImplemented]:
        sr = make_record("ATGCATTA", True, topology=topo)
        run("topology wrap {!r}".format(topo), lambda: CircularRecord(sr), sr)
        ann = {} if topo is NotImplemented else {"topology": topo}
        run("topology direct {!r}".format(topo),
            lambda: CircularRecord(Seq("ATGC"), "i", annotations=ann), ann)
        run("topology kw {!r}".format(topo),
            lambda: CircularRecord(seq=Seq("ATGC"), annotations=ann, id="i"), ann)
    # argument validation order
    run("bad ann list", lambda: CircularRecord(Seq("AT"), annotations=["topology"]))
    run("bad ann str", lambda: CircularRecord(Seq("AT"), annotations="topology"))
    run("bad seq str", lambda: CircularRecord("ATGC"))
    run("bad seq str + linear", lambda: CircularRecord("ATGC", annotations={"topology": "linear"}))
    run("bad seq none", lambda: CircularRecord(None))
    run("bad id", lambda: CircularRecord(Seq("A"), id=3))
    run("bad name", lambda: CircularRecord(Seq("A"), name=None))
    run("bad dbx", lambda: CircularRecord(Seq("A"), dbxrefs=("a",)))
    run("bad feats", lambda: CircularRecord(Seq("A"), features=()))
    run("bad letters", lambda: CircularRecord(Seq("AT"), letter_annotations={"q": [1]}))
    run("mutable seq", lambda: CircularRecord(MutableSeq("ATGC"), "m"))
    run("no args", lambda: CircularRecord())
    run("positional all", lambda: CircularRecord(Seq("ATGC"), "i", "n", "d", ["x"], [], {"a": 1}, {"q": [1, 2, 3, 4]}))
    run("undefined seq", lambda: CircularRecord(Seq(None, length=5), "u"))
    run("seqrecord w/o seq", lambda: CircularRecord(SeqRecord(None, id="noseq")))
    run("linear w/o seq", lambda: CircularRecord(SeqRecord(None, id="noseq", annotations={"topology": "linear"})))

    class Sub(CircularRecord):
        pass

    sub = run("subclass", lambda: Sub(make_record("ATGCGT", True)))
    run("subclass rot", lambda: sub >> 2)
    run("subclass rc", lambda: sub.reverse_complement())
    run("subclass slice", lambda: sub[1:4])
    run("subclass wrap in base", lambda: CircularRecord(sub))


def check_membership():
    section("membership")
    for n in [0, 1, 2, 3, 4, 5, 8, 13]:
        for alphabet in ("ACGT", "AC", "A", "ACgt"):
            seq = randseq(n, alphabet)
            cr = CircularRecord(Seq(seq), id="m")
            doubled = seq * 2
            queries = {""}
            for i in range(len(doubled)):
                for j in range(i, min(len(doubled), i + n + 2) + 1):
                    queries.add(doubled[i:j])
            for _ in range(10):
                queries.add(randseq(RNG.randrange(0, n + 3), alphabet))
            queries.add(seq.lower())
            queries.add(seq + seq[:1])
            answers = []
            for q in sorted(queries):
                a = [q in cr]
                for k in range(n):
                    a.append(q in (cr >> k))
                    a.append(q in (cr << k))
                answers.append("{}:{}".format(q, "".join("1" if x else "0" for x in a)))
            LOG.append("in n={} seq={} :: {}".format(n, seq, " ".join(answers)))
            LOG.append("  types: " + ",".join(sorted({type(q in cr).__name__ for q in queries})))
    cr = CircularRecord(make_record("ATGCAT", True))
    for q in [Seq("GC"), Seq("ATGCATATG"), SeqRecord(Seq("GC")), cr, 3, None, ["A"], ["A"] * 9,
              ("A", "T"), b"GC", b"GCATATATAT", MutableSeq("GC"), 1.5, {"A": 1}]:
        run("in odd {}".format(show(q)[:40]), lambda: q in cr, cr)
    run("in undefined", lambda: "A" in CircularRecord(Seq(None, length=4)))
    run("in undefined long", lambda: "AAAAAAA" in CircularRecord(Seq(None, length=4)))
    run("int in undefined", lambda: 3 in CircularRecord(Seq(None, length=4)))
    run("contains kw", lambda: cr.__contains__(char="GCAT"))
    run("iter", lambda: list(cr))
    run("len", lambda: len(cr))


def check_add():
    section("add")
    cr = CircularRecord(make_record("ATGCAT", True))
    plain = CircularRecord(Seq("GGCC"), id="p")
    others = [
        "", "AT", Seq("AT"), Seq(""), MutableSeq("AT"), SeqRecord(Seq("AT"), id="sr"),
        make_record("TTGA", True, rid="rich"), cr, plain, None, 0, 1.5, [], ["A"], ("A",), b"AT",
        object(), NotImplemented, SeqRecord(None, id="noseq"),
    ]
    for a in (cr, plain):
        for o in others:
            tag = show(o)[:30]
            run("{} + {}".format(a.id, tag), lambda: a + o, a, o if isinstance(o, SeqRecord) else None)
            run("{} + {}".format(tag, a.id), lambda: o + a, a, o if isinstance(o, SeqRecord) else None)
            run("{}.__add__({})".format(a.id, tag), lambda: a.__add__(o))
            run("{}.__radd__({})".format(a.id, tag), lambda: a.__radd__(o))

            def iadd_left():
                x = a
                x += o
                return x

            def iadd_right():
                x = o
                x += a
                return x

            run("{} += {}".format(a.id, tag), iadd_left, a)
            run("{} += {}".format(tag, a.id), iadd_right, a)
    run("sum", lambda: sum([cr, plain]))
    run("sum start", lambda: sum([cr], SeqRecord(Seq("A"))))
    run("add kw", lambda: cr.__add__(other="A"))
    run("add extra", lambda: cr.__add__("A", "B", k=1))
    run("add none", lambda: cr.__add__())
    run("radd none", lambda: cr.__radd__())
    run("unbound add", lambda: CircularRecord.__add__(cr, "A"))
    run("unbound radd", lambda: CircularRecord.__radd__(cr, "A"))
    run("unbound add on plain", lambda: CircularRecord.__add__(SeqRecord(Seq("A")), "A"))
    run("mul", lambda: cr * 2)


def check_getitem():
    section("getitem")
    bounds = [None, 0, 1, 2, 3, 5, 6, 7, 40, -1, -2, -5, -6, -7, -40]
    for n, rich, topo in [(0, False, None), (1, True, "circular"), (6, True, "circular"),
                          (6, True, "Circular"), (6, True, NotImplemented), (9, False, None)]:
        seq = randseq(n)
        base = make_record(seq, rich, topology=topo) if rich else SeqRecord(Seq(seq), id="g")
        cr = CircularRecord(base)
        before = show(cr)
        for a, b in itertools.product(bounds, bounds):
            for step in (None, 1):
                s = slice(a, b, step)
                out = run("n={} t={!r} [{}:{}:{}]".format(n, topo, a, b, step), lambda: cr[s])
                if out is not None:
                    LOG.append("   type={} eq={} share={}".format(
                        type(out).__name__, str(out.seq) == seq[s], sharing(out, cr)))
        for step in (2, -1, -2, 3, 0):
            for a, b in [(None, None), (1, 5), (5, 1), (-1, None)]:
                s = slice(a, b, step)
                run("n={} [{}:{}:{}]".format(n, a, b, step), lambda: cr[s])
        for i in [0, 1, -1, n - 1, n, -n, -n - 1, 100, True]:
            run("n={} [{}]".format(n, i), lambda: cr[i])
        for i in ["a", None, 1.5, (1, 2), Ellipsis, [1]]:
            run("n={} [{!r}]".format(n, i), lambda: cr[i])
        run("getitem kw", lambda: cr.__getitem__(index=slice(1, 3)))
        LOG.append("  unchanged: {}".format(before == show(cr)))
        # edits of a slice do not reach the circular record
        if n >= 6 and rich:
            sl = cr[0:n]
            for f in sl.features:
                f.qualifiers["sliced"] = ["yes"]
            sl.annotations["x"] = 1
            sl.letter_annotations["phred_quality"][0] = -1
            sl.dbxrefs.append("y")
            LOG.append("  after slice edit: {}".format(before == show(cr)))
    run("slice undefined", lambda: CircularRecord(Seq(None, length=5))[1:3])
    run("slice noseq", lambda: CircularRecord(SeqRecord(None, id="noseq"))[1:3])
    run("index noseq", lambda: CircularRecord(SeqRecord(None, id="noseq"))[1])


def check_rotation():
    section("rotation")
    for n in [1, 2, 4, 6, 11]:
        seq = randseq(n)
        for rich in (False, True):
            cr = CircularRecord(make_record(seq, rich, with_none=True))
            before = show(cr)
            for k in list(range(-2 * n - 1, 2 * n + 2)) + [10 ** 6, -10 ** 6, True]:
                for op, name in ((lambda r, k: r >> k, ">>"), (lambda r, k: r << k, "<<")):
                    out = run("n={} rich={} {} {}".format(n, rich, name, k), lambda: op(cr, k))
                    if out is not None:
                        LOG.append("   same={} share={}".format(out is cr, sharing(out, cr)))
            LOG.append("  unchanged: {}".format(before == show(cr)))
            run("n={} >> 1 >> 1 << 2".format(n), lambda: ((cr >> 1) >> 1) << 2)
            run("n={} rc".format(n), lambda: cr.reverse_complement(), cr)
            run("n={} rc args".format(n),
                lambda: cr.reverse_complement(True, "newname", "newdesc", False, True, False, True), cr)
            run("n={} rc kw".format(n),
                lambda: cr.reverse_complement(id="i", annotations={"topology": "circular"}, dbxrefs=["z"]), cr)
            run("n={} rc linear ann".format(n),
                lambda: cr.reverse_complement(annotations={"topology": "linear"}), cr)
            run("n={} rc rot".format(n), lambda: (cr >> 1).reverse_complement() << 1)
    cr = CircularRecord(make_record("ATGCAT", True))
    for k in [1.5, 2.0, "a", None, [1], Seq("A")]:
        run(">> {!r}".format(k), lambda: cr >> k)
        run("<< {!r}".format(k), lambda: cr << k)
    run("empty >> 1", lambda: CircularRecord(Seq("")) >> 1)
    run("empty << 1", lambda: CircularRecord(Seq("")) << 1)
    run("empty >> 0", lambda: CircularRecord(Seq("")) >> 0)
    run("rshift kw", lambda: cr.__rshift__(index=2))
    run("lshift kw", lambda: cr.__lshift__(index=2))
    run("noseq >> 1", lambda: CircularRecord(SeqRecord(None, id="noseq")) >> 1)
    run("undefined >> 1", lambda: CircularRecord(Seq(None, length=4)) >> 1)
    # features that end up wholly after the end, several turns away
    rec = SeqRecord(Seq("ATGCATGCAT"), id="far", features=[
        SeqFeature(FeatureLocation(8, 10, strand=1), type="a"),
        SeqFeature(FeatureLocation(18, 20, strand=-1), type="b"),
        SeqFeature(FeatureLocation(9, 12, strand=None), type="c"),
        SeqFeature(FeatureLocation(0, 10), type="source"),
        SeqFeature(FeatureLocation(0, 10, ref="other", ref_db="db"), type="source"),
        SeqFeature(FeatureLocation(3, 4, ref="other", ref_db="db"), type="reffed"),
        SeqFeature(CompoundLocation([FeatureLocation(0, 10), FeatureLocation(2, 3)]), type="source"),
        SeqFeature(CompoundLocation([FeatureLocation(8, 10), FeatureLocation(10, 12)], "order"), type="ord"),
    ])
    far = CircularRecord(rec)
    for k in range(0, 12):
        run("far >> {}".format(k), lambda: far >> k)
        run("far << {}".format(k), lambda: far << k)


# --- 2. the regex -----------------------------------------------------------


def check_regex():
    section("regex")
    patterns = ["GGTCTCN(NNNN)(N*)(NNNN)NGAGACC", "ATG", "(A)(T*)(G)", "N*", "", "RYKM(BDHV)SW",
                "GAAGACNN(NNNN)(NN*N)(NNNN)NNGTCTTC", "(ATG)N*?(TGA)", "(?P<x>AT)(G)?"]
    subjects = []
    for n in [0, 1, 3, 8, 20]:
        subjects.append(randseq(n))
        subjects.append(randseq(n, "ACgt"))
    subjects += ["TCNAAAACCCCGGGGTNGAGACCGGTC", "GAGACCAAGGTCTCAATGCAAAAAACGTTT",
                 "TGATTTTAATG", "tgATTTaAtG"]
    for pat in patterns:
        rx = run("compile {!r}".format(pat), lambda: DNARegex(pat))
        if rx is None:
            continue
        LOG.append("  pattern={} regex={}".format(rx.pattern, rx.regex.pattern))
        for s in subjects:
            for kind in ("seq", "rec", "circ"):
                if kind == "seq":
                    subj = Seq(s)
                elif kind == "rec":
                    subj = make_record(s, True, rid="r")
                else:
                    subj = CircularRecord(make_record(s, True, rid="c"))
                calls = [
                    ("default", lambda: rx.search(subj)),
                    ("linear=False", lambda: rx.search(subj, linear=False)),
                    ("linear=True", lambda: rx.search(subj, linear=True)),
                    ("linear=0", lambda: rx.search(subj, 0, 10 ** 9, 0)),
                    ("pos=2", lambda: rx.search(subj, 2)),
                    ("pos=2,end=5,circ", lambda: rx.search(subj, 2, 5, False)),
                    ("pos=-1", lambda: rx.search(subj, pos=-1, linear=False)),
                    ("pos=len", lambda: rx.search(subj, pos=len(s), linear=False)),
                    ("endpos=0", lambda: rx.search(subj, endpos=0)),
                    ("kw string", lambda: rx.search(string=subj, pos=1, endpos=len(s) + 5, linear=False)),
                ]
                for name, call in calls:
                    m = run("rx {!r} on {}:{} {}".format(pat, kind, s, name), call)
                    if m is None:
                        continue
                    LOG.append("   start={} end={} span={} rec_is={}".format(
                        m.start(), m.end(), m.span(), m.rec is subj))
                    for g in range(0, m.match.re.groups + 2):
                        run("    span({})".format(g), lambda: m.span(g))
                        run("    group({})".format(g), lambda: m.group(g), subj)
                    run("    group()", lambda: m.group())
                    run("    group kw", lambda: m.group(index=0))
    rx = DNARegex("ATG")
    for bad in ["ATG", b"ATG", None, 3, ["A"], MutableSeq("ATG"), SeqFeature(None)]:
        run("rx bad {}".format(show(bad)[:30]), lambda: rx.search(bad))
        run("rx bad circ {}".format(show(bad)[:30]), lambda: rx.search(bad, linear=False))
    run("rx pos str", lambda: rx.search(Seq("AATG"), "a"))
    run("rx undefined", lambda: rx.search(Seq(None, length=4)))
    run("rx noseq", lambda: rx.search(SeqRecord(None, id="noseq")))
    run("transcribe", lambda: DNARegex._transcribe("ACGTNRYKMBDHVSWxyz(^_)"))
    # SeqMatch on hand-made matches (spans beyond the end, shifted)
    import re

    for s in ["ATGCATGC", "AT"]:
        for kind in (Seq, lambda x: SeqRecord(Seq(x), id="k"), lambda x: CircularRecord(Seq(x), id="k")):
            rec = kind(s)
            data = s * 3
            for a in range(0, len(data)):
                for b in (a, a + 1, a + len(s) - 1, a + len(s)):
                    if b > len(data):
                        continue
                    m = re.compile(".{%d}" % (b - a), re.S).match(data, a)
                    sm = SeqMatch(m, rec, 1)
                    run("SeqMatch {} {}:{} on {}".format(s, a, b, type(rec).__name__), lambda: sm.group(0))


# --- 3. kits, registries, assemblies ---------------------------------------


def all_kit_classes():
    import moclo.kits.ytk
    import moclo.kits.cidar
    import moclo.kits.ecoflex
    import moclo.kits.moclo
    import moclo.kits.plant

    seen = {}
    for mod in (moclo.kits.ytk, moclo.kits.cidar, moclo.kits.ecoflex, moclo.kits.moclo, moclo.kits.plant):
        for name, obj in sorted(vars(mod).items()):
            if isinstance(obj, type) and issubclass(obj, (AbstractModule, AbstractVector, AbstractPart)):
                seen["{}.{}".format(obj.__module__, obj.__name__)] = obj
    return [seen[k] for k in sorted(seen)]


def entity_summary(e):
    out = [type(e).__name__]
    calls = [("valid", e.is_valid), ("ostart", e.overhang_start), ("oend", e.overhang_end),
             ("target", e.target_sequence)]
    if isinstance(e, AbstractVector):
        calls.append(("placeholder", e.placeholder_sequence))
    for name, f in calls:
        try:
            v = f()
            if isinstance(v, SeqRecord):
                v = "{}:{}:{}:{}".format(
                    type(v).__name__, hashlib.md5(str(v.seq).encode()).hexdigest()[:10], len(v.features),
                    hashlib.md5(show(v).encode()).hexdigest()[:10])
            else:
                v = show(v)
        except Exception as exc:
            v = show_exc(exc)[:200]
        out.append("{}={}".format(name, v))
    return " ".join(out)


def check_kits():
    section("kits")
    from tests._utils import build_registries

    classes = all_kit_classes()
    LOG.append("classes: " + ",".join(c.__name__ for c in classes))
    for cls in classes:
        try:
            LOG.append("structure {} = {}".format(cls.__name__, cls.structure()))
        except Exception as e:
            LOG.append("structure {} = {}".format(cls.__name__, show_exc(e)))
        LOG.append("  bases {} : {}".format(
            cls.__name__,
            ",".join(b.__name__ for b in (AbstractModule, AbstractVector, AbstractPart) if issubclass(cls, b))))
    import moclo.registry.ytk as rytk
    import moclo.registry.cidar as rcidar
    import moclo.registry.ecoflex as reco
    import moclo.registry.plant as rplant

    regs = []
    for name, mod in (("ytk", rytk), ("cidar", rcidar), ("ecoflex", reco), ("plant", rplant)):
        build_registries(name)
        for attr, obj in sorted(vars(mod).items()):
            if isinstance(obj, type) and issubclass(obj, EmbeddedRegistry) and obj is not EmbeddedRegistry:
                regs.append(obj)
    combined = CombinedRegistry()
    picked = {}
    for reg_cls in regs:
        reg = run("registry {}".format(reg_cls.__name__), reg_cls)
        if reg is None:
            continue
        LOG.append(" len={} keys={}".format(len(reg), hashlib.md5(",".join(sorted(reg)).encode()).hexdigest()[:10]))
        combined << reg
        for i, key in enumerate(sorted(reg)):
            item = reg[key]
            rec = item.entity.record
            LOG.append(" item {} {} {} res={} rectype={} topo={!r} digest={} :: {}".format(
                reg_cls.__name__, item.id, item.name, item.resistance, type(rec).__name__,
                rec.annotations.get("topology"), hashlib.md5(show(rec).encode()).hexdigest()[:10],
                entity_summary(item.entity)))
            if i % 9 == 0:
                picked["{}:{}".format(reg_cls.__name__, key)] = item
        run("registry miss", lambda: reg["nope"])
    LOG.append("combined len={} has={}".format(len(combined), "pYTK002" in combined))
    # every kit class against a sample of the plasmids, also rotated / reverse-complemented
    for key in sorted(picked):
        rec = picked[key].entity.record
        variants = [("orig", rec), ("rot", rec >> 17), ("lrot", rec << 5), ("rc", rec.reverse_complement()),
                    ("lower", CircularRecord(Seq(str(rec.seq).lower()), id=rec.id + "_lc")),
                    ("plain", SeqRecord(rec.seq, id=rec.id + "_plain"))]
        for vname, v in variants:
            valid = []
            for cls in classes:
                try:
                    ent = cls(v)
                    if ent.is_valid():
                        valid.append(entity_summary(ent))
                except Exception as e:
                    valid.append("{}:{}".format(cls.__name__, show_exc(e)[:80]))
            LOG.append("valid {} {} :: {}".format(key, vname, " ;; ".join(valid)))
    return combined


def check_assembly(combined):
    section("assembly")

    class MockVector(AbstractVector):
        cutter = BpiI

    class MockModule(AbstractModule):
        cutter = BpiI

    class SapVector(AbstractVector):
        cutter = SapI

    class SapModule(AbstractModule):
        cutter = SapI

    class BstVector(AbstractVector):  # 3' overhang cutter
        cutter = BstXI

    class BstModule(AbstractModule):
        cutter = BstXI

    class SfiModule(AbstractModule):  # 3' overhang cutter
        cutter = SfiI

    class BtsModule(AbstractModule):  # 3' overhang cutter, explicit structure
        cutter = BtsI

        @classmethod
        def structure(cls):
            return "GCAGTG(NN)(NN*N)(NN)CACTGC"

    class BtsVector(AbstractVector):
        cutter = BtsI

        @classmethod
        def structure(cls):
            return "CACTGC(NN)(NN*N)(NN)GCAGTG"

    def mk(cls, seq, rid, circular=True, rich=False):
        base = make_record(seq, True, rid=rid) if rich else SeqRecord(Seq(seq), id=rid)
        if rich:
            base.annotations["references"] = ["ref-{}-1".format(rid), "ref-shared"]
            for f in base.features:
                if f.location is not None:
                    f.qualifiers["citation"] = ["[2]", "[1]"]
        return cls(CircularRecord(base) if circular else base)

    V = "CCATGCTTGTCTTCCACAGAAGACTTCGTAGG"
    M_ok = "GAAGACTTATGCTATACGTATTGTCTTC"      # CGTA..ATGC reversed notation of tests
    cases = {
        "invalid vector": ("CCATGCTTGTCTTCCACAGAAGACTTATGCGG", ["GAAGACTTATGCCACAATGCTTGTCTTC"]),
        "duplicate": (V, ["GAAGACTTATGCCACACGTATTGTCTTC", "GAAGACTTATGCTATACGTATTGTCTTC"]),
        "missing": (V, ["GAAGACTTATGACACACGTATTGTCTTC"]),
        "unused": (V, [M_ok, "GAAGACTTAAAACACACCCCTTGTCTTC"]),
        "single": (V, [M_ok]),
        "lower": (V.lower(), [M_ok.lower()]),
        "mixed": (V, [M_ok.lower()]),
        "nomatch": (V, ["ATGCATGC"]),
        "revcomp": (V, [M_ok, "GAAGACTTTACGCACAGCATTTGTCTTC"]),
    }
    for name in sorted(cases):
        vseq, mseqs = cases[name]
        for rot in (0, 3, 11):
            for rich in (False, True):
                for circular in (True, False):
                    def go():
                        vec = mk(MockVector, vseq, "vec", circular, rich)
                        mods = [mk(MockModule, m, "mod{}".format(i), circular, rich) for i, m in enumerate(mseqs)]
                        if rot and circular:
                            vec = MockVector(vec.record >> rot)
                            mods = [MockModule(m.record << rot) for m in mods]
                        state.extend([vec] + mods)
                        return vec.assemble(*mods, id="asm-id", name="asm-name")

                    state = []
                    run("asm {} rot={} rich={} circ={}".format(name, rot, rich, circular), go)
                    for ent in state:
                        LOG.append("   after: {} {}".format(show(ent), show(ent.record)))
                        LOG.append("   sum: " + entity_summary(ent))
    # other enzymes, including 3'-overhang cutters
    for cls_v, cls_m, site, rsite in [(SapVector, SapModule, "GCTCTTC", "GAAGAGC"),
                                     (MockVector, MockModule, "GAAGAC", "GTCTTC")]:
        for rot in (0, 5):
            def go():
                up = site + "A" * (1 if site == "GCTCTTC" else 2)
                down = "T" * (1 if site == "GCTCTTC" else 2) + rsite
                olen = 3 if site == "GCTCTTC" else 4
                o1, o2 = "ATGC"[:olen], "CGTA"[:olen]
                mod = CircularRecord(Seq(up + o1 + "GGGGGGGG" + o2 + down + "CCCCC"), id="m")
                vec = CircularRecord(Seq("TTTTT" + o1 + down + "ACACACAC" + up + o2 + "TTAA"), id="v")
                if rot:
                    mod, vec = mod >> rot, vec << rot
                v, m = cls_v(vec), cls_m(mod)
                out.extend([v, m])
                return v.assemble(m)

            out = []
            run("enzyme {} rot={}".format(cls_v.__name__, rot), go)
            for ent in out:
                LOG.append("   sum: " + entity_summary(ent))
    for cls in (BstVector, BstModule, SfiModule, BtsModule, BtsVector):
        run("structure {}".format(cls.__name__), cls.structure)
    for s in ["CCAAAAAATGTGGTTTTCCATATGGATTGG", "AAGCAGTGATCCCCCCCCTTCACTGCAA",
              "TTCACTGCAAGGGGGGGGGGGGAAGCAGTGAT", "aagcagtgATCCCCccccTTCACTGCAA"]:
        for cls in (BstModule, BtsModule, BtsVector):
            for rot in (0, 4, 23):
                def go():
                    rec = CircularRecord(Seq(s), id="x")
                    ent = cls(rec >> rot if rot else rec)
                    return entity_summary(ent)
                run("3' {} {} rot={}".format(cls.__name__, s, rot), go)

    def go():
        m = BtsModule(CircularRecord(Seq("AAGCAGTGACCCCCCCCCTTCACTGCAA"), id="m3"))
        v = BtsVector(CircularRecord(Seq("TTCACTGCACGGGGGGGGGGTTGCAGTGAT"), id="v3") >> 7)
        return v.assemble(m)

    run("3' assembly", go)
    # abstract / undeclared cutters
    run("abstract module", lambda: AbstractModule(CircularRecord(Seq("ATGC"))))
    run("abstract vector", lambda: AbstractVector(CircularRecord(Seq("ATGC"))))
    # a real assembly from the YTK registry
    from moclo.kits import ytk

    def real(ids, vec_id, rot=0):
        def go():
            mods = [combined[i].entity for i in ids]
            vec = combined[vec_id].entity
            if rot:
                mods = [type(m)(m.record >> rot) for m in mods]
                vec = type(vec)(vec.record << rot)
            state.extend(mods + [vec])
            return vec.assemble(*mods)

        state = []
        out = run("real {} {} rot={}".format(ids, vec_id, rot), go)
        if out is not None:
            LOG.append("   result: type={} len={} md5={} topo={} refs={} feats={}".format(
                type(out).__name__, len(out), hashlib.md5(str(out.seq).encode()).hexdigest(),
                out.annotations.get("topology"), len(out.annotations.get("references", [])), len(out.features)))
            buf = io.StringIO()
            run("   write gb", lambda: Bio.SeqIO.write(out, buf, "genbank"))
            text = "\n".join(l for l in buf.getvalue().splitlines() if not l.startswith("LOCUS"))
            LOG.append("   gb md5={}".format(hashlib.md5(text.encode()).hexdigest()))
        for ent in state:
            LOG.append("   after: {} {}".format(show(ent), hashlib.md5(show(ent.record).encode()).hexdigest()))

    real(["pYTK008", "pYTK047", "pYTK073", "pYTK074", "pYTK086", "pYTK092"], "pYTK083")
    real(["pYTK008", "pYTK047", "pYTK073", "pYTK074", "pYTK086", "pYTK092"], "pYTK083", rot=123)
    real(["pYTK008", "pYTK047", "pYTK073"], "pYTK095")
    real(["pYTK002", "pYTK009", "pYTK033", "pYTK051", "pYTK067"], "pYTK095")
    real(["pYTK002", "pYTK002"], "pYTK095")
    real(["pYTK047"], "pYTK001")


def check_filesystem_registry(combined):
    section("fsregistry")
    import fs
    from moclo.kits import ytk

    mem = fs.open_fs("mem://")
    for key in ["pYTK002", "pYTK047", "pYTK095"]:
        rec = combined[key].entity.record
        with mem.open("{}.gb".format(key), "w") as f:
            Bio.SeqIO.write(rec, f, "genbank")
    lin = SeqRecord(combined["pYTK002"].entity.record.seq, id="lin", name="lin",
                    annotations={"topology": "linear", "molecule_type": "DNA"})
    with mem.open("lin.gbk", "w") as f:
        Bio.SeqIO.write(lin, f, "genbank")
    for base in (ytk.YTKPart, ytk.YTKPart1, AbstractPart, int, "x"):
        reg = run("fsreg {}".format(getattr(base, "__name__", base)), lambda: FilesystemRegistry(mem, base))
        if reg is None:
            continue
        LOG.append("  keys={} len={}".format(sorted(reg), len(reg)))
        for key in ["pYTK002", "pYTK047", "pYTK095", "lin", "nope"]:
            item = run("  fsreg[{}]".format(key), lambda: reg[key])
            if item is not None:
                LOG.append("   {} {} {} {} {}".format(item.id, item.name, item.resistance,
                                                     type(item.entity).__name__, type(item.record).__name__))


def check_misc():
    section("misc")
    import copy
    import pickle

    cr = CircularRecord(make_record("ATGCATTA", True))
    for name, f in (("copy", copy.copy), ("deepcopy", copy.deepcopy),
                    ("pickle", lambda x: pickle.loads(pickle.dumps(x)))):
        out = run("misc {}".format(name), lambda: f(cr), cr)
        if out is not None:
            LOG.append("   share={} vars={}".format(sharing(out, cr), sorted(vars(out))))
    m = DNARegex("(AT)(G)").search(cr)
    LOG.append("match vars={}".format(sorted(vars(m))))
    LOG.append("wrapped={} {}".format(CircularRecord.__add__.__wrapped__.__name__,
                                      CircularRecord.__radd__.__wrapped__.__name__))
    run("wrapped add", lambda: CircularRecord.__add__.__wrapped__(cr, "A"))
    run("wrapped radd", lambda: CircularRecord.__radd__.__wrapped__(cr, "A"))

    class Mod(AbstractModule):
        cutter = BsaI

    # a site spanning the origin is only found when the record is not declared linear
    seq = "TCAATGCAAAAAACGTTTGAGACCAAAAGGTC"
    for topo in ("circular", "Circular", "linear", "LINEAR", "other", NotImplemented, None, 3):
        for wrap in (False, True):
            def go():
                ann = {} if topo is NotImplemented else {"topology": topo}
                rec = SeqRecord(Seq(seq), id="t", annotations=ann)
                if wrap:
                    rec = CircularRecord(rec)
                return entity_summary(Mod(rec))
            run("structured topo={!r} wrap={}".format(topo, wrap), go)


def main():
    check_module_surface()
    check_misc()
    check_constructor()
    check_membership()
    check_add()
    check_getitem()
    check_rotation()
    check_regex()
    combined = check_kits()
    check_assembly(combined)
    check_filesystem_registry(combined)
    section("end")
    LOG[:] = [_re.sub(r" at 0x[0-9a-fA-F]+", "", line) for line in LOG]
    for (name, start), (_, end) in zip(SECTIONS, SECTIONS[1:]):
        h = hashlib.sha256("\n".join(LOG[start:end]).encode("utf-8")).hexdigest()
        print("{:12s} {:6d} lines  {}".format(name, end - start, h[:32]))
    print("DIGEST", hashlib.sha256("\n".join(LOG).encode("utf-8")).hexdigest())
    if len(sys.argv) > 1:
        with open(sys.argv[1], "w") as f:
            f.write("\n".join(LOG))


if __name__ == "__main__":
    main()
