# coding: utf-8
"""Differential test: prints a digest of everything observable through the
existing API of the code touched by the pull request (DNA pattern search,
structured records, kit classes, registries, assemblies).

Run as:  cd /tmp/agents8/C16 && /venv/bin/python pairs_out/<dir>/equiv.py
"""
from __future__ import print_function

import hashlib
import inspect
import os
import random
import re
import sys
import warnings

sys.path.insert(0, os.path.abspath(os.path.join(os.path.dirname(__file__), "..", "..")))
import tests  # noqa: E402,F401  (splices the kits into the moclo namespace)

import six  # noqa: E402
from Bio.Seq import Seq  # noqa: E402
from Bio.SeqFeature import SeqFeature, FeatureLocation  # noqa: E402
from Bio.SeqRecord import SeqRecord  # noqa: E402
from Bio.Restriction import BsaI, BsmBI, BpiI, SapI, EcoRV, EcoRI, KpnI  # noqa: E402

from moclo import errors  # noqa: E402
from moclo.record import CircularRecord  # noqa: E402
from moclo.regex import DNARegex, SeqMatch  # noqa: E402
from moclo import core  # noqa: E402
from moclo.core import modules, vectors, parts  # noqa: E402
from moclo.core._structured import StructuredRecord  # noqa: E402

LINES = []
ROOT = os.path.abspath(os.path.join(os.path.dirname(__file__), "..", ".."))


def clean(text):
    text = str(text).replace(ROOT, "<root>")
    return re.sub(r"0x[0-9a-fA-F]+", "0x?", text)


def out(*fields):
    LINES.append(" | ".join(clean(f) for f in fields))


def call(func, *args, **kwargs):
    """Run func, return ("ok", value) or ("exc", type name, message), plus warnings."""
    with warnings.catch_warnings(record=True) as caught:
        warnings.simplefilter("always")
        try:
            res = ("ok", func(*args, **kwargs))
        except Exception as exc:  # noqa
            res = ("exc", type(exc).__name__, clean(exc))
    warns = sorted("{}:{}".format(type(w.message).__name__, clean(w.message)) for w in caught)
    return res, warns


def feature_digest(feat):
    return "{}@{}{}".format(
        feat.type,
        feat.location,
        sorted((k, tuple(v) if isinstance(v, list) else v) for k, v in feat.qualifiers.items()),
    )


def describe(value):
    """A stable description of sequences, records and other values."""
    if isinstance(value, SeqRecord):
        return "{}[{}|{}|{}|{}|{}|{}|{}|{}]".format(
            type(value).__name__,
            str(value.seq),
            value.id,
            value.name,
            value.description,
            sorted(value.dbxrefs),
            [feature_digest(f) for f in value.features],
            sorted((k, str(v)) for k, v in value.annotations.items()),
            sorted((k, str(v)) for k, v in value.letter_annotations.items()),
        )
    if isinstance(value, Seq):
        return "Seq[{}]".format(str(value))
    if isinstance(value, (tuple, list)):
        return "({})".format(", ".join(describe(v) for v in value))
    return repr(value)


def short(value):
    """Same as describe, but hashed when long."""
    d = describe(value)
    if len(d) > 200:
        return "{}...#{}".format(d[:60], hashlib.sha256(d.encode("utf-8")).hexdigest()[:16])
    return d


# --- 1. the pattern transcription ------------------------------------------

out("lettermap", sorted(dict(DNARegex._lettermap).items()))
out("lettermap-eq", DNARegex._lettermap == dict(DNARegex._lettermap), len(DNARegex._lettermap))
for letter in "ABCDEFGHIJKLMNOPQRSTUVWXYZabcdnx()*?.[]-^":
    out("lettermap.get", letter, DNARegex._lettermap.get(letter), letter in DNARegex._lettermap)
for pattern in ["", "N", "ACGT", "GGTCTCN(NNNN)(NN*N)", "RYSWKMBDHVN", "rykm", "X", "AXN",
                "(A|C)N{2}", "[ACGN]", "N*?", "(?P<x>AN)", None, 12, ["A", "N"], b"AN", ("N", 1)]:
    res, warns = call(DNARegex._transcribe, pattern)
    out("transcribe", repr(pattern), res, warns)
    res, warns = call(DNARegex, pattern)
    if res[0] == "ok":
        rx = res[1]
        out("compile", repr(pattern), repr(rx.pattern), rx.regex.pattern, rx.regex.flags, rx.regex.groups)
    else:
        out("compile", repr(pattern), res, warns)


# --- 2. searching ------------------------------------------------------------

def match_digest(m):
    if m is None:
        return "None"
    fields = [type(m).__name__, m.start(), m.end(), m.span(), m.shift, m.rec is not None]
    for i in range(m.match.re.groups + 1):
        res, _ = call(m.span, i)
        fields.append(res)
        res, _ = call(m.group, i)
        fields.append((res[0], describe(res[1])) if res[0] == "ok" else res)
    res, _ = call(m.group)
    fields.append((res[0], describe(res[1])) if res[0] == "ok" else res)
    res, _ = call(m.span)
    fields.append(res)
    res, _ = call(m.group, m.match.re.groups + 1)
    fields.append(res)
    return " ; ".join(clean(f) for f in fields)


def make_targets(text, rng):
    feats = [SeqFeature(FeatureLocation(0, max(1, len(text) // 2), 1), type="misc_feature",
                        qualifiers={"label": ["f1"]})] if len(text) > 1 else []
    yield "Seq", Seq(text)
    yield "SeqRecord", SeqRecord(Seq(text), id="rec", name="n", description="d",
                                 features=list(feats), annotations={"topology": "linear", "k": "v"})
    yield "CircularRecord", CircularRecord(Seq(text), id="circ", name="n", description="d",
                                           features=list(feats), annotations={"topology": "circular"})


def search_all(tag, pattern, text, rng, extra_ranges=()):
    res, _ = call(DNARegex, pattern)
    if res[0] != "ok":
        out(tag, pattern, text, res)
        return
    rx = res[1]
    for kind, target in make_targets(text, rng):
        before = describe(target)
        ranges = [(), (0,), (1,), (0, len(text)), (2, len(text) - 1), (len(text) - 1,),
                  (len(text),), (len(text) + 3,), (0, 0), (3, 2), (0, len(text) + 5)]
        ranges.extend(extra_ranges)
        for rng_args in ranges:
            for linear in (None, True, False):
                kwargs = {} if linear is None else {"linear": linear}
                res, warns = call(rx.search, target, *rng_args, **kwargs)
                if res[0] == "ok":
                    res = ("ok", match_digest(res[1]))
                out(tag, pattern, text, kind, rng_args, linear, res, warns)
        out(tag + "-state", pattern, kind, before == describe(target))


rng = random.Random(1606)
CODES = "ACGTRYSWKMBDHVN"

# 2a. every code against every nucleotide, both cases, and N / other letters
for code in CODES:
    for nuc in "ACGTNacgtnXRY-":
        for pattern, text in ((code, nuc), ("A" + code + "C", "A" + nuc + "C"), ("(" + code + ")", nuc)):
            rx = DNARegex(pattern)
            m = rx.search(Seq(text))
            m2 = rx.search(CircularRecord(Seq(text), id="x"))
            out("code", pattern, text, match_digest(m), match_digest(m2))

# 2b. hand-written edge cases
EDGE = [
    ("AA(NN)", "ATGCAAGCAATA"), ("AA(NN)", "ATGCAGCATA"), ("AA(NN)", "atgcagcata"),
    ("(A)(N*)(T)", "CCATTTGGC"), ("(A)(N*?)(T)", "CCATTTGGC"), ("(N*)", "ACGT"), ("(N*?)", "ACGT"),
    ("(N*)(A)", "CCACC"), ("G(N*)C", "CTTTG"), ("G(N*?)C", "CTTTG"), ("(GA)(N*)(TC)", "AATCCCCG"),
    ("(TC)(NN)(GA)", "AGTTTTTC"), ("(TC)(N*)(GA)", "AGTTTTTC"), ("(CNNG)", "NGTTTTCN"),
    ("ACGT", "ACGT"), ("ACGTA", "ACGT"), ("(ACGT)(ACGT)", "ACGT"), ("(ACGT)A", "ACGT"),
    ("(CGTA)", "ACGT"), ("(GTAC)", "ACGT"), ("(TACG)", "ACGT"), ("(T)(A)", "ACGT"), ("T(N*)T", "ACGT"),
    ("", "ACGT"), ("A", ""), ("", ""), ("(N*)", ""), ("A", "A"), ("(A)(A)", "A"), ("(A*)", "A"),
    ("(A*)", "AAAA"), ("(A*?)C", "AAAC"), ("A(X)C", "AXC"), ("A(X)C", "ANC"), ("(R)(Y)", "TGAC"),
    ("(?P<up>GG)N(?P<down>CC)", "CTTGGAC"), ("(A)|(C)", "GGC"), ("(A)|(C)", "GGA"),
    ("GGTCTCN(NNNN)(NN*N)(NNNN)NGAGACC", "TAGAGACCTTTTGGTCTCAATGCCACACGTA"),
    ("GGTCTCN(NNNN)(NN*N)(NNNN)NGAGACC", "ccacacgtatagagaccttttggtctcaatg"),
    ("(", "ACGT"), ("A)", "ACGT"), ("N**", "ACGT"),
]
for pattern, text in EDGE:
    search_all("edge", pattern, text, rng, extra_ranges=[(-1,), (-2, 3), (0, -1), (-3, -1)])

# 2c. generated patterns over short targets, every origin placement
PIECES = ["A", "C", "G", "T", "N", "R", "Y", "S", "W", "K", "M", "B", "D", "H", "V",
          "(N)", "(NN)", "(N*)", "(N*?)", "N*", "N*?", "(A)", "(CN)", "(RY)", "(W*)", "(S*?)", "(GN*)", "(N*T)"]
for k in range(120):
    pattern = "".join(rng.choice(PIECES) for _ in range(rng.randint(1, 5)))
    base = "".join(rng.choice("ACGT" if rng.random() < 0.9 else "ACGTN") for _ in range(rng.randint(1, 9)))
    if rng.random() < 0.3:
        base = "".join(c.lower() if rng.random() < 0.5 else c for c in base)
    rx = DNARegex(pattern)
    for shift in range(len(base)):
        text = base[shift:] + base[:shift]
        for kind, target in make_targets(text, rng):
            for linear in (True, False):
                for args in ((), (rng.randint(0, len(text)),), (rng.randint(0, 3), rng.randint(0, len(text) + 1))):
                    res, warns = call(rx.search, target, *args, linear=linear)
                    if res[0] == "ok":
                        res = ("ok", match_digest(res[1]))
                    out("gen", pattern, text, kind, linear, args, res, warns)

# 2d. wrong types of targets, undefined sequences
for target in ["ACGT", b"ACGT", None, 12, ["A"], Seq(None, length=5), SeqRecord(Seq(None, length=4), id="u"),
               CircularRecord(Seq(None, length=4), id="u"), SeqRecord(None, id="noseq")]:
    for args in ((), (7,), (0, 0)):
        res, warns = call(DNARegex("A(N)").search, target, *args)
        if res[0] == "ok":
            res = ("ok", match_digest(res[1]))
        out("badtarget", type(target).__name__, args, res, warns)

# 2e. matches built by hand around sequences of any length
for text in ["", "A", "ACGTAC", "ACGTACGTAC"]:
    for kind, target in make_targets(text, rng):
        for data, pat, pos in [(text * 2, "(C)(N*)(A)", 0), (text * 2, "(?i)(.)(.*)", 3), (text * 3, "(.*)", 0),
                               (text * 3, "(.)(.*)(.)", len(text)), (text, "(X)?(.*)", 0), ("", "(X)?()", 0),
                               (text * 2, "(.{0,3})(.{0,5})", max(0, len(text) - 2))]:
            m = re.compile(pat.replace("N", "[ACGTN]")).search(data, pos)
            if m is None:
                out("handmade", text, kind, pat, pos, "nomatch")
                continue
            for shift in (None, 0, 5):
                sm = SeqMatch(m, target) if shift is None else SeqMatch(m, target, shift)
                out("handmade", text, kind, pat, pos, shift, match_digest(sm), sm.match is m, sm.rec is target)


# --- 3. class families -------------------------------------------------------

from moclo.kits import ytk, cidar, ecoflex, moclo as moclokit, plant  # noqa: E402

PUBLIC = [getattr(core, name) for name in core.__all__] + [StructuredRecord]
KITS = [ytk, cidar, ecoflex, moclokit, plant]
for mod in [modules, vectors, parts] + KITS:
    for name, obj in sorted(vars(mod).items()):
        if not inspect.isclass(obj) or not issubclass(obj, StructuredRecord) or obj.__module__ != mod.__name__:
            continue
        out("class", mod.__name__, name, obj.__module__, obj.__name__,
            [p.__name__ for p in PUBLIC if issubclass(obj, p)],
            [c.__name__ for c in obj.__mro__ if c in PUBLIC or c.__module__.startswith("moclo.kits")],
            getattr(obj, "_level", "n/a"), repr(getattr(obj, "cutter", "n/a")), repr(getattr(obj, "signature", "n/a")),
            inspect.isabstract(obj), bool(obj.__doc__))
        res, warns = call(obj.structure)
        out("structure", name, res, warns)
        res, warns = call(obj._get_regex)
        out("regex", name, res[0], res[1].pattern if res[0] == "ok" else res, warns)
        res, warns = call(obj, SeqRecord(Seq("ACGT"), id="tiny"))
        if res[0] == "ok":
            ent = res[1]
            out("tiny", name, type(ent).__name__, call(ent.is_valid), call(lambda: ent._match)[0])
        else:
            out("tiny", name, res, warns)

for name in ["Seq", "cached_property", "errors", "StructuredRecord", "cutter_check", "add_as_source"]:
    out("names", name, hasattr(modules, name), hasattr(vectors, name))
out("names-parts", [hasattr(parts, n) for n in ("Seq", "isabstract", "AbstractModule", "AbstractVector",
                                                "StructuredRecord", "cutter_check")])

# ad-hoc classes with other enzymes
for enzyme in (BsaI, BsmBI, BpiI, SapI, EcoRV, EcoRI, KpnI, NotImplemented):
    for base in (modules.AbstractModule, modules.Product, modules.Entry, modules.Cassette, modules.Device,
                 vectors.AbstractVector, vectors.EntryVector, vectors.CassetteVector, vectors.DeviceVector):
        cls = type(str("Mock" + base.__name__), (base,), {"cutter": enzyme})
        res, warns = call(cls.structure)
        out("mock-structure", base.__name__, repr(enzyme), res, warns)
        res, warns = call(cls, CircularRecord(Seq("CCATGCTTGTCTTCCACAGAAGACTTATGCGG"), "v"))
        out("mock-new", base.__name__, repr(enzyme), res[0], res[1:] if res[0] == "exc" else type(res[1]).__name__, warns)
    for base in (modules.Entry, vectors.CassetteVector):
        for sig in (("ATGC", "ATTC"), ("NNNN", "GGGA"), NotImplemented):
            cls = type(str("MockPart"), (parts.AbstractPart, base), {"cutter": enzyme, "signature": sig})
            res, warns = call(cls.structure)
            out("mock-part-structure", base.__name__, repr(enzyme), sig, res, warns)


class Both(vectors.AbstractVector, modules.AbstractModule):
    cutter = BpiI


class Both2(modules.AbstractModule, vectors.AbstractVector):
    cutter = BpiI


class Bare(parts.AbstractPart):
    cutter = BsaI
    signature = ("ATGC", "ATTC")


for cls in (Both, Both2, Bare):
    out("odd", cls.__name__, call(cls.structure), getattr(cls, "_level", "n/a"), [p.__name__ for p in PUBLIC if issubclass(cls, p)])


# --- 4. structured records on small plasmids ---------------------------------

def entity_digest(tag, ent):
    before = describe(ent.record)
    res, warns = call(ent.is_valid)
    out(tag, "is_valid", res, warns)
    for meth in ("overhang_start", "overhang_end", "target_sequence", "placeholder_sequence"):
        if not hasattr(ent, meth):
            continue
        res, warns = call(getattr(ent, meth))
        out(tag, meth, (res[0], short(res[1])) if res[0] == "ok" else res, warns)
    res, warns = call(lambda: ent._match)
    out(tag, "_match", ("ok", match_digest(res[1])) if res[0] == "ok" else res, warns)
    if hasattr(ent, "_target_span") or True:
        res, warns = call(lambda: (ent._match.span(1), ent._match.span(2), ent._match.span(3)))
        out(tag, "spans", res)
    out(tag, "state", before == describe(ent.record), ent.seq is ent.record.seq)


class MockVector(vectors.AbstractVector):
    cutter = BpiI


class MockModule(modules.AbstractModule):
    cutter = BpiI


class MockSapModule(modules.AbstractModule):
    cutter = SapI


SMALL = [
    ("vector", MockVector, "CCATGCTTGTCTTCCACAGAAGACTTCGTAGG"),
    ("vector-same", MockVector, "CCATGCTTGTCTTCCACAGAAGACTTATGCGG"),
    ("module", MockModule, "GAAGACTTATGCCACACGTATTGTCTTC"),
    ("module-illegal", MockModule, "GAAGACTTATGCCAGAAGACCACGTATTGTCTTC"),
    ("module-nosite", MockModule, "GAAGACTTATGCCACACGTATT"),
    ("module-sap", MockSapModule, "GCTCTTCAATGCCACACGTTGAAGAGC"),
    ("module-padded", MockModule, "TTTTGAAGACTTATGCCACACGTATTGTCTTCAAAA"),
]
for label, cls, text in SMALL:
    for shift in range(0, len(text), 3):
        rotated = text[shift:] + text[:shift]
        for casing in (str.upper, str.lower):
            seq = Seq(casing(rotated))
            feats = [SeqFeature(FeatureLocation(2, 9, 1), type="CDS", qualifiers={"label": ["cds"]})]
            for kind, rec in (
                ("circ", CircularRecord(seq, id=label, features=list(feats))),
                ("circ-annot", CircularRecord(seq, id=label, annotations={"topology": "Circular"})),
                ("rec", SeqRecord(seq, id=label, features=list(feats))),
                ("rec-linear", SeqRecord(seq, id=label, annotations={"topology": "linear"})),
                ("rec-circular", SeqRecord(seq, id=label, annotations={"topology": "circular"})),
            ):
                tag = "small:{}:{}:{}:{}".format(label, shift, casing.__name__, kind)
                entity_digest(tag, cls(rec))

# mock assemblies (including failing ones)
ASSEMBLIES = [
    ("ok", "CCATGCTTGTCTTCCACAGAAGACTTCGTAGG", ["GAAGACTTATGCTATACGTATTGTCTTC"]),
    ("invalid-vector", "CCATGCTTGTCTTCCACAGAAGACTTATGCGG", ["GAAGACTTATGCCACAATGCTTGTCTTC"]),
    ("duplicate", "CCATGCTTGTCTTCCACAGAAGACTTCGTAGG", ["GAAGACTTATGCCACACGTATTGTCTTC", "GAAGACTTATGCTATACGTATTGTCTTC"]),
    ("missing", "CCATGCTTGTCTTCCACAGAAGACTTCGTAGG", ["GAAGACTTATGACACACGTATTGTCTTC"]),
    ("unused", "CCATGCTTGTCTTCCACAGAAGACTTCGTAGG", ["GAAGACTTATGCTATACGTATTGTCTTC", "GAAGACTTAAAACACACCCCTTGTCTTC"]),
    ("two", "CCATGCTTGTCTTCCACAGAAGACTTCGTAGG", ["GAAGACTTGGGACACACGTATTGTCTTC", "GAAGACTTATGCTATAGGGATTGTCTTC"]),
    ("revcomp", "CCATGCTTGTCTTCCACAGAAGACTTCGTAGG", ["GAAGACTTATGCTATAGCATTTGTCTTC", "GAAGACTTGCATCACACGTATTGTCTTC"]),
    ("not-a-module", "CCATGCTTGTCTTCCACAGAAGACTTCGTAGG", ["GAAGACTTCGTACACAATGCTT"]),
]
for label, vec, mods in ASSEMBLIES:
    for shift in (0, 5, 11):
        vrec = CircularRecord(Seq(vec[shift:] + vec[:shift]), "vector")
        mrecs = [CircularRecord(Seq(m[shift:] + m[:shift]), "mod{}".format(i)) for i, m in enumerate(mods)]
        before = [describe(r) for r in [vrec] + mrecs]
        res, warns = call(MockVector(vrec).assemble, *[MockModule(r) for r in mrecs], id="asm", name="asm")
        if res[0] == "ok":
            asm = res[1]
            asm.annotations.pop("comment", None)
            res = ("ok", describe(asm))
        out("assembly", label, shift, res, warns, before == [describe(r) for r in [vrec] + mrecs])


# --- 5. the registries --------------------------------------------------------

from moclo.registry.ytk import YTKRegistry, PTKRegistry  # noqa: E402
from moclo.registry.cidar import CIDARRegistry  # noqa: E402
from moclo.registry.ecoflex import EcoFlexRegistry  # noqa: E402
from moclo.registry.plant import PlantRegistry  # noqa: E402

REGISTRIES = {}
for factory in (YTKRegistry, PTKRegistry, CIDARRegistry, EcoFlexRegistry, PlantRegistry):
    res, warns = call(factory)
    if res[0] != "ok":
        out("registry", factory.__name__, res, warns)
        continue
    registry = REGISTRIES[factory.__name__] = res[1]
    out("registry", factory.__name__, len(registry), warns)
    for n, key in enumerate(sorted(registry)):
        item = registry[key]
        ent = item.entity
        tag = "reg:{}:{}".format(factory.__name__, key)
        out(tag, item.id, item.name, item.resistance, type(ent).__name__, type(ent.record).__name__, len(ent.record))
        entity_digest(tag, ent)
        if n % 4 == 0:
            # the same plasmid with the origin somewhere else, and as a plain record
            rec = ent.record
            for shift in (1, len(rec) // 3, ent._match.start() + 3 if ent.is_valid() else 7,
                          ent._match.span(2)[0] + 2 if ent.is_valid() else 9, len(rec) - 1):
                rotated = rec >> (shift % len(rec))
                entity_digest("{}:>>{}".format(tag, shift), type(ent)(rotated))
            plain = SeqRecord(rec.seq.lower(), id=rec.id, name=rec.name, annotations=dict(rec.annotations))
            entity_digest(tag + ":plain-lower", type(ent)(plain))

# characterize plasmids against the part families
for regname, base in (("YTKRegistry", ytk.YTKPart), ("CIDARRegistry", cidar.CIDARPart),
                      ("EcoFlexRegistry", ecoflex.EcoFlexPart)):
    registry = REGISTRIES.get(regname)
    if registry is None:
        continue
    for key in sorted(registry)[::5]:
        res, warns = call(base.characterize, registry[key].entity.record)
        out("characterize", regname, key, type(res[1]).__name__ if res[0] == "ok" else res, warns)

# real assemblies
cidar_reg = REGISTRIES.get("CIDARRegistry")
if cidar_reg is not None:
    recipes = [
        ("DVK_AE", ("J23102_AB", "BCD2_BC", "E0040m_CD", "B0015_DE")),
        ("DVK_AE", ("B0015_DE", "E0040m_CD", "BCD2_BC", "J23102_AB")),
        ("DVK_AE", ("J23102_AB", "BCD2_BC", "E0040m_CD")),
        ("DVK_AE", ("J23102_AB", "BCD2_BC", "E0040m_CD", "B0015_DE", "B0015_DF")),
        ("DVK_EF", ("J23102_EB", "BCD2_BC", "E0040m_CD", "B0015_DF")),
    ]
    for vec, mods in recipes:
        ents = [cidar_reg[vec].entity] + [cidar_reg[m].entity for m in mods]
        before = [describe(e.record) for e in ents]
        res, warns = call(ents[0].assemble, *ents[1:])
        if res[0] == "ok":
            asm = res[1]
            asm.annotations.pop("comment", None)
            res = ("ok", short(asm))
        out("cidar-assembly", vec, mods, res, warns, before == [describe(e.record) for e in ents])

ytk_reg = REGISTRIES.get("YTKRegistry")
if ytk_reg is not None:
    recipes = [
        ("pYTK095", ("pYTK002", "pYTK009", "pYTK033", "pYTK051", "pYTK072")),
        ("pYTK095", ("pYTK002", "pYTK009", "pYTK033", "pYTK051", "pYTK067")),
        ("pYTK095", ("pYTK002", "pYTK009", "pYTK033", "pYTK051")),
    ]
    for vec, mods in recipes:
        res, warns = call(lambda: [ytk_reg[vec].entity] + [ytk_reg[m].entity for m in mods])
        if res[0] != "ok":
            out("ytk-assembly", vec, mods, res)
            continue
        ents = res[1]
        before = [describe(e.record) for e in ents]
        res, warns = call(ents[0].assemble, *ents[1:])
        if res[0] == "ok":
            asm = res[1]
            asm.annotations.pop("comment", None)
            res = ("ok", short(asm))
        out("ytk-assembly", vec, mods, res, warns, before == [describe(e.record) for e in ents])


# --- digest -----------------------------------------------------------------

blob = "\n".join(LINES).encode("utf-8")
if "--dump" in sys.argv:
    sys.stdout.write(blob.decode("utf-8") + "\n")
print("lines: {}".format(len(LINES)))
print("digest: {}".format(hashlib.sha256(blob).hexdigest()))
