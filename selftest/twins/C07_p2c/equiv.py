# coding: utf-8
"""Differential test for the code behind property C07 (assembly is pure).

Run as:  cd /tmp/agents5/C07 && /venv/bin/python pairs_out/C07_p2/equiv.py [--dump FILE]

Builds a few hundred assemblies (and direct calls of the supporting public
API: record rotation / slicing, add_as_source, cutter_check) from a fixed
seed, and prints a digest of every result, exception (type, message, cause),
warning, and of the complete state of every input record after every call.
The digest must be identical on the pristine tree and on a refactored one.
"""
import sys

sys.path.insert(0, "/tmp/agents5/C07")
import tests  # noqa: F401,E402

import collections  # noqa: E402
import copy  # noqa: E402
import hashlib  # noqa: E402
import random  # noqa: E402
import re  # noqa: E402
import warnings  # noqa: E402

from Bio.Restriction import BpiI, BsaI, BsmBI, SapI, EcoRV  # noqa: E402
from Bio.Seq import Seq  # noqa: E402
from Bio.SeqFeature import (  # noqa: E402
    SeqFeature,
    FeatureLocation,
    CompoundLocation,
    Reference,
)
from Bio.SeqRecord import SeqRecord  # noqa: E402

from moclo import errors  # noqa: E402
from moclo.record import CircularRecord  # noqa: E402
from moclo.core.vectors import AbstractVector  # noqa: E402
from moclo.core.modules import AbstractModule  # noqa: E402
from moclo.core._utils import add_as_source, cutter_check  # noqa: E402

RNG = random.Random(20260927)
LINES = []
COUNTS = collections.Counter()


def emit(*parts):
    line = " | ".join(str(p) for p in parts)
    LINES.append(re.sub(r"0x[0-9a-fA-F]+", "0x?", line))


# --- snapshots ---------------------------------------------------------------


def ref_key(r):
    if isinstance(r, Reference):
        return (
            "Reference",
            r.authors,
            r.title,
            r.journal,
            r.pubmed_id,
            r.comment,
            [repr(loc) for loc in r.location],
        )
    return repr(r)


def value_key(v):
    if isinstance(v, (list, tuple)):
        return [type(v).__name__] + [ref_key(x) for x in v]
    return ref_key(v)


def feature_key(f):
    return (
        f.type,
        repr(f.location),
        f.id,
        [(k, value_key(v)) for k, v in f.qualifiers.items()],
    )


def record_key(rec):
    return (
        type(rec).__name__,
        str(rec.seq),
        rec.id,
        rec.name,
        rec.description,
        list(rec.dbxrefs),
        [(k, value_key(v)) for k, v in rec.annotations.items()],
        [feature_key(f) for f in rec.features],
        sorted((k, repr(v)) for k, v in rec.letter_annotations.items()),
    )


def identity_key(rec):
    return (
        id(rec.features),
        [id(f) for f in rec.features],
        [id(f.qualifiers) for f in rec.features],
        [id(f.qualifiers.get("citation")) for f in rec.features],
        id(rec.annotations),
        id(rec.annotations.get("references")),
    )


def shares_state(result, records):
    """Does the result share a mutable object with one of the inputs?"""
    seen = set()
    for rec in records:
        seen.add(id(rec.features))
        seen.add(id(rec.annotations))
        for ref in rec.annotations.get("references", []):
            seen.add(id(ref))
        for f in rec.features:
            seen.add(id(f))
            seen.add(id(f.qualifiers))
            for v in f.qualifiers.values():
                if isinstance(v, list):
                    seen.add(id(v))
    mine = [id(result.features), id(result.annotations)]
    mine += [id(r) for r in result.annotations.get("references", [])]
    for f in result.features:
        mine += [id(f), id(f.qualifiers)]
        mine += [id(v) for v in f.qualifiers.values() if isinstance(v, list)]
    return any(m in seen for m in mine)


def exc_key(exc):
    try:
        text = str(exc)
    except Exception as e2:  # str() of some moclo errors may fail
        text = "<str failed: {} {}>".format(type(e2).__name__, e2)
    cause = exc.__cause__
    return (
        type(exc).__name__,
        text,
        repr(getattr(exc, "args", None)) if not isinstance(exc, errors.MocloError) else "",
        "cause=" + (type(cause).__name__ if cause is not None else "None"),
        "suppress=" + str(exc.__suppress_context__),
        "context=" + (type(exc.__context__).__name__ if exc.__context__ else "None"),
    )


# --- sequence builders ----------------------------------------------------------

ENZYMES = [BpiI, BsaI, BsmBI, SapI]
_CLASSES = {}


def classes(enzyme):
    if enzyme not in _CLASSES:
        vec = type(str("Vec" + enzyme.__name__), (AbstractVector,), {"cutter": enzyme})
        mod = type(str("Mod" + enzyme.__name__), (AbstractModule,), {"cutter": enzyme})
        _CLASSES[enzyme] = (vec, mod)
    return _CLASSES[enzyme]


def sites(enzyme):
    return [enzyme.site, str(Seq(enzyme.site).reverse_complement())]


def clean_dna(n, enzyme):
    while True:
        s = "".join(RNG.choice("ACGT") for _ in range(n))
        padded = "TT" + s + "TT"
        if not any(site in padded for site in sites(enzyme)):
            return s


def overhangs(n, enzyme):
    """n distinct overhangs, none the reverse complement of another (or itself)."""
    size = abs(enzyme.ovhg)
    out = []
    while len(out) < n:
        o = "".join(RNG.choice("ACGT") for _ in range(size))
        rc = str(Seq(o).reverse_complement())
        if o in out or rc in out or o == rc:
            continue
        out.append(o)
    return out


def fill(pattern, groups, enzyme):
    """Instantiate a structure() pattern with the given contents of groups 1-3."""
    out, depth, k, i = [], 0, 0, 0
    while i < len(pattern):
        c = pattern[i]
        if c == "(":
            k += 1
            depth += 1
            out.append(groups[k - 1])
        elif c == ")":
            depth -= 1
        elif depth == 0:
            if c == "*":
                pass
            elif c == "N":
                out.append("T")
            else:
                out.append(c)
        i += 1
    return "".join(out)


def module_seq(enzyme, start, target, end, backbone):
    _, mod = classes(enzyme)
    return fill(mod.structure(), [start, target, end], enzyme) + backbone


def vector_seq(enzyme, end_oh, start_oh, backbone, dropout):
    vec, _ = classes(enzyme)
    pattern = vec.structure()
    # group 2 is the placeholder: NN<rev site>N*<site>NN
    inner = pattern[pattern.index(")(") + 2 : pattern.rindex(")(")]
    placeholder = inner.replace("N*", dropout).replace("N", "A")
    return fill(pattern, [end_oh, placeholder, start_oh], enzyme) + backbone


def mix_case(seq, mode):
    if mode == "upper":
        return seq
    if mode == "lower":
        return seq.lower()
    return "".join(c.lower() if RNG.random() < 0.5 else c for c in seq)


def make_reference(tag, n):
    ref = Reference()
    ref.authors = "Author {}".format(tag)
    ref.title = "Title {} {}".format(tag, n)
    ref.journal = "J. Irreproducible Results {}".format(n)
    ref.pubmed_id = str(1000 + n)
    ref.location = [FeatureLocation(0, 10 + n)]
    return ref


def random_location(length):
    kind = RNG.random()
    a = RNG.randrange(0, length - 1)
    b = RNG.randrange(a + 1, length + 1)
    strand = RNG.choice([1, -1, None])
    if kind < 0.7:
        return FeatureLocation(a, b, strand)
    if kind < 0.85:  # wraps the origin
        return CompoundLocation(
            [FeatureLocation(b - 1, length, strand), FeatureLocation(0, a + 1, strand)]
        )
    c = RNG.randrange(0, length - 1)
    d = RNG.randrange(c + 1, length + 1)
    return CompoundLocation([FeatureLocation(a, b, strand), FeatureLocation(c, d, strand)])


def decorate(record, tag, cite_mode):
    """Add features, references and citation qualifiers to a record."""
    length = len(record)
    nfeat = RNG.randrange(0, 5)
    for n in range(nfeat):
        quals = collections.OrderedDict()
        quals["label"] = ["{}-f{}".format(tag, n)]
        if RNG.random() < 0.3:
            quals["note"] = ["a note", "another"]
        record.features.append(
            SeqFeature(random_location(length), type=RNG.choice(["CDS", "misc_feature", "promoter"]), id="{}{}".format(tag, n), qualifiers=quals)
        )
    if RNG.random() < 0.4:
        record.features.append(
            SeqFeature(FeatureLocation(0, length), type="source", qualifiers={"organism": ["x"]})
        )
    # a feature that spans exactly the whole target is added by the caller
    if cite_mode == "none":
        return
    nrefs = RNG.randrange(1, 4)
    refs = [make_reference(tag, n) for n in range(nrefs)]
    if cite_mode == "dupref" and nrefs > 1:
        refs[1] = make_reference(tag, 0)  # equal to refs[0]
    if cite_mode != "noreflist":
        record.annotations["references"] = refs
    for f in record.features:
        if f.type == "source" and RNG.random() < 0.5:
            continue
        r = RNG.random()
        if r < 0.6:
            f.qualifiers["citation"] = ["[{}]".format(RNG.randrange(1, nrefs + 1))]
        elif r < 0.8:
            f.qualifiers["citation"] = [
                "[{}]".format(RNG.randrange(1, nrefs + 1)) for _ in range(RNG.randrange(2, 4))
            ]
    if cite_mode == "invalid" and record.features:
        f = RNG.choice(record.features)
        f.qualifiers["citation"] = [RNG.choice(["[x]", "1", "[]", "[0]", "[9]", "[1] and more", " [1]"])]


def make_record(seq, tag, kind, rotate, case, cite_mode, span_feature=None):
    seq = mix_case(seq, case)
    base = CircularRecord(Seq(seq), id=tag, name=tag + "_name", description=tag + " description")
    base.annotations["molecule_type"] = "DNA"
    base.dbxrefs.append("db:" + tag)
    if span_feature is not None:
        a, b = span_feature
        quals = collections.OrderedDict([("label", [tag + "-core"])])
        if cite_mode not in ("none", "noreflist"):
            quals["citation"] = ["[1]"]
        base.features.append(SeqFeature(FeatureLocation(a, b, 1), type="misc_feature", qualifiers=quals))
    decorate(base, tag, cite_mode)
    if RNG.random() < 0.3:
        base.letter_annotations["phred_quality"] = [RNG.randrange(40) for _ in range(len(base))]
    if rotate:
        base = base >> rotate
    if kind == "circular":
        return base
    rec = SeqRecord(
        base.seq,
        id=base.id,
        name=base.name,
        description=base.description,
        dbxrefs=base.dbxrefs,
        features=base.features,
        annotations=base.annotations,
        letter_annotations=dict(base.letter_annotations),
    )
    if kind == "seqrecord-circular":
        rec.annotations["topology"] = "circular"
    elif kind == "seqrecord-CIRCULAR":
        rec.annotations["topology"] = "Circular"
    elif kind == "seqrecord-linear":
        rec.annotations["topology"] = "linear"
    return rec


# --- faulty module classes ---------------------------------------------------------


def faulty_class(base, exc_factory):
    def target_sequence(self):
        raise exc_factory()

    return type(str("Faulty" + base.__name__), (base,), {"target_sequence": target_sequence})


FAULTS = [
    lambda: RuntimeError("extraction failed"),
    lambda: KeyError("boom"),
    lambda: KeyError(),
    lambda: ValueError("bad fragment"),
    lambda: errors.InvalidSequence("xyz", details="became invalid"),
    lambda: StopIteration("stop"),
]


# --- scenario runner -----------------------------------------------------------


def run_call(label, vector, modules, kwargs, inputs, warn_mode="record"):
    before_ids = [identity_key(r) for r in inputs]
    with warnings.catch_warnings(record=True) as caught:
        warnings.simplefilter("error" if warn_mode == "error" else "always")
        try:
            result = vector.assemble(*modules, **kwargs)
        except BaseException as exc:  # noqa
            outcome = ("raised",) + exc_key(exc)
            COUNTS["raised " + type(exc).__name__] += 1
            result = None
        else:
            outcome = ("ok", record_key(result), "shares=" + str(shares_state(result, inputs)))
            COUNTS["ok"] += 1
    warned = [(w.category.__name__, str(w.message)) for w in caught]
    if warned:
        COUNTS["warned"] += 1
    emit(label, "outcome", outcome)
    emit(label, "warnings", warned)
    for n, rec in enumerate(inputs):
        emit(label, "input", n, record_key(rec))
    emit(label, "identity-stable", [identity_key(r) for r in inputs] == before_ids)
    return result


def build_chain(enzyme, n, rotate_mode, case, kind_mode, cite_mode):
    vec_cls, mod_cls = classes(enzyme)
    ohs = overhangs(n + 1, enzyme)
    records = []
    # vector
    backbone = clean_dna(RNG.randrange(20, 60), enzyme)
    vseq = vector_seq(enzyme, ohs[0], ohs[n], backbone, clean_dna(RNG.randrange(0, 12), enzyme))
    kinds = ["circular", "seqrecord", "seqrecord-circular", "seqrecord-CIRCULAR"]

    def kind():
        if kind_mode == "circular" or RNG.random() < 0.8:
            return "circular"
        return RNG.choice(kinds)

    def rot(length):
        if rotate_mode == "none":
            return 0
        if rotate_mode == "wrap":  # bring the end of the match over the origin
            return RNG.randrange(1, 12)
        return RNG.randrange(0, length)

    vrec = make_record(vseq, "vec", kind(), rot(len(vseq)), case, cite_mode)
    mods = []
    for k in range(n):
        target = clean_dna(RNG.randrange(2, 40), enzyme)
        mseq = module_seq(enzyme, ohs[k], target, ohs[k + 1], clean_dna(RNG.randrange(10, 40), enzyme))
        start = mseq.index(target)
        mrec = make_record(
            mseq, "mod{}".format(k), kind(), rot(len(mseq)), case, cite_mode,
            span_feature=(start, start + len(target)),
        )
        mods.append(mrec)
    return vec_cls, mod_cls, vrec, mods, ohs


def scenario(num):
    enzyme = RNG.choice(ENZYMES)
    n = RNG.choice([1, 2, 2, 3, 3, 4])
    rotate_mode = RNG.choice(["none", "wrap", "any"])
    case = RNG.choice(["upper", "lower", "mixed"])
    kind_mode = RNG.choice(["circular", "circular", "mixed"])
    cite_mode = RNG.choice(
        ["none"] * 4 + ["cited"] * 10 + ["dupref"] * 2 + ["noreflist"] + ["invalid"] * 3
    )
    failure = RNG.choice(
        ["none"] * 6
        + ["missing"] * 3
        + ["fault"] * 3
        + ["duplicate-start", "duplicate-rc", "unused", "invalid-vector", "invalid-module"]
        + ["illegal-site", "unused-error", "shared-record", "linear-module"]
    )
    label = "S{:03d} {} n={} rot={} case={} kind={} cite={} fail={}".format(
        num, enzyme.__name__, n, rotate_mode, case, kind_mode, cite_mode, failure
    )
    vec_cls, mod_cls, vrec, mrecs, ohs = build_chain(enzyme, n, rotate_mode, case, kind_mode, cite_mode)
    inputs = [vrec] + list(mrecs)
    warn_mode = "record"
    kwargs = {}
    if num % 5 == 0:
        kwargs = {"id": "construct{}".format(num), "name": "c{}".format(num)}
    elif num % 5 == 1:
        kwargs = {"name": "only_name"}

    vector = vec_cls(vrec)
    modules = [mod_cls(r) for r in mrecs]
    retry_modules = None

    if failure == "missing":
        j = RNG.randrange(0, n)
        retry_modules = list(modules)
        modules = modules[:j] + modules[j + 1 :]
        if not modules:  # assemble() needs at least one module: use an unrelated one
            other = make_record(
                module_seq(enzyme, *overhangs(2, enzyme)[:1] + ["ACGTAC"] + overhangs(1, enzyme), backbone="TTTTTTTTTT"),
                "stray", "circular", 0, case, cite_mode,
            )
            inputs.append(other)
            modules = [mod_cls(other)]
    elif failure == "duplicate-start":
        j = RNG.randrange(0, n)
        dup = make_record(
            module_seq(enzyme, ohs[j], clean_dna(8, enzyme), ohs[j + 1], clean_dna(15, enzyme)),
            "dup", "circular", RNG.randrange(0, 20), case, cite_mode,
        )
        inputs.append(dup)
        retry_modules = list(modules)
        modules = modules + [mod_cls(dup)]
        RNG.shuffle(modules)
    elif failure == "duplicate-rc":
        j = RNG.randrange(0, n)
        rc = str(Seq(ohs[j]).reverse_complement())
        dup = make_record(
            module_seq(enzyme, rc, clean_dna(8, enzyme), overhangs(1, enzyme)[0], clean_dna(15, enzyme)),
            "rcdup", "circular", RNG.randrange(0, 20), case, cite_mode,
        )
        inputs.append(dup)
        retry_modules = list(modules)
        modules = modules + [mod_cls(dup)]
        RNG.shuffle(modules)
    elif failure in ("unused", "unused-error"):
        a, b = overhangs(2, enzyme)
        extra = make_record(
            module_seq(enzyme, a, clean_dna(8, enzyme), b, clean_dna(15, enzyme)),
            "extra", "circular", RNG.randrange(0, 20), case, cite_mode,
        )
        inputs.append(extra)
        modules = modules + [mod_cls(extra)]
        RNG.shuffle(modules)
        if failure == "unused-error":
            warn_mode = "error"
            retry_modules = [m for m in modules if m.record is not extra]
    elif failure == "invalid-vector":
        bad = make_record(
            vector_seq(enzyme, ohs[0], mix_case(ohs[0], case), clean_dna(30, enzyme), "ACGT"),
            "badvec", "circular", RNG.randrange(0, 20), case, cite_mode,
        )
        inputs[0] = bad
        vector = vec_cls(bad)
    elif failure == "invalid-module":
        j = RNG.randrange(0, n)
        bad = make_record(clean_dna(50, enzyme), "nosite", "circular", 0, case, cite_mode)
        inputs.append(bad)
        retry_modules = list(modules)
        modules = modules[:j] + [mod_cls(bad)] + modules[j + 1 :]
    elif failure == "illegal-site":
        j = RNG.randrange(0, n)
        target = clean_dna(6, enzyme) + enzyme.site + clean_dna(6, enzyme)
        bad = make_record(
            module_seq(enzyme, ohs[j], target, ohs[j + 1], clean_dna(15, enzyme)),
            "illegal", "circular", 0, case, cite_mode,
        )
        inputs.append(bad)
        retry_modules = list(modules)
        modules = modules[:j] + [mod_cls(bad)] + modules[j + 1 :]
    elif failure == "fault":
        j = RNG.randrange(0, n)
        fault = RNG.choice(FAULTS)
        retry_modules = list(modules)
        modules = list(modules)
        modules[j] = faulty_class(mod_cls, fault)(mrecs[j])
        label += " fault={}@{}".format(type(fault()).__name__, j)
    elif failure == "shared-record":
        # the same record object wrapped twice (as two module objects)
        modules = modules + [mod_cls(mrecs[0])]
    elif failure == "linear-module":
        j = RNG.randrange(0, n)
        mrecs[j].annotations["topology"] = "linear"
        if isinstance(mrecs[j], CircularRecord):
            lin = SeqRecord(mrecs[j].seq, id=mrecs[j].id, name=mrecs[j].name,
                            features=mrecs[j].features, annotations=mrecs[j].annotations)
            inputs[1 + j] = lin
            modules[j] = mod_cls(lin)

    order = list(modules)
    if num % 3 == 0:
        RNG.shuffle(order)
    run_call(label + " #1", vector, order, kwargs, inputs, warn_mode)
    # the same call again, on the same objects
    run_call(label + " #2", vector, order, kwargs, inputs, warn_mode)
    # retry with corrected modules (same record objects, same wrappers)
    if retry_modules is not None:
        run_call(label + " #retry", vector, retry_modules, kwargs, inputs, "record")
    # and fresh wrappers around the same records
    if num % 4 == 0:
        fresh = [type(m)(m.record) for m in order]
        run_call(label + " #fresh", type(vector)(vector.record), fresh, kwargs, inputs, warn_mode)


# --- direct checks of the supporting public API --------------------------------------


def direct_record_checks():
    for num in range(120):
        length = RNG.randrange(8, 60)
        rec = CircularRecord(Seq(clean_dna(length, BpiI)), id="r{}".format(num), name="n", description="d")
        rec.annotations["topology"] = RNG.choice(["circular", "Circular"])
        rec.annotations["molecule_type"] = "DNA"
        rec.dbxrefs.append("x:1")
        decorate(rec, "r{}".format(num), RNG.choice(["none", "cited", "dupref"]))
        if RNG.random() < 0.2:
            rec.features.append(SeqFeature(None, type="gap", qualifiers={"k": ["v"]}))
        if RNG.random() < 0.3:
            rec.features.append(SeqFeature(FeatureLocation(0, length), type="source"))
        if RNG.random() < 0.3:
            rec.features.append(SeqFeature(
                CompoundLocation([FeatureLocation(0, length), FeatureLocation(0, 3)]), type="source"))
        if RNG.random() < 0.4:
            rec.letter_annotations["q"] = list(range(length))
        before = record_key(rec)
        for shift in [0, 1, length - 1, length, length + 3, -2, RNG.randrange(0, 3 * length), -RNG.randrange(0, 3 * length)]:
            for op in (">>", "<<"):
                label = "R{:03d} {} {}".format(num, op, shift)
                try:
                    out = (rec >> shift) if op == ">>" else (rec << shift)
                except Exception as exc:
                    emit(label, "raised", exc_key(exc))
                    continue
                emit(label, record_key(out), out is rec,
                     [a.qualifiers is b.qualifiers for a, b in zip(out.features, rec.features)],
                     out.annotations is rec.annotations, out.dbxrefs is rec.dbxrefs)
        for index in [0, -1, length - 1, length, slice(None), slice(2, 5), slice(-4, None), slice(None, None, 2),
                      slice(5, 2), slice(None, None, -1), "x"]:
            label = "R{:03d} [{}]".format(num, index)
            try:
                with warnings.catch_warnings(record=True) as caught:
                    warnings.simplefilter("always")
                    out = rec[index]
            except Exception as exc:
                emit(label, "raised", exc_key(exc))
                continue
            if isinstance(out, SeqRecord):
                emit(label, record_key(out), shares_state(out, [rec]), [str(w.message) for w in caught])
            else:
                emit(label, repr(out))
        for op in (lambda: rec + "A", lambda: "A" + rec, lambda: rec + rec):
            try:
                op()
            except Exception as exc:
                emit("R{:03d} add".format(num), exc_key(exc))
        emit("R{:03d} in".format(num), str(rec.seq[-2:] + rec.seq[:2]) in rec, "Z" in rec, (str(rec.seq) * 2) in rec)
        try:
            rc = rec.reverse_complement(id=True)
            emit("R{:03d} rc".format(num), record_key(rc))
        except Exception as exc:
            emit("R{:03d} rc".format(num), exc_key(exc))
        emit("R{:03d} untouched".format(num), record_key(rec) == before)


def direct_utils_checks():
    for num in range(30):
        src = SeqRecord(Seq("ACGT"), id="src{}".format(num))
        dst = SeqRecord(Seq(clean_dna(RNG.randrange(0, 20), BpiI)), id="dst")
        decorate(dst, "d", "none") if len(dst) > 3 else None
        loc = [None, FeatureLocation(1, 3), FeatureLocation(2, 2), FeatureLocation(0, 0, -1)][num % 4]
        out = add_as_source(src, dst, loc) if num % 2 else add_as_source(src, dst, location=loc)
        emit("U{:02d} add_as_source".format(num), out is dst, record_key(dst), record_key(src))
    for cutter, name in [(NotImplemented, "Thing"), (EcoRV, "Blunt"), (BpiI, "Fine"), (BsaI, "Fine2")]:
        try:
            emit("U cutter_check", name, cutter_check(cutter, name))
        except Exception as exc:
            emit("U cutter_check", name, exc_key(exc))
    for obj in [object()]:
        try:
            add_as_source(obj, SeqRecord(Seq("AC")))
        except Exception as exc:
            emit("U add_as_source bad src", exc_key(exc))
        try:
            add_as_source(SeqRecord(Seq("AC"), id="q"), obj)
        except Exception as exc:
            emit("U add_as_source bad dst", exc_key(exc))


def main():
    for num in range(400):
        state = RNG.getstate()
        try:
            scenario(num)
        except Exception as exc:  # a scenario that cannot even be built
            emit("S{:03d} builder failed".format(num), type(exc).__name__, exc)
            COUNTS["builder failed"] += 1
        del state
    direct_record_checks()
    direct_utils_checks()
    digest = hashlib.sha256("\n".join(LINES).encode("utf-8")).hexdigest()
    if "--dump" in sys.argv:
        with open(sys.argv[sys.argv.index("--dump") + 1], "w") as fh:
            fh.write("\n".join(LINES) + "\n")
    print("lines:", len(LINES))
    for key in sorted(COUNTS):
        print("  {:32s} {}".format(key, COUNTS[key]))
    print("DIGEST", digest)


if __name__ == "__main__":
    main()
