# coding: utf-8
"""Differential test for the provenance / annotation code of moclo assemblies.

Run as: cd /tmp/agents5/C09 && /venv/bin/python pairs_out/C09_p2/equiv.py

Exercises (public API only, plus ``moclo.core._utils.add_as_source`` /
``cutter_check`` and ``AssemblyManager``) on a few hundred generated inputs and
prints a digest of every result, exception (type + message), warning and of
the state of the inputs afterwards.  The digest has to be identical before and
after a behaviour-preserving refactoring.
"""
import sys

sys.path.insert(0, "/tmp/agents5/C09")
import tests  # noqa: F401,E402  (splices the kits into the moclo namespace)

import copy  # noqa: E402
import hashlib  # noqa: E402
import io  # noqa: E402
import random  # noqa: E402
import re  # noqa: E402
import warnings  # noqa: E402

warnings.filterwarnings("ignore", message="pkg_resources is deprecated")

from Bio import SeqIO  # noqa: E402
from Bio.Restriction import BpiI, BsaI, BsmBI, BtsI  # noqa: E402
from Bio.Seq import Seq  # noqa: E402
from Bio.SeqFeature import (  # noqa: E402
    CompoundLocation,
    FeatureLocation,
    Reference,
    SeqFeature,
)
from Bio.SeqRecord import SeqRecord  # noqa: E402

from moclo.core._assembly import AssemblyManager  # noqa: E402
from moclo.core._utils import add_as_source, cutter_check  # noqa: E402
from moclo.core.modules import AbstractModule  # noqa: E402
from moclo.core.vectors import AbstractVector  # noqa: E402
from moclo.record import CircularRecord  # noqa: E402

# --------------------------------------------------------------------------
# mock kits


class BpiVector(AbstractVector):
    cutter = BpiI


class BpiModule(AbstractModule):
    cutter = BpiI


class BsaVector(AbstractVector):
    cutter = BsaI


class BsaModule(AbstractModule):
    cutter = BsaI


class BsmVector(AbstractVector):
    cutter = BsmBI


class BsmModule(AbstractModule):
    cutter = BsmBI


class BtsVector(AbstractVector):
    """A vector cut by an enzyme that leaves 3' overhangs."""

    cutter = BtsI

    @classmethod
    def structure(cls):
        return "(NN)(CACTGCN*GCAGTG)(NN)"


class BtsModule(AbstractModule):
    """A module cut by an enzyme that leaves 3' overhangs."""

    cutter = BtsI

    @classmethod
    def structure(cls):
        return "GCAGTG(NN)(NN*N)(NN)CACTGC"


SITES = ["GAAGAC", "GGTCTC", "CGTCTC", "GCAGTG"]
FORBIDDEN = SITES + [str(Seq(s).reverse_complement()) for s in SITES]

KITS = {
    "bpi": dict(V=BpiVector, M=BpiModule, site="GAAGAC", gap=2, ovl=4, five=True),
    "bsa": dict(V=BsaVector, M=BsaModule, site="GGTCTC", gap=1, ovl=4, five=True),
    "bsm": dict(V=BsmVector, M=BsmModule, site="CGTCTC", gap=1, ovl=4, five=True),
    "bts": dict(V=BtsVector, M=BtsModule, site="GCAGTG", gap=0, ovl=2, five=False),
}


def rc(s):
    return str(Seq(s).reverse_complement())


# --------------------------------------------------------------------------
# generators


def clean_dna(rng, n):
    while True:
        s = "".join(rng.choice("ACGT") for _ in range(n))
        if not any(f in s for f in FORBIDDEN):
            return s


def n_sites(seq):
    d = (seq + seq[:5]).upper()
    return sum(d.count(f) for f in FORBIDDEN)


def overhangs(rng, n, k):
    """n distinct k-mers, none palindromic, none the reverse complement of another."""
    out = []
    while len(out) < n:
        o = "".join(rng.choice("ACGT") for _ in range(k))
        if o == rc(o) or o in out or rc(o) in out:
            continue
        out.append(o)
    return out


def mixcase(rng, s, mode):
    if mode == "upper":
        return s
    if mode == "lower":
        return s.lower()
    return "".join(c.lower() if rng.random() < 0.5 else c for c in s)


def module_seq(rng, kit, o1, o2, tlen, blen):
    k = KITS[kit]
    for _ in range(200):
        target = clean_dna(rng, tlen)
        s = (
            k["site"]
            + clean_dna(rng, k["gap"])
            + o1
            + target
            + o2
            + clean_dna(rng, k["gap"])
            + rc(k["site"])
            + clean_dna(rng, blen)
        )
        if n_sites(s) == 2:
            return s
    raise RuntimeError("cannot build module")


def vector_seq(rng, kit, o_first, o_last, dlen, blen, inner=None):
    """A vector whose placeholder is flanked by o_first (5') and o_last (3').

    ``inner`` = (kit2, oa, ob) embeds next-level sites so the product is a
    module of kit2 with overhangs oa -> ob.
    """
    k = KITS[kit]
    for _ in range(200):
        pre, post = clean_dna(rng, 1), clean_dna(rng, 1)
        if not k["five"]:
            pre = post = ""
        core = (
            pre
            + o_first
            + clean_dna(rng, k["gap"])
            + rc(k["site"])
            + clean_dna(rng, dlen)
            + k["site"]
            + clean_dna(rng, k["gap"])
            + o_last
            + post
        )
        if inner is not None:
            k2 = KITS[inner[0]]
            left = k2["site"] + clean_dna(rng, k2["gap"]) + inner[1] + clean_dna(rng, 3)
            right = clean_dna(rng, 3) + inner[2] + clean_dna(rng, k2["gap"]) + rc(k2["site"])
            s = left + core + right + clean_dna(rng, blen)
            want = 4
        else:
            s = core + clean_dna(rng, blen)
            want = 2
        if n_sites(s) == want:
            return s
    raise RuntimeError("cannot build vector")


def make_ref(title):
    r = Reference()
    r.title = title
    r.authors = "Doe J."
    r.journal = "J. Irreproducible Results"
    return r


def decorate(rng, rec, citations=None):
    """Add features (some with citations) and annotations to a record, in place."""
    n = len(rec)
    refs = [make_ref("ref {} of {}".format(i, rec.id)) for i in range(rng.randint(0, 3))]
    if refs or rng.random() < 0.3:
        rec.annotations["references"] = refs
    if rng.random() < 0.5:
        rec.annotations["molecule_type"] = "DNA"
    if rng.random() < 0.5:
        rec.annotations["topology"] = rng.choice(["circular", "Circular"])
    if rng.random() < 0.4:
        rec.features.append(
            SeqFeature(FeatureLocation(0, n), type="source", qualifiers={"organism": ["x"]})
        )
    for j in range(rng.randint(0, 5)):
        a = rng.randrange(0, n - 1)
        b = rng.randrange(a + 1, min(n, a + 25) + 1)
        strand = rng.choice([1, -1, None])
        if rng.random() < 0.2 and b - a > 4:
            mid = (a + b) // 2
            loc = CompoundLocation(
                [FeatureLocation(a, mid - 1, strand), FeatureLocation(mid + 1, b, strand)]
            )
        else:
            loc = FeatureLocation(a, b, strand)
        quals = {"label": ["f{}".format(j)]}
        if citations != "none" and refs and rng.random() < 0.6:
            quals["citation"] = [
                "[{}]".format(rng.randint(1, len(refs))) for _ in range(rng.randint(1, 2))
            ]
        rec.features.append(
            SeqFeature(loc, type=rng.choice(["CDS", "misc_feature", "promoter", "source"]),
                       id="id{}".format(j), qualifiers=quals)
        )
    if citations == "bad":
        rec.features.append(
            SeqFeature(FeatureLocation(0, 2), type="misc_feature",
                       qualifiers={"citation": [rng.choice(["(1)", "ref1", "[]", "[99]"])]})
        )
    return rec


def rotated_text(s, k):
    k %= len(s)
    return s[k:] + s[:k]


def build_case(rng, kit, nmods, case_mode="upper", rotate=True, deco=True, inner=None,
               prefix="", citations=None, plain=False):
    """Return (vector, [modules]) wrappers for a well-formed assembly."""
    k = KITS[kit]
    ovs = overhangs(rng, nmods + 1, k["ovl"])
    recs = []
    for i in range(nmods):
        s = module_seq(rng, kit, ovs[i], ovs[i + 1], rng.randint(3, 40), rng.randint(5, 30))
        if rotate:
            s = rotated_text(s, rng.randrange(len(s)))
        s = mixcase(rng, s, case_mode)
        rec = CircularRecord(Seq(s), id="{}mod{}".format(prefix, i + 1), name="m{}".format(i + 1))
        if deco:
            decorate(rng, rec, citations)
        recs.append(k["M"](rec))
    s = vector_seq(rng, kit, ovs[0], ovs[-1], rng.randint(0, 30), rng.randint(5, 40), inner)
    if rotate:
        s = rotated_text(s, rng.randrange(len(s)))
    s = mixcase(rng, s, case_mode)
    vrec = CircularRecord(Seq(s), id="{}vec".format(prefix), name="v")
    if deco:
        decorate(rng, vrec, citations)
    return k["V"](vrec), recs


# --------------------------------------------------------------------------
# digest helpers


def show_value(v):
    if isinstance(v, Reference):
        return "Reference<{}|{}|{}|{}>".format(v.title, v.authors, v.journal, v.location)
    if isinstance(v, (list, tuple)):
        return "[" + ", ".join(show_value(x) for x in v) + "]"
    if isinstance(v, dict):
        return "{" + ", ".join("{}: {}".format(k, show_value(x)) for k, x in v.items()) + "}"
    return repr(v)


def show_feature(f):
    return "{}|{!r}|{}|{}".format(f.type, f.location, f.id, show_value(dict(f.qualifiers)))


def show_record(r):
    if r is None:
        return "None"
    return "\n".join(
        [
            type(r).__name__,
            str(r.seq),
            repr(r.id),
            repr(r.name),
            repr(r.description),
            show_value(list(r.dbxrefs)),
            show_value(dict(r.annotations)),
            show_value(dict(r.letter_annotations)),
        ]
        + [show_feature(f) for f in r.features]
    )


def genbank(r):
    buf = io.StringIO()
    with warnings.catch_warnings():
        warnings.simplefilter("ignore")
        SeqIO.write(r, buf, "genbank")
    return buf.getvalue()


class Digest(object):
    def __init__(self):
        self.total = hashlib.sha256()
        self.sections = []
        self.cur = None
        self.count = 0

    def section(self, name):
        self.cur = [name, hashlib.sha256(), 0]
        self.sections.append(self.cur)

    def add(self, *items):
        text = "\x1e".join(str(i) for i in items) + "\x1f"
        data = text.encode("utf-8")
        self.total.update(data)
        self.cur[1].update(data)
        self.cur[2] += 1
        self.count += 1

    def report(self):
        for name, h, n in self.sections:
            print("{:<28} {:>5} items  {}".format(name, n, h.hexdigest()[:24]))
        print("TOTAL {} items".format(self.count))
        print("DIGEST", self.total.hexdigest())


def run(fn):
    """Call fn, return a description of result / exception and of warnings."""
    with warnings.catch_warnings(record=True) as caught:
        warnings.simplefilter("always")
        try:
            res = ("ok", fn())
        except Exception as e:  # noqa
            msg = re.sub(r" at 0x[0-9a-fA-F]+", "", "{}: {}".format(type(e).__name__, e))
            res = ("exc", msg)
    warns = ["{}: {}".format(w.category.__name__, w.message) for w in caught]
    return res, warns


D = Digest()


def state(entities):
    return "\n--\n".join(show_record(e.record) for e in entities)


def do_assembly(tag, vector, modules, with_gb=False, **kwargs):
    """Assemble, digest everything observable, return the product (or None)."""
    (kind, val), warns = run(lambda: vector.assemble(*modules, **kwargs))
    if kind == "ok":
        D.add(tag, "product", show_record(val), warns)
        if with_gb:
            (gk, gv), _ = run(lambda: genbank(val))
            D.add(tag, "genbank", gk, gv)
    else:
        D.add(tag, "error", val, warns)
    D.add(tag, "inputs-after", state(list(modules) + [vector]))
    return val if kind == "ok" else None


# --------------------------------------------------------------------------
# 1. add_as_source / cutter_check


def section_utils():
    D.section("utils")
    rng = random.Random(101)
    for i in range(60):
        n = rng.randint(0, 30)
        dst_cls = rng.choice([SeqRecord, CircularRecord])
        dst = dst_cls(Seq(clean_dna(rng, n)), id="dst{}".format(i))
        if rng.random() < 0.5 and n > 2:
            dst.features.append(SeqFeature(FeatureLocation(0, 2), type="misc_feature"))
        src = CircularRecord(Seq(clean_dna(rng, rng.randint(1, 50))), id="src{}".format(i))
        choice = rng.randrange(5)
        if choice == 0:
            args = ()
        elif choice == 1:
            args = (None,)
        elif choice == 2:
            args = (FeatureLocation(rng.randint(0, 3), rng.randint(3, 9), rng.choice([1, -1, None])),)
        elif choice == 3:
            args = (FeatureLocation(2, 2),)  # zero length: falsy
        else:
            args = (CompoundLocation([FeatureLocation(0, 1), FeatureLocation(2, 4)]),)
        (kind, val), warns = run(lambda: add_as_source(src, dst, *args))
        D.add("add_as_source", i, kind, val is dst, show_record(dst), show_record(src), warns)
        # the returned qualifiers are independent objects
        if dst.features:
            dst.features[-1].qualifiers["touched"] = i
    # several calls in a row: every feature keeps its own qualifiers
    dst = SeqRecord(Seq("ATGCATGCAT"), id="dst")
    for name in ("a", "b", "c"):
        add_as_source(SeqRecord(Seq("ATGC"), id=name), dst)
    D.add("add_as_source-seq", show_record(dst))
    (kind, val), _ = run(lambda: add_as_source(object(), SeqRecord(Seq("A"))))
    D.add("add_as_source-noid", kind, val)
    (kind, val), _ = run(lambda: add_as_source(SeqRecord(Seq("A"), id="x"), object()))
    D.add("add_as_source-nolen", kind, val)
    (kind, val), _ = run(lambda: add_as_source(SeqRecord(Seq("A"), id="x"), dst, location=FeatureLocation(1, 3)))
    D.add("add_as_source-kw", kind, show_record(dst))

    from Bio.Restriction import EcoRV, EcoRI, NotI  # blunt, 5', 5'

    class Unknown(object):
        @staticmethod
        def is_blunt():
            return False

        @staticmethod
        def is_unknown():
            return True

    for cutter in (NotImplemented, EcoRV, EcoRI, NotI, BsaI, BtsI, Unknown):
        (kind, val), _ = run(lambda: cutter_check(cutter, "Thing"))
        D.add("cutter_check", getattr(cutter, "__name__", str(cutter)), kind, val)

    class NoCutterV(AbstractVector):
        pass

    class BluntM(AbstractModule):
        cutter = EcoRV

    for cls in (NoCutterV, BluntM, AbstractModule, AbstractVector):
        (kind, val), _ = run(lambda: cls(CircularRecord(Seq("ATGC"), id="x")))
        D.add("new", cls.__name__, kind, val if kind == "exc" else type(val).__name__)


# --------------------------------------------------------------------------
# 2. CircularRecord rotation and slicing


def section_record():
    D.section("record")
    rng = random.Random(202)
    for i in range(120):
        n = rng.randint(1, 40)
        rec = CircularRecord(Seq(mixcase(rng, clean_dna(rng, n), rng.choice(["upper", "mixed"]))),
                             id="r{}".format(i), name="n{}".format(i), description="d")
        if n >= 3:
            decorate(rng, rec, "none")
        if rng.random() < 0.3:
            rec.features.append(SeqFeature(None, type="misc_feature", id="noloc"))
        if rng.random() < 0.3:
            # whole-length compound source feature, and a source that only ends at len
            rec.features.append(SeqFeature(
                CompoundLocation([FeatureLocation(0, max(1, n // 2)), FeatureLocation(max(1, n // 2), n)])
                if n >= 2 else FeatureLocation(0, n), type="source", id="cmp"))
            rec.features.append(SeqFeature(FeatureLocation(n // 2, n), type="source", id="tail"))
            rec.features.append(SeqFeature(FeatureLocation(0, max(1, n // 2)), type="source", id="head"))
        if rng.random() < 0.3:
            rec.letter_annotations["phred_quality"] = [rng.randint(0, 40) for _ in range(n)]
        if rng.random() < 0.3:
            rec.dbxrefs.append("db:{}".format(i))
        before = show_record(rec)
        for idx in (0, 1, n - 1, n, n + 3, -1, -n, rng.randint(-100, 100), 2 * n + 1):
            for op in (">>", "<<"):
                (kind, val), warns = run(
                    lambda: (rec >> idx) if op == ">>" else (rec << idx)
                )
                if kind == "ok":
                    shared = [a.qualifiers is b.qualifiers for a, b in zip(rec.features, val.features)]
                    D.add("rot", i, op, idx, val is rec, show_record(val), shared,
                          val.annotations is rec.annotations, val.dbxrefs is rec.dbxrefs, warns)
                    # rotating twice (features now may run past the end)
                    (k2, v2), _ = run(lambda: val >> 3)
                    D.add("rot2", i, op, idx, k2, show_record(v2) if k2 == "ok" else v2)
                    (k3, v3), _ = run(lambda: val[: max(1, n // 2)])
                    D.add("rot-slice", i, op, idx, k3, show_record(v3) if k3 == "ok" else v3)
                else:
                    D.add("rot", i, op, idx, val, warns)
        for sl in (slice(None), slice(0, n // 2), slice(n // 3, None), slice(None, None, -1),
                   slice(1, n, 2), 0, -1, n):
            (kind, val), warns = run(lambda: rec[sl])
            if kind == "ok" and isinstance(val, SeqRecord):
                D.add("slice", i, str(sl), show_record(val),
                      [a.qualifiers is b.qualifiers for a in rec.features for b in val.features][:3])
            else:
                D.add("slice", i, str(sl), kind, val)
        D.add("unchanged", i, before == show_record(rec))
        (kind, val), _ = run(lambda: rec.reverse_complement())
        D.add("revcomp", i, kind, show_record(val) if kind == "ok" else val)
        (kind, val), _ = run(lambda: ("AT" in rec, rec.seq[:2] in rec, "N" * (n + 1) in rec))
        D.add("contains", i, kind, val)
    empty = CircularRecord(Seq(""), id="empty")
    for op in (lambda: empty >> 1, lambda: empty << 1, lambda: empty + empty,
               lambda: "A" + empty,
               lambda: CircularRecord(SeqRecord(Seq("AT"), annotations={"topology": "linear"})),
               lambda: show_record(CircularRecord(SeqRecord(Seq("AT"), id="q", annotations={"topology": "CIRCULAR"})))):
        (kind, val), _ = run(op)
        D.add("record-misc", kind, val)


# --------------------------------------------------------------------------
# 3. structured records: overhangs, target / placeholder sequences


def section_structured():
    D.section("structured")
    rng = random.Random(303)
    for i in range(60):
        kit = rng.choice(sorted(KITS))
        mode = rng.choice(["upper", "lower", "mixed"])
        vector, modules = build_case(rng, kit, rng.randint(1, 3), case_mode=mode)
        for ent in modules + [vector]:
            before = show_record(ent.record)
            for meth in ("is_valid", "overhang_start", "overhang_end", "target_sequence",
                         "placeholder_sequence", "target_sequence"):
                if not hasattr(ent, meth):
                    continue
                (kind, val), warns = run(getattr(ent, meth))
                if kind == "ok" and isinstance(val, SeqRecord):
                    val = show_record(val)
                D.add("structured", i, kit, type(ent).__name__, meth, kind, str(val), warns)
            t1, t2 = ent.target_sequence(), ent.target_sequence()
            D.add("fresh", i, t1 is t2, t1.features[-1] is t2.features[-1],
                  t1.features[-1].qualifiers is t2.features[-1].qualifiers)
            D.add("structured-unchanged", i, before == show_record(ent.record))
    # invalid inputs
    for i in range(40):
        kit = rng.choice(sorted(KITS))
        k = KITS[kit]
        choice = rng.randrange(5)
        if choice == 0:  # no site at all
            s = clean_dna(rng, rng.randint(10, 60))
        elif choice == 1:  # a third site in the target (illegal site)
            o = overhangs(rng, 2, k["ovl"])
            s = module_seq(rng, kit, o[0], o[1], 10, 10)
            pos = len(k["site"]) + k["gap"] + k["ovl"] + 3
            s = s[:pos] + k["site"] + s[pos:]
        elif choice == 2:  # linear topology, match would have to wrap
            o = overhangs(rng, 2, k["ovl"])
            s = rotated_text(module_seq(rng, kit, o[0], o[1], 10, 10), 3)
        elif choice == 3:  # only one site
            s = k["site"] + clean_dna(rng, 30)
        else:  # a vector given to a module class and vice versa
            o = overhangs(rng, 2, k["ovl"])
            s = vector_seq(rng, kit, o[0], o[1], 10, 10)
        if choice == 2:
            rec = SeqRecord(Seq(s), id="bad{}".format(i), annotations={"topology": "linear"})
        else:
            rec = CircularRecord(Seq(s), id="bad{}".format(i))
        for cls in (k["M"], k["V"]):
            ent = cls(rec)
            for meth in ("is_valid", "overhang_start", "target_sequence", "placeholder_sequence"):
                if not hasattr(ent, meth):
                    continue
                (kind, val), warns = run(getattr(ent, meth))
                if kind == "ok" and isinstance(val, SeqRecord):
                    val = show_record(val)
                D.add("invalid", i, choice, cls.__name__, meth, kind, str(val), warns)
    # a plain SeqRecord cannot be rotated
    o = overhangs(rng, 2, 4)
    rec = SeqRecord(Seq(module_seq(rng, "bsa", o[0], o[1], 10, 10)), id="plain")
    ent = BsaModule(rec)
    for meth in ("is_valid", "overhang_start", "overhang_end", "target_sequence"):
        (kind, val), _ = run(getattr(ent, meth))
        D.add("plain", meth, kind, str(val))


# --------------------------------------------------------------------------
# 4. assemblies


def section_assembly():
    D.section("assembly")
    rng = random.Random(404)
    # well-formed, every kit, shuffled modules, ids / names
    for i in range(80):
        kit = rng.choice(sorted(KITS))
        mode = rng.choice(["upper", "upper", "lower", "mixed"])
        vector, modules = build_case(rng, kit, rng.randint(1, 4), case_mode=mode)
        rng.shuffle(modules)
        kwargs = {}
        c = rng.randrange(4)
        if c == 0:
            kwargs = {"id": "ID{}".format(i), "name": "NAME{}".format(i)}
        elif c == 1:
            kwargs = {"id": "only_id{}".format(i)}
        elif c == 2:
            kwargs = {"name": "only name {}".format(i), "ignored": 3}
        product = do_assembly("ok{}".format(i), vector, modules, with_gb=True, **kwargs)
        # a second run on the same inputs gives the same result
        do_assembly("again{}".format(i), vector, modules, **kwargs)
        if product is not None and product.features:
            product.features[0].qualifiers["touched"] = "yes"
            D.add("after-touch", i, state(modules + [vector]))

    # failing / warning assemblies
    for i in range(80):
        kit = rng.choice(sorted(KITS))
        k = KITS[kit]
        mode = rng.choice(["upper", "lower", "mixed"])
        vector, modules = build_case(rng, kit, rng.randint(2, 4), case_mode=mode,
                                     citations=rng.choice([None, None, "bad"]))
        c = rng.randrange(7)
        if c == 0:  # missing module
            del modules[rng.randrange(len(modules))]
        elif c == 1:  # an unused module (chain is complete without it)
            o = overhangs(rng, 2, k["ovl"])
            extra = CircularRecord(Seq(module_seq(rng, kit, o[0], o[1], 8, 8)), id="extra{}".format(i))
            modules.insert(rng.randrange(len(modules) + 1), k["M"](decorate(rng, extra)))
        elif c == 2:  # duplicate start overhang (differing only by case)
            dup = modules[rng.randrange(len(modules))]
            s = str(dup.record.seq)
            twin = CircularRecord(Seq(s.swapcase()), id="twin{}".format(i))
            modules.append(k["M"](twin))
        elif c == 3:  # a module that is the reverse complement of another
            src = modules[rng.randrange(len(modules))]
            twin = CircularRecord(src.record.seq.reverse_complement(), id="rev{}".format(i))
            modules.insert(rng.randrange(len(modules) + 1), k["M"](twin))
        elif c == 4:  # vector with identical overhangs
            o = overhangs(rng, 1, k["ovl"])
            s = vector_seq(rng, kit, o[0], mixcase(rng, o[0], "mixed"), 10, 10)
            vector = k["V"](CircularRecord(Seq(s), id="samevec{}".format(i)))
        elif c == 5:  # an invalid module among valid ones
            bad = CircularRecord(Seq(clean_dna(rng, 30)), id="junk{}".format(i))
            modules.insert(rng.randrange(len(modules) + 1), k["M"](bad))
        else:  # same module object twice
            modules.append(modules[0])
        rng.shuffle(modules)
        do_assembly("fail{}-{}".format(i, c), vector, modules, id="f{}".format(i))

    # the manager class used directly
    for i in range(20):
        vector, modules = build_case(rng, "bpi", rng.randint(1, 3))
        for args, kw in (((), {}), (("an_id",), {}), (("an_id", "a_name"), {}),
                         ((), {"name": "kw_name"}), ((), {"id_": "kw_id"})):
            def go():
                mgr = AssemblyManager(vector, modules, *args, **kw)
                return mgr.assemble()
            (kind, val), warns = run(go)
            D.add("manager", i, args, sorted(kw.items()), kind,
                  show_record(val) if kind == "ok" else val, warns)

    # multi-level: products reused as modules (and the product rotated first)
    for i in range(30):
        n2 = rng.randint(1, 3)
        kitA, kitB = rng.choice([("bpi", "bsa"), ("bsa", "bsm"), ("bsm", "bpi"), ("bpi", "bsm")])
        ovsB = overhangs(rng, n2 + 1, 4)
        level1 = []
        for j in range(n2):
            vecA, modsA = build_case(rng, kitA, rng.randint(1, 3), prefix="L{}_{}_".format(i, j),
                                     inner=(kitB, ovsB[j], ovsB[j + 1]),
                                     case_mode=rng.choice(["upper", "mixed"]))
            p = do_assembly("ml{}-{}".format(i, j), vecA, modsA, id="prod{}_{}".format(i, j),
                            name="p{}_{}".format(i, j))
            if p is None:
                continue
            if rng.random() < 0.5:
                p = p >> rng.randrange(1, len(p))
            level1.append(KITS[kitB]["M"](p))
        s = vector_seq(rng, kitB, ovsB[0], ovsB[-1], 12, 25)
        vecB = KITS[kitB]["V"](decorate(rng, CircularRecord(Seq(s), id="vecB{}".format(i))))
        rng.shuffle(level1)
        do_assembly("ml{}-top".format(i), vecB, level1, with_gb=True, id="TOP{}".format(i), name="top")

    # inputs sharing Reference objects between records
    for i in range(10):
        vector, modules = build_case(rng, "bsa", 2, deco=False)
        shared = make_ref("shared")
        for n, ent in enumerate(modules + [vector]):
            ent.record.annotations["references"] = [make_ref("own{}".format(n)), shared]
            ent.record.features.append(
                SeqFeature(FeatureLocation(8, 12), type="misc_feature",
                           qualifiers={"citation": ["[2]", "[1]"] if n % 2 else ["[2]"]}))
        do_assembly("sharedref{}".format(i), vector, modules, with_gb=True)


def main():
    section_utils()
    section_record()
    section_structured()
    section_assembly()
    D.report()


if __name__ == "__main__":
    main()
