"""Property C17: validation is total and failures are always MoClo errors.

Run as: cd /tmp/agents7/C17 && /venv/bin/python pairs_out/C17_rX/equiv.py
"""
import sys

sys.path.insert(0, "/tmp/agents7/C17")
import tests  # noqa: F401,E402  (splices the kits into the moclo namespace)

import inspect  # noqa: E402
# ---- shared generators (inlined into demo.py / equiv.py) ----
import re
import random
import warnings

from Bio.Seq import Seq
from Bio.SeqRecord import SeqRecord
from Bio.SeqFeature import SeqFeature, FeatureLocation
from Bio.Restriction import BpiI, BsaI, BsmBI, BbsI, BtsI, SapI

from moclo import errors
from moclo.record import CircularRecord
from moclo._utils import isabstract
from moclo.core import AbstractModule, AbstractVector, AbstractPart
from moclo.core._structured import StructuredRecord
from moclo.kits import ytk, cidar, ecoflex, moclo as moclo_kit, plant  # noqa: F401

IUPAC = "ACGTRYSWKMBDHVN"


def all_subclasses(cls):
    for sub in cls.__subclasses__():
        yield sub
        for subsub in all_subclasses(sub):
            yield subsub


def kit_classes():
    found = {
        c
        for c in all_subclasses(StructuredRecord)
        if not isabstract(c) and c.__module__.startswith("moclo.kits")
    }
    return sorted(found, key=lambda c: (c.__module__, c.__name__))


def generic_classes():
    out = []
    for enz in (BpiI, BsaI, BsmBI, SapI):
        out.append(type(str("Mod" + enz.__name__), (AbstractModule,), {"cutter": enz}))
        out.append(type(str("Vec" + enz.__name__), (AbstractVector,), {"cutter": enz}))
    return out


def randseq(rng, n, alphabet="ACGT"):
    return "".join(rng.choice(alphabet) for _ in range(n))


def expand(cls, rng, ovh=None, filler=None, backbone=None, rotate=None):
    """Write an instance of the structure of ``cls`` as a plain string."""
    ovh = ovh or {}
    counter = [0]

    def repl(m):
        counter[0] += 1
        body = m.group(1)
        forced = ovh.get(counter[0])
        if forced is not None and set(body) == {"N"} and len(body) == len(forced):
            return forced
        return body

    flat = re.sub(r"\(([^)]*)\)", repl, cls.structure())
    parts = re.split(r"N\*\??", flat)
    if filler is None:
        filler = randseq(rng, rng.randint(0, 25))
    s = filler.join(parts)
    s = "".join(rng.choice("ACGT") if c == "N" else c for c in s)
    if backbone is None:
        backbone = randseq(rng, rng.randint(0, 30))
    s += backbone
    if rotate is None:
        rotate = rng.randrange(len(s))
    rotate %= len(s)
    return s[rotate:] + s[:rotate]


def valid_instance(cls, rng, **kw):
    """An instance of the structure that the pristine code calls valid."""
    for _ in range(200):
        s = expand(cls, rng, **kw)
        if cls(CircularRecord(Seq(s), id="probe")).is_valid():
            return s
    raise RuntimeError("no valid instance for " + cls.__name__)


def illegal_instance(cls, rng, **kw):
    """An instance of the structure with one more site of the cutter inside."""
    site = cls.cutter.site
    if rng.random() < 0.5:
        site = str(Seq(site).reverse_complement())
    filler = randseq(rng, rng.randint(1, 10)) + site + randseq(rng, rng.randint(6, 12))
    return expand(cls, rng, filler=filler, **kw)


def corrupt(s, rng):
    i = rng.randrange(len(s))
    c = rng.choice([x for x in IUPAC if x != s[i].upper()])
    return s[:i] + c + s[i + 1 :]


def mixcase(s, rng):
    mode = rng.randrange(3)
    if mode == 0:
        return s.lower()
    if mode == 1:
        return "".join(c.lower() if rng.random() < 0.5 else c for c in s)
    return s
# ---- property checks -------------------------------------------------------

PROBLEMS = []
STATS = {"records": 0, "valid": 0, "invalid": 0, "illegal": 0, "assemblies": 0,
         "products": 0, "moclo_errors": 0}


def problem(msg):
    if len(PROBLEMS) < 15:
        PROBLEMS.append(msg)
    else:
        PROBLEMS.append(None)


def accessors(cls):
    names = ["overhang_start", "overhang_end", "target_sequence"]
    if issubclass(cls, AbstractVector):
        names.append("placeholder_sequence")
    return names


def check_record(cls, s, label):
    """is_valid is total; an invalid record only ever raises InvalidSequence."""
    where = "{} [{}] {!r}".format(cls.__name__, label, s if len(s) < 70 else s[:67] + "...")
    STATS["records"] += 1

    # 1. ask for validity first, then for the overhangs / target (twice each)
    entity = cls(CircularRecord(Seq(s), id="rec", name="rec"))
    try:
        valid = entity.is_valid()
    except Exception as exc:
        problem("is_valid raised {}: {} -- {}".format(type(exc).__name__, exc, where))
        return
    if valid is not True and valid is not False:
        problem("is_valid returned {!r} -- {}".format(valid, where))
        return
    STATS["valid" if valid else "invalid"] += 1
    for attempt in (1, 2):
        for name in accessors(cls):
            try:
                getattr(entity, name)()
            except errors.InvalidSequence as exc:
                if isinstance(exc, errors.IllegalSite) and attempt == 1 and name == "overhang_start":
                    STATS["illegal"] += 1
                if valid:
                    problem("{}() raised {} on a valid record -- {}".format(name, type(exc).__name__, where))
            except Exception as exc:
                problem("{}() raised {}: {} -- {}".format(name, type(exc).__name__, exc, where))
            else:
                if not valid:
                    problem("{}() (call #{}) returned a value although is_valid() is False -- {}".format(name, attempt, where))
        try:
            again = entity.is_valid()
        except Exception as exc:
            problem("is_valid (repeated) raised {} -- {}".format(type(exc).__name__, where))
            return
        if again is not valid:
            problem("is_valid() answered {} then {} -- {}".format(valid, again, where))

    # 2. on a fresh wrapper, ask for the overhangs / target without asking first
    for name in accessors(cls):
        fresh = cls(CircularRecord(Seq(s), id="rec", name="rec"))
        try:
            getattr(fresh, name)()
        except errors.InvalidSequence:
            if valid:
                problem("{}() raised InvalidSequence on a valid record (fresh) -- {}".format(name, where))
        except Exception as exc:
            problem("{}() (fresh) raised {}: {} -- {}".format(name, type(exc).__name__, exc, where))
        else:
            if not valid:
                problem("{}() (fresh) returned a value although the record is not valid -- {}".format(name, where))


def record_inputs(cls, rng):
    """Strings to try on one class: random, short, instances, near-misses."""
    good = valid_instance(cls, rng)
    yield "random-short", randseq(rng, rng.randint(1, 6), IUPAC)
    yield "random-long", randseq(rng, rng.randint(30, 90), IUPAC)
    yield "random-acgt-lower", randseq(rng, rng.randint(20, 60)).lower()
    yield "single-letter", rng.choice(IUPAC)
    yield "instance", good
    yield "instance-mixed-case", mixcase(valid_instance(cls, rng), rng)
    yield "instance-lower", valid_instance(cls, rng).lower()
    yield "corrupted", corrupt(good, rng)
    yield "corrupted-lower", corrupt(valid_instance(cls, rng), rng).lower()
    yield "truncated", good[: rng.randint(1, max(1, len(good) - 1))]
    yield "extra-site", illegal_instance(cls, rng)
    yield "extra-site-mixed-case", mixcase(illegal_instance(cls, rng), rng)


def random_overhangs(rng, n, size=4):
    """n different overhangs, none palindromic, none reverse-complement of another."""
    chosen = []
    while len(chosen) < n:
        o = randseq(rng, size)
        rc = str(Seq(o).reverse_complement())
        if o == rc or o in chosen or rc in chosen:
            continue
        chosen.append(o)
    return chosen


def chain_inputs(vec_cls, mod_cls, rng, n_modules):
    """A vector string and module strings that assemble in a circle."""
    size = len(vec_cls.cutter.ovhgseq)
    ovh = random_overhangs(rng, n_modules + 1, size)
    vector = valid_instance(vec_cls, rng, ovh={1: ovh[0], 3: ovh[-1]})
    modules = [
        valid_instance(mod_cls, rng, ovh={1: ovh[i], 3: ovh[i + 1]})
        for i in range(n_modules)
    ]
    return vector, modules


def perturb(vec_cls, mod_cls, vector, modules, rng):
    """Mix invalid records / duplicates / gaps in a working assembly."""
    modules = list(modules)
    kind = rng.choice(
        ["none", "none", "bad-module", "random-module", "extra-site-module",
         "extra-site-vector", "bad-vector", "random-vector", "drop", "duplicate",
         "lower", "extra-module", "short-module", "same-overhangs"]
    )
    i = rng.randrange(len(modules))
    if kind == "bad-module":
        modules[i] = corrupt(modules[i], rng)
    elif kind == "random-module":
        modules[i] = randseq(rng, rng.randint(1, 50), IUPAC)
    elif kind == "short-module":
        modules[i] = randseq(rng, rng.randint(1, 5), IUPAC)
    elif kind == "extra-site-module":
        modules[i] = illegal_instance(mod_cls, rng)
    elif kind == "extra-site-vector":
        vector = illegal_instance(vec_cls, rng)
    elif kind == "bad-vector":
        vector = corrupt(vector, rng)
    elif kind == "random-vector":
        vector = randseq(rng, rng.randint(1, 50), IUPAC)
    elif kind == "drop":
        del modules[i]
    elif kind == "duplicate":
        modules.append(modules[i])
    elif kind == "lower":
        modules[i] = modules[i].lower()
        if rng.random() < 0.5:
            vector = mixcase(vector, rng)
    elif kind == "extra-module":
        modules.append(valid_instance(mod_cls, rng))
    elif kind == "same-overhangs":
        o = randseq(rng, len(vec_cls.cutter.ovhgseq))
        vector = valid_instance(vec_cls, rng, ovh={1: o, 3: o})
    rng.shuffle(modules)
    return kind, vector, modules


def check_assembly(vec_cls, mod_classes, vector, modules, label):
    STATS["assemblies"] += 1
    vec = vec_cls(CircularRecord(Seq(vector), id="vec", name="vec"))
    mods = [
        cls(CircularRecord(Seq(m), id="mod{}".format(i), name="mod{}".format(i)))
        for i, (cls, m) in enumerate(zip(mod_classes, modules))
    ]
    if not mods:
        return
    with warnings.catch_warnings(record=True):
        warnings.simplefilter("always")
        try:
            product = vec.assemble(*mods)
        except errors.MocloError:
            STATS["moclo_errors"] += 1
        except Exception as exc:
            problem("assemble [{}] ended with {}: {}".format(label, type(exc).__name__, exc))
        else:
            STATS["products"] += 1
            if not isinstance(product, CircularRecord):
                problem("assemble [{}] returned {!r}".format(label, type(product)))


def run_property_checks(seed=2024):
    rng = random.Random(seed)
    classes = kit_classes()
    if len(classes) != 85:
        problem("expected 85 concrete kit classes, found {}".format(len(classes)))
    for cls in classes + generic_classes():
        for label, s in record_inputs(cls, rng):
            check_record(cls, s, label)

    # assemblies with the generic classes, over several enzymes
    generic = generic_classes()
    for mod_cls, vec_cls in zip(generic[0::2], generic[1::2]):
        for _ in range(25):
            vector, modules = chain_inputs(vec_cls, mod_cls, rng, rng.randint(1, 4))
            kind, vector, modules = perturb(vec_cls, mod_cls, vector, modules, rng)
            check_assembly(vec_cls, [mod_cls] * len(modules), vector, modules, kind)

    # assemblies with kit classes (YTK parts 1-7 into a type 8 vector)
    part_classes = [ytk.YTKPart1, ytk.YTKPart2, ytk.YTKPart3, ytk.YTKPart4,
                    ytk.YTKPart5, ytk.YTKPart6, ytk.YTKPart7]
    for _ in range(25):
        vector = valid_instance(ytk.YTKPart8, rng)
        pairs = [(cls, valid_instance(cls, rng)) for cls in part_classes]
        kind = rng.choice(["none", "bad", "extra-site", "drop", "lower", "random", "wrong-class"])
        i = rng.randrange(len(pairs))
        if kind == "bad":
            pairs[i] = (pairs[i][0], corrupt(pairs[i][1], rng))
        elif kind == "extra-site":
            pairs[i] = (pairs[i][0], illegal_instance(pairs[i][0], rng))
        elif kind == "drop":
            del pairs[i]
        elif kind == "lower":
            pairs[i] = (pairs[i][0], pairs[i][1].lower())
        elif kind == "random":
            pairs[i] = (pairs[i][0], randseq(rng, rng.randint(1, 40), IUPAC))
        elif kind == "wrong-class":
            pairs[i] = (part_classes[(i + 3) % 7], pairs[i][1])
        rng.shuffle(pairs)
        check_assembly(ytk.YTKPart8, [p[0] for p in pairs], vector, [p[1] for p in pairs], "ytk-" + kind)
# ---- differential digest ------------------------------------------------------
import hashlib
import copy

from Bio.SeqFeature import Reference
from Bio.Restriction import EcoRV, BtsI
from moclo.regex import DNARegex
from moclo.core._assembly import AssemblyManager
from moclo.core._utils import cutter_check, add_as_source

LINES = []
COUNTS = {}


def emit(tag, *items):
    COUNTS[tag] = COUNTS.get(tag, 0) + 1
    LINES.append(tag + " | " + " | ".join(str(i) for i in items))


def clean_text(text):
    return re.sub(r"0x[0-9a-fA-F]+", "0x?", text)


def show_feature(f):
    quals = sorted((k, show_value(v)) for k, v in f.qualifiers.items())
    return "{}@{}#{}{}".format(f.type, f.location, f.id, quals)


def show_value(v):
    if isinstance(v, Reference):
        return "Ref({!r},{!r},{})".format(v.title, v.authors, v.location)
    if isinstance(v, (list, tuple)):
        return "[" + ", ".join(show_value(x) for x in v) + "]"
    if isinstance(v, dict):
        return "{" + ", ".join("{}: {}".format(k, show_value(x)) for k, x in sorted(v.items())) + "}"
    return repr(v)


def show_record(r):
    if r is None:
        return "None"
    return "{}<{} id={} name={} desc={} ann={} feats=[{}] let={} dbx={}>".format(
        type(r).__name__, str(r.seq), r.id, r.name, r.description,
        show_value(r.annotations), "; ".join(show_feature(f) for f in r.features),
        show_value(dict(r.letter_annotations)), r.dbxrefs,
    )


def show_result(v):
    if isinstance(v, SeqRecord):
        return show_record(v)
    if isinstance(v, Seq):
        return "Seq({})".format(str(v))
    return repr(v)


def show_exc(exc):
    extra = []
    for attr in ("details", "start_overhang", "exc"):
        if hasattr(exc, attr):
            extra.append("{}={}".format(attr, show_result(getattr(exc, attr))))
    if hasattr(exc, "sequence"):
        seq = exc.sequence
        if isinstance(seq, (Seq, SeqRecord)):
            extra.append("sequence=" + show_result(seq))
        else:
            extra.append("sequence=" + type(seq).__name__)
    for attr in ("duplicates", "remaining"):
        if hasattr(exc, attr):
            extra.append("{}={}".format(attr, [d.record.id for d in getattr(exc, attr)]))
    try:
        text = clean_text(str(exc))
    except Exception as exc2:  # str() of the error itself fails
        text = "<str failed: {} {}>".format(type(exc2).__name__, exc2)
    return "{}({}) args={} cause={} ctx={} {}".format(
        type(exc).__name__, text, clean_text(repr(exc.args)), type(exc.__cause__).__name__,
        exc.__suppress_context__, " ".join(extra))


def attempt(func, *args, **kwargs):
    with warnings.catch_warnings(record=True) as caught:
        warnings.simplefilter("always")
        try:
            out = "-> " + show_result(func(*args, **kwargs))
        except Exception as exc:
            out = "!! " + show_exc(exc)
    warned = [
        "{}:{}".format(w.category.__name__, clean_text(str(w.message)))
        for w in caught if "pkg_resources" not in str(w.message)
    ]
    return out + (" warnings={}".format(warned) if warned else "")


def decorate(record, rng, n_refs=2):
    """Add features, citations and references to a record (in place)."""
    n = len(record.seq)
    refs = []
    for i in range(n_refs):
        ref = Reference()
        ref.title = "title {} of {}".format(i, record.id)
        ref.authors = "author {}".format(i)
        refs.append(ref)
    record.annotations["references"] = refs
    for i in range(rng.randint(1, 4)):
        a = rng.randrange(n)
        b = rng.randint(a, n)
        quals = {"label": ["f{}".format(i)]}
        if refs and rng.random() < 0.7:
            quals["citation"] = ["[{}]".format(rng.randint(1, len(refs)))]
        record.features.append(
            SeqFeature(FeatureLocation(a, b, strand=rng.choice([1, -1])), type="misc_feature", qualifiers=quals)
        )
    record.annotations["topology"] = "circular"
    record.annotations["molecule_type"] = "DNA"
    return record


def wrap_variants(s, rng):
    """The same text as different kinds of records."""
    yield "circular", CircularRecord(Seq(s), id="rec", name="rec")
    kind = rng.randrange(5)
    if kind == 0:
        yield "plain", SeqRecord(Seq(s), id="rec", name="rec")
    elif kind == 1:
        yield "plain-linear", SeqRecord(Seq(s), id="rec", name="rec", annotations={"topology": "linear"})
    elif kind == 2:
        yield "plain-Circular", SeqRecord(Seq(s), id="rec", name="rec", annotations={"topology": "Circular"})
    elif kind == 3:
        yield "circular-decorated", decorate(CircularRecord(Seq(s), id="rec", name="rec"), rng)
    else:
        rec = CircularRecord(Seq(s), id="rec", name="rec")
        rec.annotations["topology"] = "LINEAR"
        yield "circular-relabelled", rec


def digest_records(rng):
    classes = kit_classes() + generic_classes()
    for cls in classes:
        for label, s in record_inputs(cls, rng):
            for kind, rec in wrap_variants(s, rng):
                entity = cls(rec)
                tag = "rec"
                emit(tag, cls.__name__, label, kind, "valid", attempt(entity.is_valid))
                for name in accessors(cls):
                    emit(tag, cls.__name__, label, kind, name, attempt(getattr(entity, name)))
                emit(tag, cls.__name__, label, kind, "valid2", attempt(entity.is_valid))
                for name in accessors(cls):
                    emit(tag, cls.__name__, label, kind, name + "2", attempt(getattr(entity, name)))
                emit(tag, cls.__name__, label, kind, "state", show_record(rec), entity.record is rec, entity.seq is rec.seq)
                # accessor-first order on a fresh wrapper
                fresh = cls(rec)
                order = accessors(cls)
                rng.shuffle(order)
                for name in order:
                    emit(tag, cls.__name__, label, kind, "fresh-" + name, attempt(getattr(fresh, name)))
                emit(tag, cls.__name__, label, kind, "fresh-valid", attempt(fresh.is_valid))


def digest_other_enzymes(rng):
    # classes that cannot be instantiated, or whose structure does not compile
    for enz in (EcoRV, BtsI):
        for base in (AbstractModule, AbstractVector):
            cls = type(str("X" + enz.__name__), (base,), {"cutter": enz})
            emit("enz", enz.__name__, base.__name__, "structure", attempt(cls.structure))
            rec = CircularRecord(Seq(randseq(rng, 30)), id="rec")
            emit("enz", enz.__name__, base.__name__, "new", attempt(lambda: cls(rec).is_valid()))
    for base in (AbstractModule, AbstractVector, AbstractPart):
        emit("enz", "none", base.__name__, attempt(lambda: base(CircularRecord(Seq("ATGC"), id="r"))))
    emit("enz", "cutter_check", attempt(cutter_check, NotImplemented, name="Thing"))
    emit("enz", "cutter_check", attempt(cutter_check, EcoRV, name="Thing"))
    emit("enz", "cutter_check", attempt(cutter_check, BsaI, name="Thing"))


def run_assembly(vec, mods, rng, **kwargs):
    before = [show_record(e.record) for e in mods + [vec]]
    if mods:
        out = attempt(vec.assemble, *mods, **kwargs)
    else:
        out = attempt(vec.assemble)
    after = [show_record(e.record) for e in mods + [vec]]
    return out, before == after, after


def digest_assemblies(rng):
    generic = generic_classes()
    n = 0
    for mod_cls, vec_cls in zip(generic[0::2], generic[1::2]):
        for _ in range(40):
            vector, modules = chain_inputs(vec_cls, mod_cls, rng, rng.randint(1, 4))
            kind, vector, modules = perturb(vec_cls, mod_cls, vector, modules, rng)
            flavour = rng.randrange(4)
            make = CircularRecord if flavour != 3 else SeqRecord
            vec = vec_cls(CircularRecord(Seq(vector), id="vec", name="vec"))
            mods = [mod_cls(make(Seq(m), id="mod{}".format(i), name="m{}".format(i))) for i, m in enumerate(modules)]
            if flavour in (1, 2):
                for e in mods + [vec]:
                    decorate(e.record, rng)
            if flavour == 2 and mods:
                # a citation that cannot be dereferenced
                mods[0].record.features.append(SeqFeature(FeatureLocation(0, 1), type="misc", qualifiers={"citation": [rng.choice(["[9]", "nine", "[]"])]}))
            kwargs = rng.choice([{}, {}, {"name": "prod"}, {"id": "pid", "name": "pname"}])
            n += 1
            out, same, after = run_assembly(vec, mods, rng, **kwargs)
            emit("asm", mod_cls.__name__, kind, flavour, sorted(kwargs), out, "inputs-unchanged=" + str(same))
            emit("asm-state", n, after)
            # the wrappers can be reused afterwards
            emit("asm-again", n, attempt(vec.is_valid), [attempt(m.is_valid) for m in mods])
            # unused modules turned into errors
            if kind in ("extra-module", "none"):
                def strict_warnings():
                    with warnings.catch_warnings():
                        warnings.simplefilter("error", errors.AssemblyWarning)
                        return vec.assemble(*mods)
                emit("asm-werror", n, attempt(strict_warnings), [show_record(e.record) for e in mods + [vec]])
            # the manager used directly
            emit("asm-mgr", n, attempt(lambda: AssemblyManager(vec, list(mods)).assemble()))
            emit("asm-mgr", n, attempt(lambda: AssemblyManager(vec, list(mods), "i", "n").assemble()))

    part_classes = [ytk.YTKPart1, ytk.YTKPart2, ytk.YTKPart3, ytk.YTKPart4,
                    ytk.YTKPart5, ytk.YTKPart6, ytk.YTKPart7]
    for _ in range(40):
        vector = valid_instance(ytk.YTKPart8, rng)
        pairs = [(cls, valid_instance(cls, rng)) for cls in part_classes]
        kind = rng.choice(["none", "bad", "extra-site", "drop", "lower", "random", "wrong-class", "extra-site-vector", "revcomp"])
        i = rng.randrange(len(pairs))
        if kind == "bad":
            pairs[i] = (pairs[i][0], corrupt(pairs[i][1], rng))
        elif kind == "extra-site":
            pairs[i] = (pairs[i][0], illegal_instance(pairs[i][0], rng))
        elif kind == "extra-site-vector":
            vector = illegal_instance(ytk.YTKPart8, rng)
        elif kind == "drop":
            del pairs[i]
        elif kind == "lower":
            pairs[i] = (pairs[i][0], pairs[i][1].lower())
        elif kind == "random":
            pairs[i] = (pairs[i][0], randseq(rng, rng.randint(1, 40), IUPAC))
        elif kind == "wrong-class":
            pairs[i] = (part_classes[(i + 3) % 7], pairs[i][1])
        elif kind == "revcomp":
            # a generic entry whose start overhang is the reverse complement of another
            rc = str(Seq(pairs[i][0].signature[0]).reverse_complement())
            pairs.append((ytk.YTKEntry, valid_instance(ytk.YTKEntry, rng, ovh={1: rc, 3: "ACCA"})))
        rng.shuffle(pairs)
        vec = ytk.YTKPart8(decorate(CircularRecord(Seq(vector), id="vec", name="vec"), rng))
        mods = [cls(decorate(CircularRecord(Seq(m), id="p{}".format(j), name="p{}".format(j)), rng)) for j, (cls, m) in enumerate(pairs)]
        out, same, after = run_assembly(vec, mods, rng)
        emit("ytk", kind, out, "inputs-unchanged=" + str(same))
        emit("ytk-state", after)

    # characterize picks the class of a record
    for _ in range(60):
        cls = rng.choice(part_classes + [ytk.YTKPart8, ytk.YTKPart8a, ytk.YTKPart678, ytk.YTKPart234r])
        kind = rng.choice(["ok", "ok", "extra-site", "corrupt", "random"])
        if kind == "ok":
            s = valid_instance(cls, rng)
        elif kind == "extra-site":
            s = illegal_instance(cls, rng)
        elif kind == "corrupt":
            s = corrupt(valid_instance(cls, rng), rng)
        else:
            s = randseq(rng, rng.randint(1, 60), IUPAC)
        rec = CircularRecord(Seq(mixcase(s, rng)), id="rec")
        def characterize():
            return type(ytk.YTKPart.characterize(rec)).__name__
        emit("char", cls.__name__, kind, attempt(characterize))


def digest_support(rng):
    # errors as text
    rec = CircularRecord(Seq("ATGC"), id="r1")
    class Holder(object):
        def __init__(self, record):
            self.record = record
    h1, h2 = Holder(rec), Holder(SeqRecord(Seq("GG"), id="r2"))
    for exc in (
        errors.InvalidSequence(Seq("ATGC")), errors.InvalidSequence(Seq("ATGC"), details="some {} detail".format("x")),
        errors.InvalidSequence("ATGC", exc=ValueError("x"), details="d"),
        errors.IllegalSite(Seq("ATGC")), errors.IllegalSite(Seq("atgc"), details="why"),
        errors.DuplicateModules(h1, h2), errors.DuplicateModules(h1, h2, details="same"), errors.DuplicateModules(h1, other=1),
        errors.MissingModule(Seq("ATGC")), errors.MissingModule("ATGC", details="d"), errors.MissingModule("ATGC", other=2),
        errors.UnusedModules(h1), errors.UnusedModules(h1, h2, details=3), errors.UnusedModules(),
    ):
        emit("err", show_exc(exc), [c.__name__ for c in type(exc).__mro__])
    emit("err", attempt(str, errors.InvalidSequence(Seq("A"), details=3)))
    emit("err", attempt(str, errors.InvalidSequence(Seq("A"), details="{0}{0}")))
    emit("err", attempt(str, errors.InvalidSequence(Seq("A"), details="{}")))
    emit("err", attempt(str, errors.MissingModule(Seq("A"), details=3)))
    emit("err", attempt(str, errors.DuplicateModules(h1, details=3)))

    # regex matching
    for _ in range(150):
        pattern = rng.choice(["AA(NN)", "GGTCTCN(NNNN)(NN*N)(NNNN)NGAGACC", "(R)(Y*)(S)", "N(NN)N*?(WW)", "(B)(D)(H)(V)(K)(M)"])
        rx = DNARegex(pattern)
        s = mixcase(randseq(rng, rng.randint(1, 40), rng.choice(["ACGT", "ACGT", IUPAC])), rng)
        target = rng.choice([Seq(s), SeqRecord(Seq(s), id="s"), CircularRecord(Seq(s), id="c")])
        kwargs = rng.choice([{}, {"linear": False}, {"linear": True}, {"pos": rng.randint(0, 5)}, {"pos": 1, "endpos": rng.randint(0, 30), "linear": False}])
        def search():
            m = rx.search(target, **kwargs)
            if m is None:
                return None
            n = rx.regex.groups
            return [m.start(), m.end(), m.span(), m.shift] + [(m.span(i), show_result(m.group(i))) for i in range(n + 1)]
        emit("rx", pattern, type(target).__name__, s, sorted(kwargs.items()), attempt(search))
    emit("rx", attempt(DNARegex("NN").search, "ATGC"))
    emit("rx", DNARegex("NRYN").pattern, DNARegex("NRYN").regex.pattern)

    # circular records
    for _ in range(120):
        s = mixcase(randseq(rng, rng.randint(1, 30)), rng)
        rec = CircularRecord(Seq(s), id="c", name="c", description="d", dbxrefs=["x:1"])
        if rng.random() < 0.7:
            decorate(rec, rng)
        if rng.random() < 0.3:
            rec.letter_annotations["q"] = list(range(len(s)))
        if rng.random() < 0.3:
            rec.features.append(SeqFeature(FeatureLocation(0, len(s)), type="source", qualifiers={}))
        k = rng.randint(-40, 40)
        emit("circ", s, k, ">>", attempt(lambda: rec >> k))
        emit("circ", s, k, "<<", attempt(lambda: rec << k))
        a, b = sorted((rng.randint(0, len(s)), rng.randint(0, len(s))))
        emit("circ", s, "slice", a, b, attempt(lambda: rec[a:b]))
        emit("circ", s, "item", attempt(lambda: rec[a]))
        emit("circ", s, "rc", attempt(rec.reverse_complement), attempt(lambda: rec.reverse_complement(id=True, name="n", annotations=True)))
        probe = (s + s)[a:a + rng.randint(0, len(s) + 1)]
        emit("circ", s, "in", probe, attempt(lambda: probe in rec), attempt(lambda: Seq(probe) in rec))
        emit("circ", s, "add", attempt(lambda: rec + rec), attempt(lambda: "A" + rec), attempt(lambda: rec + "A"))
        emit("circ", s, "state", show_record(rec))
    emit("circ", attempt(lambda: CircularRecord(Seq("AT"), annotations={"topology": "linear"})))
    emit("circ", attempt(lambda: CircularRecord(Seq("AT"), annotations={"topology": "CIRCULAR"})))
    emit("circ", attempt(lambda: CircularRecord(SeqRecord(Seq("AT"), id="i", annotations={"topology": "linear"}))))

    # source annotation helper
    src = SeqRecord(Seq("ATGC"), id="src")
    dst = SeqRecord(Seq("ATGCATGC"), id="dst")
    emit("src", attempt(add_as_source, src, dst), attempt(add_as_source, src, dst, FeatureLocation(1, 3)))


def main():
    warnings.simplefilter("ignore")
    rng = random.Random(1717)
    digest_records(rng)
    digest_other_enzymes(rng)
    digest_assemblies(rng)
    digest_support(rng)
    h = hashlib.sha256()
    for line in LINES:
        h.update(line.encode("utf-8"))
        h.update(b"\n")
    if "--dump" in sys.argv:
        for line in LINES:
            print(line)
    print("cases: {}".format(", ".join("{}={}".format(k, v) for k, v in sorted(COUNTS.items()))))
    print("outcomes: raised={} returned={}".format(
        sum(l.count("!! ") for l in LINES), sum(l.count("-> ") for l in LINES)))
    print("DIGEST {}".format(h.hexdigest()))


if __name__ == "__main__":
    main()
