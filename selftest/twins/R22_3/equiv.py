#!/usr/bin/env python
"""Differential test for the moclo library.

Run as ``cd /tmp/agentsR4/R22 && /venv/bin/python refactor_out/R22_3/equiv.py``.

The script drives the whole public API (records, regexes, kits, assemblies,
registries) over a few thousand generated inputs, turns every observable
outcome (return value, exception type and message, warnings, mutation of the
arguments, aliasing between arguments and results) into a line of text, and
prints a SHA-256 digest of all the lines.  The digest must be identical on the
pristine tree and on the refactored tree.  Pass ``--dump FILE`` to also write
the lines to a file (handy to ``diff`` two runs).
"""
import sys

sys.path.insert(0, "/tmp/agentsR4/R22")
import tests  # noqa: E402,F401  (patches sys.path and the namespace packages)

import copy  # noqa: E402
import hashlib  # noqa: E402
import io  # noqa: E402
import json  # noqa: E402
import random  # noqa: E402
import re  # noqa: E402
import urllib.request  # noqa: E402
import warnings  # noqa: E402

import fs  # noqa: E402
import Bio.SeqIO  # noqa: E402
from Bio import Restriction  # noqa: E402
from Bio.Seq import Seq  # noqa: E402
from Bio.SeqFeature import CompoundLocation, SeqFeature, SimpleLocation  # noqa: E402
from Bio.SeqRecord import SeqRecord  # noqa: E402

import moclo  # noqa: E402
from moclo import errors  # noqa: E402
from moclo import _impl, _utils  # noqa: E402
from moclo.core import (  # noqa: E402
    AbstractModule,
    AbstractPart,
    AbstractVector,
    Cassette,
    CassetteVector,
    Device,
    DeviceVector,
    Entry,
    EntryVector,
    Product,
)
from moclo.core._structured import StructuredRecord  # noqa: E402
from moclo.kits import cidar, ecoflex, plant, ytk  # noqa: E402
from moclo.kits import moclo as moclo_kit  # noqa: E402
from moclo.record import CircularRecord  # noqa: E402
from moclo.regex import DNARegex, SeqMatch  # noqa: E402
from moclo.registry import base as registry_base  # noqa: E402
from moclo.registry._utils import find_resistance  # noqa: E402
from moclo.registry.cidar import CIDARRegistry  # noqa: E402
from moclo.registry.ecoflex import EcoFlexRegistry  # noqa: E402
from moclo.registry.elabftw import ELabFTWRegistry  # noqa: E402
from moclo.registry.plant import PlantRegistry  # noqa: E402
from moclo.registry.ytk import PTKRegistry, YTKRegistry  # noqa: E402


# --- Recording --------------------------------------------------------------


ADDRESS = re.compile(r"0x[0-9a-fA-F]{6,}")


class Recorder(object):
    def __init__(self, dump=None):
        self.total = hashlib.sha256()
        self.count = 0
        self.section_name = None
        self.sections = []
        self.dump = open(dump, "w") if dump else None

    def section(self, name):
        self.section_name = name
        self.sections.append([name, hashlib.sha256(), 0])

    def emit(self, *parts):
        line = " | ".join(p if isinstance(p, str) else repr(p) for p in parts)
        line = ADDRESS.sub("0x?", line)
        data = (line + "\n").encode("utf-8", "backslashreplace")
        self.total.update(data)
        self.count += 1
        self.sections[-1][1].update(data)
        self.sections[-1][2] += 1
        if self.dump is not None:
            self.dump.write("[{}] {}\n".format(self.section_name, line))

    def report(self):
        for name, h, n in self.sections:
            print("{:<22} {:>7} lines  {}".format(name, n, h.hexdigest()[:16]))
        print("TOTAL {} lines".format(self.count))
        print("DIGEST {}".format(self.total.hexdigest()))
        if self.dump is not None:
            self.dump.close()


REC = Recorder(sys.argv[sys.argv.index("--dump") + 1] if "--dump" in sys.argv else None)
emit = REC.emit


# --- Canonical descriptions -------------------------------------------------


def d_loc(loc):
    return repr(loc)


def d_quals(quals):
    return repr(sorted((str(k), repr(v)) for k, v in quals.items()))


def d_feat(feat):
    return "F({}, {}, {}, {})".format(
        feat.type, feat.id, d_loc(feat.location), d_quals(feat.qualifiers)
    )


def d_annotations(annotations):
    return repr(sorted((str(k), repr(v)) for k, v in annotations.items()))


def d_rec(rec):
    if rec is None:
        return "None"
    if isinstance(rec, Seq):
        return "Seq({})".format(str(rec))
    if isinstance(rec, str):
        return "str({})".format(rec)
    if not isinstance(rec, SeqRecord):
        return "{}:{!r}".format(type(rec).__name__, rec)
    return "{}(seq={}, id={!r}, name={!r}, desc={!r}, dbxrefs={!r}, ann={}, let={!r}, feats=[{}])".format(
        type(rec).__name__,
        str(rec.seq),
        rec.id,
        rec.name,
        rec.description,
        rec.dbxrefs,
        d_annotations(rec.annotations),
        sorted((k, list(v) if not isinstance(v, str) else v) for k, v in rec.letter_annotations.items()),
        ", ".join(d_feat(f) for f in rec.features),
    )


def d_short(rec):
    """A hashed description of a (possibly large) record."""
    text = d_rec(rec)
    return "{}#{}:{}".format(type(rec).__name__, len(text), hashlib.sha256(text.encode("utf-8", "backslashreplace")).hexdigest()[:20])


def d_exc(exc):
    extra = []
    for attr in ("details", "start_overhang"):
        if hasattr(exc, attr):
            extra.append("{}={!r}".format(attr, getattr(exc, attr)))
    for attr in ("duplicates", "remaining"):
        if hasattr(exc, attr):
            extra.append("{}={!r}".format(attr, [getattr(m.record, "id", None) for m in getattr(exc, attr)]))
    if hasattr(exc, "sequence"):
        extra.append("sequence={}".format(d_short(exc.sequence) if isinstance(exc.sequence, SeqRecord) else d_rec(exc.sequence)))
    try:
        text = str(exc)
    except Exception as err:  # pragma: no cover
        text = "<str failed: {}: {}>".format(type(err).__name__, err)
    return "!{}: {} [cause={}, ctx={}, suppress={}] {}".format(
        type(exc).__name__,
        text,
        type(exc.__cause__).__name__,
        type(exc.__context__).__name__,
        exc.__suppress_context__,
        " ".join(extra),
    )


def call(label, func, describe=repr):
    """Call ``func`` and record its outcome, exception and warnings."""
    with warnings.catch_warnings(record=True) as caught:
        warnings.simplefilter("always")
        try:
            result = func()
        except RecursionError:
            raise
        except Exception as exc:
            outcome, result = d_exc(exc), exc
        else:
            outcome = describe(result)
    emit(label, outcome)
    for w in caught:
        emit(label, "warning", w.category.__name__, str(w.message), d_exc(w.message) if isinstance(w.message, errors.MocloError) else "")
    return result


def failed(result):
    return isinstance(result, BaseException)


# --- Generators -------------------------------------------------------------

IUPAC = {
    "A": "A", "C": "C", "G": "G", "T": "T",
    "B": "CGT", "D": "AGT", "H": "ACT", "K": "GT", "M": "AC", "N": "ACGT",
    "R": "AG", "S": "CG", "V": "ACG", "W": "AT", "Y": "CT",
}


def rand_dna(rng, n, alphabet="ACGT"):
    return "".join(rng.choice(alphabet) for _ in range(n))


def revcomp(s):
    return str(Seq(s).reverse_complement())


def mix_case(rng, s, p=0.3):
    return "".join(c.lower() if rng.random() < p else c for c in s)


def instantiate(pattern, rng, groups=None, star=(0, 30)):
    """Generate a sequence matching a DNA structure pattern.

    ``groups`` maps a 1-based group number to a literal replacement for the
    whole group.
    """
    groups = groups or {}
    out = []
    i = 0
    group = 0
    while i < len(pattern):
        c = pattern[i]
        if c == "(":
            group += 1
            if group in groups:
                out.append(groups[group])
                i = pattern.index(")", i) + 1
                continue
            i += 1
        elif c == ")":
            i += 1
        elif i + 1 < len(pattern) and pattern[i + 1] == "*":
            out.append(rand_dna(rng, rng.randint(*star), IUPAC[c]))
            i += 2
            if i < len(pattern) and pattern[i] == "?":
                i += 1
        else:
            out.append(rng.choice(IUPAC[c]))
            i += 1
    return "".join(out)


def rand_location(rng, n, allow_none=False):
    kind = rng.random()
    strand = rng.choice([1, -1, None, 0])
    if n < 2:
        return SimpleLocation(0, n, strand)
    if kind < 0.15:
        return SimpleLocation(0, n, strand)
    if kind < 0.65:
        a = rng.randint(0, n - 1)
        b = rng.randint(a + 1, n)
        if rng.random() < 0.15:
            return SimpleLocation(a, b, strand, ref="REF{}".format(a), ref_db=rng.choice([None, "db"]))
        return SimpleLocation(a, b, strand)
    if kind < 0.9:
        a = rng.randint(1, n - 1)
        b = rng.randint(1, a)
        parts = [SimpleLocation(a, n, strand), SimpleLocation(0, b, strand)]
        if rng.random() < 0.3:
            c = rng.randint(0, n - 1)
            parts.append(SimpleLocation(c, rng.randint(c + 1, n), strand))
        return CompoundLocation(parts)
    if allow_none:
        return None
    return SimpleLocation(n - 1, n, strand)


def rand_features(rng, n, citations=None, allow_none=False):
    feats = []
    for k in range(rng.randint(0, 4)):
        loc = rand_location(rng, n, allow_none)
        ftype = rng.choice(["source", "misc_feature", "CDS", "promoter"])
        quals = {}
        if rng.random() < 0.6:
            quals["label"] = ["feat{}".format(k)]
        if rng.random() < 0.3:
            quals["note"] = ["a", "b"]
        if citations and rng.random() < 0.6:
            quals["citation"] = [rng.choice(citations) for _ in range(rng.randint(1, 2))]
        feats.append(SeqFeature(loc, type=ftype, id="id{}".format(k) if rng.random() < 0.5 else "<unknown id>", qualifiers=quals))
    return feats


def rand_record(rng, seq, cls=CircularRecord, ident="rec", topology=None, citations=None, references=None, allow_none=False):
    n = len(seq)
    annotations = {}
    if topology is not None:
        annotations["topology"] = topology
    if rng.random() < 0.5:
        annotations["molecule_type"] = "DNA"
    if references is not None:
        annotations["references"] = references
    letter = None
    if rng.random() < 0.4:
        letter = {"phred_quality": [rng.randint(0, 60) for _ in range(n)]}
        if rng.random() < 0.3:
            letter["other"] = rand_dna(rng, n, "xyz")
    return cls(
        Seq(seq),
        id=ident,
        name=ident + "_name",
        description="description of " + ident,
        dbxrefs=["db:{}".format(ident)] if rng.random() < 0.5 else None,
        features=rand_features(rng, n, citations, allow_none),
        annotations=annotations if annotations or rng.random() < 0.5 else None,
        letter_annotations=letter,
    )


def shifts_for(rng, n):
    return [0, 1, -1, n, -n, n + 1, -n - 1, 2 * n + 3, -3 * n - 2, n // 2, rng.randint(-5 * n - 5, 5 * n + 5), rng.randint(0, max(n - 1, 0))]


# --- Section A: CircularRecord ----------------------------------------------


class CountingRecord(CircularRecord):
    """A user subclass with its own constructor."""

    def __init__(self, seq, *args, **kwargs):
        self.init_calls = getattr(self, "init_calls", 0) + 1
        super(CountingRecord, self).__init__(seq, *args, **kwargs)


def aliasing(result, source):
    if not isinstance(result, SeqRecord):
        return "n/a"
    flags = [
        result is source,
        result.seq is source.seq,
        result.annotations is source.annotations,
        result.dbxrefs is source.dbxrefs,
        result.features is source.features,
        result.letter_annotations is source.letter_annotations,
    ]
    feats = []
    if len(result.features) == len(source.features):
        for f, g in zip(result.features, source.features):
            feats.append((f is g, f.qualifiers is g.qualifiers, f.location is g.location))
    return "alias={} feats={}".format(flags, feats)


def section_record():
    REC.section("record")
    rng = random.Random(1001)
    for case in range(90):
        n = rng.choice([1, 2, 3, 5, 8, 12, 20, 33, 47])
        seq = mix_case(rng, rand_dna(rng, n), 0.2 if case % 3 == 0 else 0.0)
        cls = CountingRecord if case % 7 == 3 else CircularRecord
        topo = rng.choice([None, "circular", "Circular", "CIRCULAR"])
        rec = call("A{} new".format(case), lambda: rand_record(rng, seq, cls, "rec{}".format(case), topo, allow_none=case % 5 == 0), d_rec)
        if failed(rec):
            continue
        snapshot = d_rec(rec)
        for k in shifts_for(rng, n):
            for opname, op in (("rshift", lambda r, i: r >> i), ("lshift", lambda r, i: r << i)):
                res = call("A{} {} {}".format(case, opname, k), lambda: op(rec, k), d_rec)
                emit("A{} {} {} alias".format(case, opname, k), aliasing(res, rec), d_rec(rec) == snapshot)
        a, b = rng.randint(-2 * n, 2 * n), rng.randint(-2 * n, 2 * n)
        call("A{} double".format(case), lambda: (rec >> a) << b, d_rec)
        call("A{} double2".format(case), lambda: ((rec << a) >> b) >> a, d_rec)
        # membership
        doubled = str(rec.seq) * 3
        for _ in range(6):
            start = rng.randint(0, n)
            size = rng.randint(0, n + 2)
            probe = doubled[start:start + size]
            if rng.random() < 0.3:
                probe = rand_dna(rng, max(size, 1))
            call("A{} contains {}".format(case, probe), lambda: probe in rec)
        call("A{} contains Seq".format(case), lambda: Seq(doubled[:2]) in rec)
        call("A{} contains int".format(case), lambda: 3 in rec)
        # indexing
        for index in (0, -1, n - 1, n, -n - 1, rng.randint(-n, n - 1)):
            call("A{} item {}".format(case, index), lambda: rec[index], d_rec)
        for _ in range(6):
            sl = slice(
                rng.choice([None, rng.randint(-n - 2, n + 2)]),
                rng.choice([None, rng.randint(-n - 2, n + 2)]),
                rng.choice([None, None, None, 1, 2, -1]),
            )
            res = call("A{} slice {}".format(case, sl), lambda: rec[sl], d_rec)
            emit("A{} slice {} alias".format(case, sl), aliasing(res, rec), d_rec(rec) == snapshot)
        call("A{} item str".format(case), lambda: rec["a"], d_rec)
        # reverse complement
        variants = [
            {},
            {"id": True, "name": True, "description": True},
            {"id": "other", "name": "othername", "description": "otherdesc"},
            {"annotations": True, "dbxrefs": True},
            {"features": False, "letter_annotations": False},
            {"annotations": {"topology": "linear"}},
            {"annotations": {"topology": "circular", "x": 1}, "dbxrefs": ["a"]},
            {"letter_annotations": {"phred_quality": list(range(n))}},
        ]
        for v, kwargs in enumerate(variants):
            res = call("A{} revcomp {}".format(case, v), lambda: rec.reverse_complement(**kwargs), d_rec)
            emit("A{} revcomp {} alias".format(case, v), aliasing(res, rec), d_rec(rec) == snapshot)
        # ambiguous operations
        call("A{} add rec".format(case), lambda: rec + rec, d_rec)
        call("A{} add str".format(case), lambda: rec + "ACGT", d_rec)
        call("A{} radd str".format(case), lambda: "ACGT" + rec, d_rec)
        call("A{} radd Seq".format(case), lambda: Seq("ACGT") + rec, d_rec)
        call("A{} radd SeqRecord".format(case), lambda: SeqRecord(Seq("ACGT")) + rec, d_rec)
        call("A{} sum".format(case), lambda: sum([rec, rec]), d_rec)
        # copies
        plain = SeqRecord(rec.seq, rec.id, rec.name, rec.description, list(rec.dbxrefs), list(rec.features), dict(rec.annotations), dict(rec.letter_annotations))
        for target in (CircularRecord, CountingRecord):
            dup = call("A{} copy {}".format(case, target.__name__), lambda: target(plain), d_rec)
            emit("A{} copy alias".format(case), aliasing(dup, plain), getattr(dup, "init_calls", None))
            dup2 = call("A{} copy2 {}".format(case, target.__name__), lambda: target(rec), d_rec)
            emit("A{} copy2 alias".format(case), aliasing(dup2, rec), getattr(dup2, "init_calls", None))
        if case % 7 == 3:
            call("A{} counting".format(case), lambda: (rec.init_calls, (rec >> 1).init_calls, type(rec >> 1).__name__, type(rec[:]).__name__))
            call("A{} counting revcomp".format(case), lambda: type(rec.reverse_complement()).__name__)

    # constructor edge cases
    for v, annotations in enumerate([
        {"topology": "linear"},
        {"topology": "LINEAR"},
        {"topology": "circular "},
        {"topology": None},
        {"topology": 3},
        {"molecule_type": "protein"},
        {},
        None,
    ]):
        call("A ctor {}".format(v), lambda: CircularRecord(Seq("ATGC"), "x", annotations=annotations), d_rec)
        call("A ctor rec {}".format(v), lambda: CircularRecord(SeqRecord(Seq("ATGC"), "x", annotations=annotations)), d_rec)
        call("A ctor counting {}".format(v), lambda: CountingRecord(SeqRecord(Seq("ATGC"), "x", annotations=annotations)), d_rec)
    call("A ctor str", lambda: CircularRecord("ATGC"), d_rec)
    call("A ctor none", lambda: CircularRecord(None), d_rec)
    call("A ctor kw", lambda: CircularRecord(seq=Seq("ATGC"), id="i", name="n", description="d", dbxrefs=["x"], features=[], annotations={"a": 1}, letter_annotations={"q": "abcd"}), d_rec)
    call("A ctor bad letters", lambda: CircularRecord(Seq("ATGC"), letter_annotations={"q": "abc"}), d_rec)
    call("A ctor bad feats", lambda: CircularRecord(Seq("ATGC"), features=()), d_rec)
    call("A ctor positional", lambda: CircularRecord(Seq("ATGC"), "i", "n", "d", ["x"], [], {"a": 1}, {"q": "abcd"}), d_rec)
    empty = CircularRecord(Seq(""), "empty")
    call("A empty rshift", lambda: empty >> 1, d_rec)
    call("A empty lshift", lambda: empty << 0, d_rec)
    call("A empty contains", lambda: "" in empty)
    call("A empty revcomp", lambda: empty.reverse_complement(), d_rec)
    rec = CircularRecord(Seq("ATGCATGCAA"), "odd")
    for index in (1.5, "2", None, 2.0, True, 10 ** 30, -(10 ** 30)):
        call("A odd rshift {!r}".format(index), lambda: rec >> index, d_rec)
        call("A odd lshift {!r}".format(index), lambda: rec << index, d_rec)
    emit("A names", CircularRecord.__add__.__name__, CircularRecord.__radd__.__name__, CircularRecord.__mro__[1].__name__)

    # features overlapping the origin several times / far beyond the end
    rng = random.Random(1002)
    for case in range(40):
        n = rng.randint(4, 30)
        feats = []
        for k in range(3):
            a = rng.randint(0, 3 * n)
            b = a + rng.randint(0, 2 * n)
            feats.append(SeqFeature(SimpleLocation(a, b, rng.choice([1, -1])), type=rng.choice(["source", "gene"]), qualifiers={"k": [k]}))
        feats.append(SeqFeature(SimpleLocation(0, n, 1), type="source"))
        feats.append(SeqFeature(SimpleLocation(0, n, 1), type="gene"))
        feats.append(SeqFeature(CompoundLocation([SimpleLocation(0, n, 1), SimpleLocation(0, 1, 1)]), type="source"))
        rec = CircularRecord(Seq(rand_dna(rng, n)), "far{}".format(case), features=feats)
        for k in (1, n - 1, rng.randint(-40, 40), rng.randint(-40, 40)):
            call("A far{} rshift {}".format(case, k), lambda: rec >> k, d_rec)
            call("A far{} lshift {}".format(case, k), lambda: rec << k, d_rec)
            call("A far{} chain {}".format(case, k), lambda: ((rec >> k) >> k) << (2 * k), d_rec)


# --- Section B: regular expressions -----------------------------------------


def rand_pattern(rng):
    letters = "ACGTBDHKMNRSVWY"
    parts = []
    for _ in range(rng.randint(1, 4)):
        body = "".join(rng.choice(letters) for _ in range(rng.randint(1, 4)))
        roll = rng.random()
        if roll < 0.25:
            body += rng.choice(["N*", "N*?", "W*", "N+"])
        if rng.random() < 0.6:
            body = "(" + body + ")"
        parts.append(body)
    pattern = "".join(parts)
    if rng.random() < 0.15:
        pattern = pattern.lower()
    if rng.random() < 0.1:
        pattern = pattern.replace("N", "n", 1)
    return pattern


def plain_letters(pattern):
    return "".join(c for c in pattern.upper() if c in IUPAC)


def d_match(match, string):
    if match is None:
        return "None"
    if failed(match):
        return d_exc(match)
    out = [type(match).__name__, match.start(), match.end(), match.span(), match.shift, match.rec is string]
    ngroups = match.match.re.groups
    for g in range(ngroups + 1):
        out.append(match.span(g))
        try:
            out.append(d_rec(match.group(g)))
        except Exception as exc:
            out.append(d_exc(exc))
    try:
        out.append(d_rec(match.group(ngroups + 1)))
    except Exception as exc:
        out.append(d_exc(exc))
    try:
        out.append(d_rec(match.group()))
        out.append(match.span())
    except Exception as exc:
        out.append(d_exc(exc))
    return repr(out)


def section_regex():
    REC.section("regex")
    rng = random.Random(2002)
    for case in range(260):
        pattern = rand_pattern(rng)
        rx = call("B{} compile {}".format(case, pattern), lambda: DNARegex(pattern), lambda r: repr((r.pattern, r.regex.pattern, r.regex.flags, r.regex.groups)))
        if failed(rx):
            continue
        n = rng.randint(3, 40)
        base = rand_dna(rng, n)
        hit = instantiate(plain_letters(pattern), rng)
        if hit and rng.random() < 0.8 and len(hit) <= n:
            pos = rng.randint(0, n - 1)
            doubled = list(base * 2)
            doubled[pos:pos + len(hit)] = hit
            doubled = doubled[:2 * n]
            # fold the part that went over the end back to the start
            base = "".join(doubled[n + i] if pos + len(hit) > n and i < pos + len(hit) - n else doubled[i] for i in range(n))
        base = mix_case(rng, base, 0.25 if case % 4 == 0 else 0)
        targets = [
            ("seq", Seq(base)),
            ("rec", SeqRecord(Seq(base), "r{}".format(case), features=rand_features(rng, n))),
            ("circ", rand_record(rng, base, CircularRecord, "c{}".format(case), "circular")),
        ]
        for tname, target in targets:
            for linear in (True, False):
                res = call("B{} search {} linear={}".format(case, tname, linear), lambda: rx.search(target, linear=linear), lambda m: d_match(m, target))
                if isinstance(res, SeqMatch):
                    emit("B{} type".format(case), type(res).__name__, type(res.match).__name__)
            pos, endpos = rng.randint(0, n + 2), rng.randint(0, n + 5)
            call("B{} search {} pos={} endpos={}".format(case, tname, pos, endpos), lambda: rx.search(target, pos, endpos), lambda m: d_match(m, target))
            call("B{} search {} kwpos={}".format(case, tname, pos), lambda: rx.search(target, pos=pos, linear=False), lambda m: d_match(m, target))
            call("B{} search {} endpos={}".format(case, tname, endpos), lambda: rx.search(target, endpos=endpos, linear=False), lambda m: d_match(m, target))
            call("B{} search {} negpos".format(case, tname), lambda: rx.search(target, -2), lambda m: d_match(m, target))
    rx = DNARegex("ATG(N*)TAA")
    for bad in ("ATGAAATAA", b"ATGAAATAA", None, 12, ["A"], SeqMatch):
        call("B bad search {!r}".format(bad), lambda: rx.search(bad))
        call("B bad search nonlinear {!r}".format(bad), lambda: rx.search(bad, linear=False))
    for bad in ("(", "A)", "N**", None, 3, ""):
        call("B bad pattern {!r}".format(bad), lambda: DNARegex(bad), lambda r: repr((r.pattern, r.regex.pattern)))
    call("B empty seq", lambda: rx.search(Seq("")), lambda m: d_match(m, None))
    call("B empty pattern", lambda: DNARegex("").search(Seq("ACGT")), lambda m: repr((m.span(), str(m.group()))))
    # SeqMatch directly, with spans wrapping the origin once or twice
    import re
    rng = random.Random(2003)
    for case in range(60):
        n = rng.randint(3, 12)
        base = rand_dna(rng, n)
        for target in (Seq(base), SeqRecord(Seq(base), "m"), CircularRecord(Seq(base), "m")):
            a = rng.randint(0, 2 * n)
            b = rng.randint(a, 3 * n)
            m = re.compile("(.{%d})(.{%d})(.*)" % (a, b - a)).match(base * 3)
            sm = SeqMatch(m, target, rng.randint(0, 3))
            call("B{} seqmatch {} {} {}".format(case, type(target).__name__, a, b), lambda: sm, lambda x: d_match(x, target))
    emit("B signature", DNARegex.search.__defaults__, SeqMatch.__init__.__defaults__, SeqMatch.span.__defaults__, SeqMatch.group.__defaults__)


# --- Section C: kits --------------------------------------------------------


def kit_classes(module):
    found = []
    for name in sorted(vars(module)):
        obj = getattr(module, name)
        if isinstance(obj, type) and issubclass(obj, StructuredRecord) and obj.__module__ == module.__name__:
            found.append(obj)
    return found


def d_class(cls):
    out = [cls.__name__, [c.__name__ for c in cls.__mro__], type(cls).__name__, getattr(cls, "_level", "n/a"), repr(getattr(cls, "cutter", "n/a")), repr(getattr(cls, "signature", "n/a")), _utils.isabstract(cls)]
    return repr(out)


def probe(label, cls, record, full=True):
    """Record everything observable about ``cls(record)``."""
    snapshot = d_rec(record)
    describe = d_rec if full else d_short
    entity = call(label + " new", lambda: cls(record), lambda e: type(e).__name__)
    if failed(entity):
        return None
    emit(label + " attrs", entity.record is record, entity.seq is record.seq)
    call(label + " valid", entity.is_valid)
    call(label + " valid2", entity.is_valid)
    for method in ("overhang_start", "overhang_end", "target_sequence", "placeholder_sequence"):
        if hasattr(entity, method):
            call(label + " " + method, getattr(entity, method), describe)
    if hasattr(entity, "target_sequence"):
        first = call(label + " target again", entity.target_sequence, describe)
        second = None if failed(first) else entity.target_sequence()
        emit(label + " target fresh", first is second)
    emit(label + " unchanged", d_rec(record) == snapshot)
    return entity


def make_kit_record(rng, cls, case, rotate=True, wrapper=CircularRecord, extra_site=False, topology="circular"):
    pattern = cls.structure()
    core = instantiate(pattern, rng, star=(2, 25))
    backbone = rand_dna(rng, rng.randint(0, 30), "AT")
    if extra_site:
        site = cls.cutter.site
        core_list = list(core)
        mid = len(core) // 2
        core = "".join(core_list[:mid]) + site + "".join(core_list[mid:])
    seq = core + backbone
    if rng.random() < 0.25:
        seq = mix_case(rng, seq, 0.3)
    rec = rand_record(rng, seq, wrapper if wrapper is not SeqRecord else SeqRecord, "{}_{}".format(cls.__name__, case), topology)
    if rotate and isinstance(rec, CircularRecord):
        rec = rec >> rng.randint(-2 * len(seq), 2 * len(seq))
    return rec


def section_kits():
    REC.section("kits")
    rng = random.Random(3003)
    for module in (ytk, cidar, ecoflex, moclo_kit, plant):
        classes = kit_classes(module)
        emit("C module", module.__name__, module.__author__, module.__version__)
        for cls in classes:
            emit("C class", d_class(cls))
            call("C structure " + cls.__name__, cls.structure)
            call("C structure2 " + cls.__name__, lambda: cls.structure() == cls._get_regex().pattern)
        if module is plant:
            classes = classes + [moclo_kit.MoCloEntry, moclo_kit.MoCloPart]
        concrete = [c for c in classes if not failed(call("C concrete " + c.__name__, c.structure))]
        records = []
        for cls in concrete:
            for case in range(3):
                kind = rng.random()
                wrapper = CircularRecord
                topology = "circular"
                if kind < 0.12:
                    wrapper, topology = SeqRecord, rng.choice(["linear", "circular", None])
                rec = make_kit_record(rng, cls, case, wrapper=wrapper, extra_site=0.12 <= kind < 0.2, topology=topology)
                records.append((cls, rec))
        for owner, rec in records:
            emit("C record", owner.__name__, d_rec(rec))
            for cls in classes:
                if cls is owner or rng.random() < 0.25:
                    probe("C {} on {}".format(cls.__name__, rec.id), cls, rec)
        # characterize on the part base classes
        for cls in classes:
            if issubclass(cls, AbstractPart):
                for owner, rec in records[::5]:
                    call("C characterize {} {}".format(cls.__name__, rec.id), lambda: cls.characterize(rec), lambda e: "{} {}".format(type(e).__name__, e.record is rec))


# Kits over other enzymes -----------------------------------------------------


def enzyme_by_name(name):
    return getattr(Restriction, name)


def section_custom_kits():
    REC.section("custom kits")
    rng = random.Random(4004)
    unknown = sorted((e for e in Restriction.AllEnzymes if e.is_unknown()), key=str)[:2]
    names = ["BsaI", "BsmBI", "BpiI", "BbsI", "SapI", "AarI", "Esp3I", "BtsI", "BsrDI", "BseRI", "BsmI", "BsgI", "MlyI", "EcoRI", "HgaI", "FokI", "EcoRV", "BbvI", "BsmFI"]
    enzymes = [enzyme_by_name(n) for n in names] + unknown
    for enzyme in enzymes:
        tag = str(enzyme)
        sig_len = max(len(enzyme.ovhgseq or ""), 1)
        sig = (rand_dna(rng, sig_len), rand_dna(rng, sig_len))
        classes = {}
        for basename, bases in [
            ("Module", (AbstractModule,)),
            ("Product", (Product,)),
            ("Entry", (Entry,)),
            ("Cassette", (Cassette,)),
            ("Device", (Device,)),
            ("Vector", (AbstractVector,)),
            ("EntryVector", (EntryVector,)),
            ("CassetteVector", (CassetteVector,)),
            ("DeviceVector", (DeviceVector,)),
        ]:
            classes[basename] = type(str(tag + basename), bases, {"cutter": enzyme})
        classes["Part"] = type(str(tag + "Part"), (AbstractPart,), {"cutter": enzyme})
        classes["EntryPart"] = type(str(tag + "EntryPart"), (classes["Part"], classes["Entry"]), {"signature": sig})
        classes["VectorPart"] = type(str(tag + "VectorPart"), (classes["Part"], classes["CassetteVector"]), {"signature": sig})
        classes["WildPart"] = type(str(tag + "WildPart"), (classes["Part"], classes["Entry"]), {"signature": ("N" * sig_len, sig[1])})
        classes["OrphanPart"] = type(str(tag + "OrphanPart"), (classes["Part"],), {"signature": sig})
        for name in sorted(classes):
            cls = classes[name]
            emit("D class", d_class(cls))
            call("D structure " + cls.__name__, cls.structure)
        usable = []
        for name in sorted(classes):
            cls = classes[name]
            try:
                cls.structure()
                cls(SeqRecord(Seq("A")))
            except Exception:
                call("D unusable " + cls.__name__, lambda: cls(SeqRecord(Seq("ACGT"))), lambda e: type(e).__name__)
                continue
            usable.append(cls)
        records = []
        for cls in usable:
            for case in range(2):
                kind = rng.random()
                wrapper, topology = CircularRecord, "circular"
                if kind < 0.1:
                    wrapper, topology = SeqRecord, rng.choice(["linear", None])
                records.append((cls, make_kit_record(rng, cls, case, wrapper=wrapper, extra_site=0.1 <= kind < 0.2, topology=topology)))
        for owner, rec in records:
            emit("D record", owner.__name__, d_rec(rec))
            for cls in usable:
                if cls is owner or rng.random() < 0.2:
                    probe("D {} on {}".format(cls.__name__, rec.id), cls, rec)
        if "Part" in classes:
            for owner, rec in records[::3]:
                call("D characterize {}".format(rec.id), lambda: classes["Part"].characterize(rec), lambda e: "{} {}".format(type(e).__name__, e.record is rec))
                call("D characterize entry {}".format(rec.id), lambda: classes["EntryPart"].characterize(rec), lambda e: "{} {}".format(type(e).__name__, e.record is rec))

    # abstract classes and declaration errors
    for cls in (AbstractModule, AbstractVector, AbstractPart, Product, Entry, Cassette, Device, EntryVector, CassetteVector, DeviceVector):
        emit("D abstract", d_class(cls))
        call("D abstract new " + cls.__name__, lambda: cls(SeqRecord(Seq("ACGT"))), lambda e: type(e).__name__)
        call("D abstract structure " + cls.__name__, cls.structure)
    call("D structured new", lambda: StructuredRecord(SeqRecord(Seq("ACGT"))), lambda e: type(e).__name__)
    call("D structured structure", StructuredRecord.structure)

    class NoSignature(AbstractPart, Entry):
        cutter = Restriction.BsaI

    call("D nosig structure", NoSignature.structure)
    call("D nosig valid", lambda: NoSignature(SeqRecord(Seq("ACGT"))).is_valid())
    call("D nosig characterize", lambda: NoSignature.characterize(SeqRecord(Seq("ACGT"), "nosig")))

    class CustomStructure(Entry):
        cutter = Restriction.BsaI

        @staticmethod
        def structure():
            return "(ATG)(N*?)(TAA)"

    class CustomChild(CustomStructure):
        @classmethod
        def structure(cls):
            return "(ATGG)(N*?)(TAAA)"

    for case in range(8):
        seq = rand_dna(rng, 5) + "ATGG" + rand_dna(rng, rng.randint(0, 9), "CG") + "TAAA" + rand_dna(rng, 4)
        rec = CircularRecord(Seq(seq), "custom{}".format(case)) >> rng.randint(0, 30)
        probe("D custom {}".format(case), CustomStructure, rec)
        probe("D customchild {}".format(case), CustomChild, rec)
        probe("D custom again {}".format(case), CustomStructure, rec)
    # a concrete part with concrete subclasses: subclasses are tried first
    class FamilyPart(AbstractPart, Entry):
        cutter = Restriction.BsaI
        signature = ("NNNN", "NNNN")

    class FamilyChildA(FamilyPart):
        signature = ("AAAA", "NNNN")

    class FamilyChildB(FamilyPart):
        signature = ("NNNN", "CCCC")

    class FamilyGrandChild(FamilyChildA):
        signature = ("AAAA", "CCCC")

    for case, (start, end) in enumerate([("AAAA", "CCCC"), ("AAAA", "GGGG"), ("TTTT", "CCCC"), ("TTTT", "GGGG"), ("aaaa", "cccc")]):
        seq = "GGTCTCA" + start + rand_dna(rng, 12, "AT") + end + "TGAGACC" + rand_dna(rng, 6, "AT")
        rec = CircularRecord(Seq(seq), "family{}".format(case)) >> rng.randint(0, 50)
        for cls in (FamilyPart, FamilyChildA, FamilyChildB, FamilyGrandChild):
            call("D family {} {}".format(case, cls.__name__), lambda: cls.characterize(rec), lambda e: "{} {}".format(type(e).__name__, e.record is rec))
    call("D family junk", lambda: FamilyPart.characterize(CircularRecord(Seq("ATATATATAT"), "junk")), lambda e: type(e).__name__)

    emit("D regex cache", CustomStructure._get_regex() is CustomStructure._get_regex(), CustomChild._get_regex() is CustomStructure._get_regex(), CustomChild._get_regex().pattern, CustomStructure._get_regex().pattern)


# --- Section E: assemblies --------------------------------------------------


def distinct_overhangs(rng, count, size):
    """Pick overhangs that are neither equal nor reverse-complementary."""
    chosen = []
    assert count <= (4 ** size - (4 ** (size // 2) if size % 2 == 0 else 0)) // 2
    while len(chosen) < count:
        cand = rand_dna(rng, size)
        if cand == revcomp(cand):
            continue
        if any(cand == c or cand == revcomp(c) for c in chosen):
            continue
        chosen.append(cand)
    return chosen


def build_entity(rng, cls, ident, start, end, rotate=True, lower=False, citations=None, references=None, star=(3, 20), wrapper=CircularRecord, topology="circular", extra="", middle=None):
    pattern = cls.structure()
    if issubclass(cls, AbstractVector):
        groups = {1: end, 3: start}
    else:
        groups = {1: start, 3: end}
    if middle is not None:
        groups[2] = middle
    for _ in range(50):
        core = instantiate(pattern, rng, groups, star=star)
        seq = core + extra + rand_dna(rng, rng.randint(0, 12), "AT")
        if len(cls.cutter.catalyse(Seq(seq * 2))) <= 5:
            break
    if lower:
        seq = mix_case(rng, seq, 0.5)
    rec = rand_record(rng, seq, wrapper, ident, topology, citations, references)
    if rotate and isinstance(rec, CircularRecord):
        rec = rec >> rng.randint(-3 * len(seq), 3 * len(seq))
    return cls(rec)


class KeyErrorModule(AbstractModule):
    cutter = Restriction.BpiI

    def target_sequence(self):
        raise KeyError("boom")


def run_assembly(label, vector, modules, **kwargs):
    elements = [vector] + list(modules)
    before = [d_rec(e.record) for e in elements]
    order = list(modules)
    result = call(label, lambda: vector.assemble(*modules, **kwargs), d_rec)
    after = [d_rec(e.record) for e in elements]
    emit(label + " inputs", [a == b for a, b in zip(before, after)], order == list(modules))
    for e, a, b in zip(elements, before, after):
        if a != b:
            emit(label + " mutated", e.record.id, b)
    if not failed(result):
        emit(label + " result", type(result).__name__, [f.qualifiers is g.qualifiers for f in result.features for e in elements for g in e.record.features][:0], result.annotations.get("comment"))
    return result


def section_assembly():
    REC.section("assembly")
    rng = random.Random(5005)
    enzymes = ["BpiI", "BsaI", "BsmBI", "SapI", "AarI", "BtsI", "BsrDI", "BsmI"]
    refs = ["ref one", "ref two", "ref three"]
    for case in range(150):
        enzyme = enzyme_by_name(enzymes[case % len(enzymes)])
        size = len(enzyme.ovhgseq)
        vattrs, mattrs = {"cutter": enzyme}, {"cutter": enzyme}
        if enzyme.is_3overhang() and case % 16 >= 8:
            # the default structures do not support 3' overhangs: declare one
            site, ovh = enzyme.site, "N" * size
            mattrs["structure"] = classmethod(lambda cls, p="{0}({1})(NN*N)({1}){2}".format(site, ovh, revcomp(site)): p)
            vattrs["structure"] = staticmethod(lambda p="({1})({2}N*{0})({1})".format(site, ovh, revcomp(site)): p)
        vcls = type(str("V{}".format(case)), (rng.choice([AbstractVector, EntryVector, CassetteVector, DeviceVector]),), vattrs)
        mcls = type(str("M{}".format(case)), (rng.choice([AbstractModule, Product, Entry, Cassette, Device]),), mattrs)
        k = rng.randint(1, 4 if size > 2 else 2)
        ovs = distinct_overhangs(rng, k + 3, size)
        chain = ovs[:k + 1]
        mode = ["ok", "shuffled", "missing", "duplicate", "same-object", "revcomp", "palindrome", "unused", "same-vector", "lowercase", "invalid-module", "illegal-site", "citations", "bad-citation", "plain-records", "kwargs", "keyerror", "unused-many", "invalid-vector", "missing-first"][case % 20]
        label = "E{} {} {}".format(case, enzymes[case % len(enzymes)], mode)
        use_cit = mode in ("citations", "bad-citation") or rng.random() < 0.2
        cits = ["[1]", "[2]", "[3]"] if use_cit else None
        if mode == "bad-citation":
            cits = rng.choice([["[1]", "bad"], ["[]", "[2]"], ["[7]", "[1]"], ["[0]"], ["[2] trailing", " [1]"]])

        def refs_for():
            if mode == "bad-citation" or rng.random() < 0.1:
                return list(refs[:rng.randint(1, 3)])
            return list(refs) if use_cit else None

        lower = mode == "lowercase"
        wrapper, topology = CircularRecord, "circular"
        if mode == "plain-records":
            wrapper, topology = SeqRecord, rng.choice(["linear", "circular"])
        vstart, vend = chain[-1], chain[0]
        if mode == "same-vector":
            vstart = vend
        try:
            vector = build_entity(rng, vcls, "vec{}".format(case), vstart, vend, lower=lower, citations=cits, references=refs_for())
            modules = [
                build_entity(rng, mcls, "mod{}_{}".format(case, i), chain[i], chain[i + 1], lower=lower and i % 2 == 0, citations=cits, references=refs_for(), wrapper=wrapper, topology=topology)
                for i in range(k)
            ]
        except Exception as exc:  # e.g. 2-nt overhangs exhausted
            emit(label, "generation failed", d_exc(exc))
            continue
        if mode == "shuffled":
            rng.shuffle(modules)
        elif mode == "missing":
            modules.pop(rng.randrange(len(modules)))
            if not modules:
                modules = [build_entity(rng, mcls, "modx{}".format(case), ovs[-1], ovs[-2])]
        elif mode == "missing-first":
            modules[0] = build_entity(rng, mcls, "modx{}".format(case), ovs[-1], chain[1])
        elif mode == "duplicate":
            i = rng.randrange(k)
            modules.insert(rng.randint(0, k), build_entity(rng, mcls, "dup{}".format(case), chain[i], ovs[-1], lower=rng.random() < 0.5))
        elif mode == "same-object":
            modules.append(modules[0])
        elif mode == "revcomp":
            i = rng.randrange(k)
            modules.insert(rng.randint(0, k), build_entity(rng, mcls, "rc{}".format(case), revcomp(chain[i]), ovs[-1]))
        elif mode == "palindrome" and size == 4:
            pal = rng.choice(["ACGT", "AATT", "GATC", "TGCA"])
            modules.append(build_entity(rng, mcls, "pal{}".format(case), pal, ovs[-1]))
        elif mode == "unused":
            modules.append(build_entity(rng, mcls, "extra{}".format(case), ovs[-1], ovs[-2]))
        elif mode == "unused-many":
            modules.insert(0, build_entity(rng, mcls, "extraA{}".format(case), ovs[-1], ovs[-2]))
            modules.append(build_entity(rng, mcls, "extraB{}".format(case), ovs[-2], chain[0]))
            rng.shuffle(modules)
        elif mode == "invalid-module":
            modules.insert(rng.randint(0, k), mcls(CircularRecord(Seq(rand_dna(rng, 40, "AT")), "junk{}".format(case))))
        elif mode == "illegal-site":
            i = rng.randrange(k)
            if rng.random() < 0.5:
                modules[i] = build_entity(rng, mcls, "illegal{}".format(case), chain[i], chain[i + 1], extra=enzyme.site + "A" + enzyme.site)
            else:
                modules[i] = build_entity(rng, mcls, "illegal{}".format(case), chain[i], chain[i + 1], middle="AC" + enzyme.site + "ACGTTGCA" + revcomp(enzyme.site) + "CA")
        elif mode == "invalid-vector":
            vector = vcls(CircularRecord(Seq(rand_dna(rng, 50, "AT")), "junkvec{}".format(case)))
        elif mode == "keyerror" and enzyme is Restriction.BpiI:
            modules[-1] = KeyErrorModule(modules[-1].record)
        kwargs = {}
        if mode == "kwargs":
            kwargs = rng.choice([{"name": "my name"}, {"id": "my_id"}, {"id": "i", "name": "n", "other": 1}, {"id_": "ignored"}])
        emit(label + " setup", [m.record.id for m in modules], vector.record.id, kwargs)
        result = run_assembly(label, vector, modules, **kwargs)
        # run it a second time: citations must have been restored
        run_assembly(label + " again", vector, modules, **kwargs)
        if not failed(result):
            # the product of an assembly should be usable as a record
            call(label + " product shift", lambda: result >> 7, d_rec)
    call("E no modules", lambda: vector.assemble(), d_rec)
    call("E not a module", lambda: vector.assemble(None), d_rec)
    call("E list argument", lambda: vector.assemble(modules), d_rec)


# --- Section F: registries --------------------------------------------------


def d_item(item, full=False):
    entity = item.entity
    out = [type(item).__name__, item.id, item.name, item.resistance, type(entity).__name__, item.record is entity.record, type(item.record).__name__, tuple(item)[0], len(item)]
    return repr(out) + " " + (d_rec(item.record) if full else d_short(item.record))


KIT_OF_REGISTRY = [
    ("ytk", YTKRegistry, ytk, ytk.YTKPart),
    ("ptk", PTKRegistry, ytk, ytk.YTKPart),
    ("cidar", CIDARRegistry, cidar, cidar.CIDARPart),
    ("ecoflex", EcoFlexRegistry, ecoflex, ecoflex.EcoFlexPart),
    ("plant", PlantRegistry, moclo_kit, moclo_kit.MoCloPart),
]


def section_embedded(registries):
    REC.section("embedded registries")
    rng = random.Random(6006)
    for name, factory, module, part_base in KIT_OF_REGISTRY:
        reg = factory()
        registries[name] = reg
        other = factory()
        emit("F {} eq".format(name), reg == other, hash(reg) == hash(other), reg == YTKRegistry(), reg != PTKRegistry(), reg == 3, reg._file, reg._module)
        call("F {} len".format(name), lambda: len(reg))
        keys = call("F {} iter".format(name), lambda: list(reg))
        call("F {} keys".format(name), lambda: sorted(reg.keys()) == sorted(keys))
        call("F {} missing".format(name), lambda: reg["nope"], d_item)
        call("F {} contains".format(name), lambda: ("nope" in reg, keys[0] in reg, 3 in reg))
        call("F {} get".format(name), lambda: reg.get("nope", "default"))
        classes = [c for c in kit_classes(module)]
        for key in sorted(keys):
            item = call("F {} item {}".format(name, key), lambda: reg[key], d_item)
            if failed(item):
                continue
            emit("F {} item identity".format(name), reg[key] is item)
            entity = item.entity
            call("F {} {} valid".format(name, key), entity.is_valid)
            for method in ("overhang_start", "overhang_end", "target_sequence", "placeholder_sequence"):
                if hasattr(entity, method):
                    call("F {} {} {}".format(name, key, method), getattr(entity, method), d_short if method.endswith("sequence") else d_rec)
            for cls in rng.sample(classes, 3):
                call("F {} {} as {}".format(name, key, cls.__name__), lambda: cls(item.record).is_valid())
            if rng.random() < 0.2:
                call("F {} {} characterize".format(name, key), lambda: part_base.characterize(item.record), lambda e: type(e).__name__)
            if rng.random() < 0.15:
                k = rng.randint(-20000, 20000)
                call("F {} {} rotate {}".format(name, key, k), lambda: type(entity)(item.record >> k).target_sequence(), d_short)
                call("F {} {} resistance".format(name, key), lambda: find_resistance(item.record << k))
        call("F {} values".format(name), lambda: [i.id for i in reg.values()] == keys)
        call("F {} items".format(name), lambda: [k for k, _ in reg.items()] == keys)

    # hooks of the embedded registry
    class LoggingRegistry(YTKRegistry):
        # NB: registries with the same ``_file`` are equal, and share their
        # cached data, so a different spelling of the file name is needed
        _file = "./ytk.tar.gz"

        def __init__(self):
            self.log = []

        def _load_name(self, record):
            self.log.append(("name", record.id, record.annotations["comment"].count("YTK:")))
            return "name of " + record.id

        def _load_resistance(self, record):
            self.log.append(("resistance", record.id, record.annotations["comment"].count("YTK:")))
            return super(LoggingRegistry, self)._load_resistance(record)

        def _load_entity(self, record):
            self.log.append(("entity", record.id, record.annotations["comment"].count("YTK:")))
            return super(LoggingRegistry, self)._load_entity(record)

    logging_reg = LoggingRegistry()
    call("F logging item", lambda: logging_reg["pYTK003"], d_item)
    emit("F logging order", logging_reg.log[:9], len(logging_reg.log))

    class StrippingRegistry(YTKRegistry):
        _file = "././ytk.tar.gz"

        def _load_name(self, record):
            if record.id == "pYTK004":
                del record.features[:]
            return record.name

    call("F stripping", lambda: StrippingRegistry()["pYTK001"], d_item)
    shared = YTKRegistry()
    emit("F shared cache", shared["pYTK001"] is registries["ytk"]["pYTK001"], logging_reg["pYTK001"] is registries["ytk"]["pYTK001"], logging_reg == shared, len(logging_reg))

    class AbstractlessRegistry(registry_base.EmbeddedRegistry):
        _module = YTKRegistry._module
        _file = "ytk.tar.gz"

    call("F abstractless", lambda: AbstractlessRegistry()["pYTK001"], d_item)
    reg = registries["ytk"]
    feats = lambda *labels: [SeqFeature(SimpleLocation(0, 2), type="CDS", qualifiers={"label": list(lab)} if lab is not None else {}) for lab in labels]  # noqa: E731
    for v, features in enumerate([
        feats(),
        feats(None),
        feats(["x"], ["KanR"]),
        feats(["KanR", "AmpR"]),
        feats(["KanR", "KanR"]),
        feats(["kanr"]),
        feats(["CmR"], ["AmpR"]),
        feats(["SmR", "other"]),
        feats(["SpecR"]),
        feats(["KnR"]),
        feats(["CamR"]),
    ]):
        rec = SeqRecord(Seq("ACGT"), "res{}".format(v), features=features)
        call("F find_resistance {}".format(v), lambda: find_resistance(rec))
        call("F load_resistance {}".format(v), lambda: reg._load_resistance(rec))
        call("F load_name {}".format(v), lambda: reg._load_name(rec))


def write_genbank(memfs, path, record):
    buff = io.StringIO()
    out = copy.deepcopy(record)
    out.annotations.setdefault("molecule_type", "DNA")
    Bio.SeqIO.write([out], buff, "genbank")
    with memfs.open(path, "w") as handle:
        handle.write(buff.getvalue())
    return buff.getvalue()


def section_filesystem(registries):
    REC.section("other registries")
    rng = random.Random(7007)
    ytk_reg = registries["ytk"]
    memfs = fs.open_fs("mem://")
    genbank = {}
    for key in ("pYTK002", "pYTK038", "pYTK047", "pYTK095", "pYTK001"):
        genbank[key] = write_genbank(memfs, key + ".gb", ytk_reg[key].record)
    write_genbank(memfs, "pYTK003.gbk", ytk_reg["pYTK003"].record)
    write_genbank(memfs, "pYTK002.gbk", ytk_reg["pYTK004"].record)
    write_genbank(memfs, "other.genbank", ytk_reg["pYTK005"].record)
    write_genbank(memfs, "cidar.gb", registries["cidar"]["DVA_GB"].record)
    with memfs.open("broken.gb", "w") as handle:
        handle.write("this is not a genbank file\n")
    with memfs.open("empty.gb", "w") as handle:
        handle.write("")
    memfs.makedir("folder.gb")
    memfs.makedir("sub")
    write_genbank(memfs, "sub/pYTK006.gb", ytk_reg["pYTK006"].record)
    noresist = copy.deepcopy(ytk_reg["pYTK008"].record)
    noresist.features = [f for f in noresist.features if "CmR" not in f.qualifiers.get("label", [])]
    write_genbank(memfs, "noresist.gb", noresist)
    bothfail = copy.deepcopy(registries["cidar"]["DVA_GB"].record)
    bothfail.features = [f for f in bothfail.features if "AmpR" not in f.qualifiers.get("label", [])]
    write_genbank(memfs, "bothfail.gb", bothfail)

    for bname, base_cls in [("part", ytk.YTKPart), ("part8", ytk.YTKPart8), ("entry", ytk.YTKEntry), ("abstractpart", AbstractPart), ("part1", ytk.YTKPart1), ("vector", ytk.YTKCassetteVector)]:
        for extensions in (None, ("gbk", "gb"), ("genbank",), ()):
            label = "G {} {}".format(bname, extensions)
            if extensions is None:
                reg = call(label + " new", lambda: registry_base.FilesystemRegistry(memfs, base_cls), lambda r: type(r).__name__)
            else:
                reg = call(label + " new", lambda: registry_base.FilesystemRegistry(memfs, base_cls, extensions), lambda r: type(r).__name__)
            if failed(reg):
                continue
            emit(label + " attrs", reg.base is base_cls)
            call(label + " len", lambda: len(reg))
            keys = call(label + " iter", lambda: sorted(reg))
            call(label + " list", lambda: len(list(reg)))
            for key in ["pYTK002", "pYTK038", "pYTK047", "pYTK095", "pYTK001", "pYTK003", "other", "cidar", "broken", "empty", "folder", "sub/pYTK006", "pYTK006", "noresist", "bothfail", "nope", "", 3, None]:
                item = call(label + " item {!r}".format(key), lambda: reg[key], lambda i: d_item(i, False))
                call(label + " contains {!r}".format(key), lambda: key in reg)
                if not failed(item):
                    emit(label + " item fresh", reg[key] is item, item.record.id, item.record.name)
    for bad in (SeqRecord, "YTKPart", None, ytk.YTKPart1(ytk_reg["pYTK002"].record), object, StructuredRecord):
        call("G bad base {!r}".format(bad if not isinstance(bad, StructuredRecord) else "instance"), lambda: registry_base.FilesystemRegistry(memfs, bad), lambda r: type(r).__name__)
    call("G bad url", lambda: registry_base.FilesystemRegistry("nonexistent-protocol://x", ytk.YTKPart), lambda r: type(r).__name__)
    reg = registry_base.FilesystemRegistry(memfs, ytk.YTKPart)
    call("G readonly", lambda: reg.fs.makedir("new"))

    # combined registries
    combined = registry_base.CombinedRegistry()
    emit("H empty", len(combined), list(combined), "x" in combined)
    call("H empty item", lambda: combined["x"])
    call("H chain", lambda: (combined << registries["ytk"] << registries["ptk"]) is combined)
    emit("H len", len(combined), len(list(combined)), list(combined)[:5], list(combined)[-5:])
    emit("H identity", combined["pYTK001"] is registries["ytk"]["pYTK001"], combined["pPTK003"] is registries["ptk"]["pPTK003"], "B0030_AF" in combined, "pYTK001" in combined)
    call("H missing", lambda: combined["B0030_AF"])
    call("H add fs", lambda: combined.add_registry(registry_base.FilesystemRegistry(memfs, ytk.YTKPart, ("gbk",))))
    emit("H after fs", len(combined), combined["pYTK002"] is registries["ytk"]["pYTK002"], combined["pYTK003"].name)
    second = registry_base.CombinedRegistry()
    call("H add fs first", lambda: second.add_registry(registry_base.FilesystemRegistry(memfs, ytk.YTKPart, ("gbk",))))
    call("H add ytk second", lambda: second.add_registry(registries["ytk"]))
    emit("H precedence", len(second), second["pYTK002"] is registries["ytk"]["pYTK002"], second["pYTK002"].name, list(second)[:4])
    call("H add dict", lambda: second.add_registry({"k": registries["cidar"]["DVA_GB"]}))
    emit("H dict", "DVA_GB" in second, "k" in second)
    call("H add list", lambda: second.add_registry([1, 2]))
    call("H add combined", lambda: len(registry_base.CombinedRegistry() << second << combined))
    emit("H abc", isinstance(second, registry_base.AbstractRegistry), issubclass(registry_base.EmbeddedRegistry, registry_base.AbstractRegistry), [c.__name__ for c in registry_base.Item.__mro__], registry_base.Item._fields)
    item = registry_base.Item("i", "n", ytk.YTKPart1(ytk_reg["pYTK002"].record), "r")
    item.custom = 1
    emit("H item", item.custom, item.record is ytk_reg["pYTK002"].record, item._asdict().keys() == {"id", "name", "entity", "resistance"}, item._replace(id="j").id)
    call("H item kw", lambda: registry_base.Item(resistance="r", entity=None, name="n", id="i"))
    call("H item short", lambda: registry_base.Item("i"))
    call("H item record", lambda: registry_base.Item("i", "n", None, "r").record)

    # eLabFTW, with a fake server
    section_elabftw(rng, genbank)
    memfs.close()


class FakeResponse(io.BytesIO):
    pass


def section_elabftw(rng, genbank):
    exported = genbank["pYTK038"].replace("LOCUS       pYTK038", "LOCUS       Exported", 1)
    items = [
        {"id": 1, "category": "Plasmids", "title": "plasmid two", "tags": "ytk|type1", "uploads": [{"long_name": "two.gb"}]},
        {"id": 2, "category": "Plasmids", "title": "plasmid exported", "tags": "ytk|type3a", "uploads": [{"long_name": "notes.txt"}, {"long_name": "binary.bin"}, {"long_name": "exported.gb"}, {"long_name": "two.gb"}]},
        {"id": 3, "category": "Strains", "title": "a strain", "tags": None, "uploads": []},
        {"id": 4, "category": "Plasmids", "title": "no upload", "tags": "", "uploads": []},
        {"id": 5, "category": "Plasmids", "title": "no uploads key", "tags": None},
        {"id": 6, "category": "Plasmids", "title": "vector", "tags": "ytk|vector|old", "uploads": [{"long_name": "vector.gb"}]},
        {"id": 7, "category": "Plasmids", "title": "plasmid two", "tags": "dup", "uploads": [{"long_name": "exported.gb"}]},
        {"id": 8, "category": "Plasmids", "title": "text only", "tags": "old", "uploads": [{"long_name": "notes.txt"}]},
    ]
    uploads = {
        "two.gb": genbank["pYTK002"].encode("utf-8"),
        "exported.gb": exported.encode("utf-8"),
        "vector.gb": genbank["pYTK095"].encode("utf-8"),
        "notes.txt": b"just some notes\n",
        "binary.bin": b"\xff\xfe\x00binary",
    }
    requests = []

    def fake_urlopen(req, *args, **kwargs):
        ctx = kwargs.get("context")
        requests.append((
            req.full_url,
            sorted(req.header_items()),
            sorted(kwargs),
            len(args),
            None if ctx is None else (ctx.check_hostname, int(ctx.verify_mode)),
        ))
        url = req.full_url
        if "/api/v1/items/" in url:
            tail = url.split("/api/v1/items/", 1)[1]
            if not tail:
                return FakeResponse(json.dumps([{k: v for k, v in i.items() if k != "uploads"} for i in items]).encode("utf-8"))
            found = [i for i in items if str(i["id"]) == tail]
            return FakeResponse(json.dumps(found[0]).encode("utf-8"))
        if "/uploads/" in url:
            return FakeResponse(uploads[url.split("/uploads/", 1)[1]])
        raise ValueError("unexpected url: " + url)

    original = urllib.request.urlopen
    urllib.request.urlopen = fake_urlopen
    try:
        for v, kwargs in enumerate([
            {},
            {"strict_ssl": True},
            {"category": "Strains"},
            {"include_tags": ["ytk"]},
            {"include_tags": ("type1", "vector"), "exclude_tags": {"old"}},
            {"exclude_tags": ["ytk"]},
            {"include_tags": []},
            {"exclude_tags": []},
            {"ignore_unknown": False},
            {"ignore_unknown": False, "exclude_tags": ["old"], "include_tags": ["ytk"]},
            {"category": "Nothing"},
        ]):
            for bname, base_cls in (("part", ytk.YTKPart), ("entry", ytk.YTKEntry), ("part1", ytk.YTKPart1)):
                label = "I{} {}".format(v, bname)
                reg = call(label + " new", lambda: ELabFTWRegistry("http://elab.example.org:3418", "secret-token", base_cls, **kwargs), lambda r: type(r).__name__)
                if failed(reg):
                    continue
                emit(label + " attrs", reg.base is base_cls, reg.server, reg.token, reg.category)
                call(label + " iter", lambda: list(reg))
                call(label + " len", lambda: len(reg))
                call(label + " hint", lambda: reg.__length_hint__())
                for key in ("plasmid two", "plasmid exported", "a strain", "no upload", "no uploads key", "vector", "text only", "nope"):
                    call(label + " item " + key, lambda: reg[key], lambda i: d_item(i, False) + " " + repr((i.record.id, i.record.name)))
                    call(label + " contains " + key, lambda: key in reg)
        emit("I requests", len(requests), hashlib.sha256(repr(requests).encode()).hexdigest(), requests[:3], requests[-2:])
    finally:
        urllib.request.urlopen = original
    for args in [
        ("http://x", "t", SeqRecord),
        ("http://x", "t", "YTKPart"),
        (b"http://x", "t", ytk.YTKPart),
        (None, "t", ytk.YTKPart),
        (3, "t", ytk.YTKPart),
        ("ftp://x", "t", ytk.YTKPart),
        ("", "t", ytk.YTKPart),
        ("httpx", None, AbstractModule),
        (3, "t", 3),
    ]:
        call("I ctor {!r}".format(args), lambda: ELabFTWRegistry(*args), lambda r: repr((type(r).__name__, r.server, r.token, r.category)))


def section_registry_assemblies(registries):
    """Assemble real plasmids picked by walking the overhangs of a registry."""
    REC.section("registry assemblies")
    rng = random.Random(8008)
    for name in ("ytk", "cidar", "ecoflex", "plant"):
        reg = registries[name]
        pool = dict(reg.items())
        if name == "ytk":
            pool.update(registries["ptk"].items())
        if name == "plant":
            pool = {k: v for k, v in pool.items()}
        vectors, modules = [], []
        for key in sorted(pool):
            entity = pool[key].entity
            try:
                start, end = str(entity.overhang_start()).upper(), str(entity.overhang_end()).upper()
            except Exception:
                continue
            (vectors if isinstance(entity, AbstractVector) else modules).append((key, entity, start, end))
        emit("J pool", name, len(vectors), len(modules))
        done = 0
        attempts = 0
        while done < 14 and attempts < 400 and vectors:
            attempts += 1
            vkey, vector, vstart, vend = rng.choice(vectors)
            cutter = vector.cutter
            chain, current, ok = [], vend, False
            for _ in range(9):
                if current == vstart:
                    ok = True
                    break
                candidates = [m for m in modules if m[2] == current and m[1].cutter is cutter and all(m[0] != c[0] and m[3] != c[2] for c in chain) and m[3] != current]
                if not candidates:
                    break
                pick = rng.choice(candidates)
                chain.append(pick)
                current = pick[3]
            if not ok or not chain:
                continue
            done += 1
            mods = [c[1] for c in chain]
            label = "J {} {} <- {}".format(name, vkey, "+".join(c[0] for c in chain))
            variant = done % 7
            if variant == 1:
                rng.shuffle(mods)
            elif variant == 2 and len(mods) > 1:
                mods.pop(rng.randrange(len(mods)))
                label += " (missing)"
            elif variant == 3:
                same = [m for m in modules if m[2] == chain[0][2] and m[0] != chain[0][0] and m[1].cutter is cutter]
                if same:
                    mods.append(rng.choice(same)[1])
                    label += " (duplicate)"
            elif variant == 4:
                extra = [m for m in modules if m[1].cutter is cutter and all(m[2] != c[2] and revcomp(m[2]) != c[2] for c in chain) and m[2] != revcomp(m[2])]
                if extra:
                    mods.append(rng.choice(extra)[1])
                    label += " (unused)"
            elif variant == 5:
                # rotated copies of the same plasmids must give the same product
                mods = [type(m)(m.record >> rng.randint(-9000, 9000)) for m in mods]
                vector = type(vector)(vector.record << rng.randint(-9000, 9000))
                label += " (rotated)"
            result = call(label, lambda: vector.assemble(*mods, id="asm{}".format(done), name="asm"), d_short)
            if not failed(result):
                emit(label + " detail", len(result), str(result.seq[:30]), result.id, result.name, len(result.features), d_annotations({k: v for k, v in result.annotations.items() if k != "references"}), len(result.annotations.get("references", [])))
                emit(label + " citations", [f.qualifiers.get("citation") for f in result.features if "citation" in f.qualifiers][:12])
            emit(label + " inputs", [d_short(m.record) for m in mods], d_short(vector.record))

    # the reference assembly shipped with the test-suite
    import fs.archive  # noqa: F401
    from tests._utils import DATAFS
    with fs.archive.open_archive(DATAFS, "cases/ytk_integration_vector.tar.xz") as casefs:
        with casefs.open("result.fa") as handle:
            expected = CircularRecord(Bio.SeqIO.read(handle, "fasta"))
        with casefs.open("vector.fa") as handle:
            vector = CircularRecord(Bio.SeqIO.read(handle, "fasta"))
        with casefs.open("modules.fa") as handle:
            mods = {r.id: CircularRecord(r) for r in Bio.SeqIO.parse(handle, "fasta")}
    typed = [
        ytk.YTKPart1(mods["pYTK008.gb"]), ytk.YTKPart234r(mods["pYTK047.gb"]), ytk.YTKPart5(mods["pYTK073.gb"]),
        ytk.YTKPart6(mods["pYTK074.gb"]), ytk.YTKPart7(mods["pYTK086.gb"]), ytk.YTKPart8b(mods["pYTK092.gb"]),
    ]
    result = call("J reference", lambda: ytk.YTKPart8a(vector).assemble(*typed), d_short)
    if not failed(result):
        emit("J reference check", len(result) == len(expected), str(result.seq) in str(expected.seq) * 2)


# --- Section K: errors and helpers ------------------------------------------


def section_errors():
    REC.section("errors and helpers")

    class FakeModule(object):
        def __init__(self, ident):
            self.record = SeqRecord(Seq("ACGT"), ident)

    m1, m2 = FakeModule("m1"), FakeModule("m{}")
    detail_values = [None, "plain", "with {} braces", "with {0} index", "{", "}", "{name}", "", 3, ["list"], b"bytes"]
    sequences = [Seq("ACGT"), SeqRecord(Seq("ACGT"), "sr"), "text {}", None, 12]
    for details in detail_values:
        for seq in sequences:
            for cls in (errors.InvalidSequence, errors.IllegalSite):
                label = "K {} {!r} {!r}".format(cls.__name__, type(seq).__name__, details)
                exc = cls(seq, details=details)
                call(label, lambda: str(exc))
                emit(label + " attrs", exc.sequence is seq, exc.exc, exc.details, len(exc.args), isinstance(exc, ValueError), isinstance(exc, errors.MocloError))
        call("K dup {!r}".format(details), lambda: str(errors.DuplicateModules(m1, m2, details=details)))
        call("K dup1 {!r}".format(details), lambda: str(errors.DuplicateModules(details=details)))
        call("K missing {!r}".format(details), lambda: str(errors.MissingModule(Seq("ACGT"), details=details)))
        call("K missing2 {!r}".format(details), lambda: str(errors.MissingModule("A{}T", details=details)))
        call("K unused {!r}".format(details), lambda: str(errors.UnusedModules(m1, m2, m1, details=details)))
    call("K invalid exc", lambda: (lambda e: (e.exc, e.args, str(e)))(errors.InvalidSequence("s", "cause")))
    call("K invalid positional", lambda: (lambda e: (e.exc, e.details, str(e)))(errors.InvalidSequence("s", "cause", "det")))
    call("K invalid no arg", lambda: errors.InvalidSequence())
    call("K missing no arg", lambda: errors.MissingModule())
    call("K dup extra option", lambda: (lambda e: (e.duplicates, e.details, e.args))(errors.DuplicateModules(1, 2, details="d", other="x")))
    call("K unused extra option", lambda: (lambda e: (e.remaining, e.details, e.args))(errors.UnusedModules(1, 2, other="x")))
    call("K missing extra option", lambda: (lambda e: (e.start_overhang, e.details, e.args))(errors.MissingModule("s", other="x")))
    for cls in (errors.MocloError, errors.InvalidSequence, errors.IllegalSite, errors.AssemblyError, errors.DuplicateModules, errors.MissingModule, errors.AssemblyWarning, errors.UnusedModules):
        emit("K mro", cls.__name__, [c.__name__ for c in cls.__mro__])
    call("K warn", lambda: warnings.warn(errors.UnusedModules(m1, details="d")))

    # private helpers exercised by the test-suite
    class WithProperty(object):
        @_utils.classproperty
        def value(cls):
            return cls.__name__

    class Child(WithProperty):
        pass

    emit("K classproperty", WithProperty.value, Child.value, Child().value)

    class AbstractAttr(object):
        thing = NotImplemented

    import collections.abc
    emit("K isabstract", _utils.isabstract(collections.abc.Iterable), _utils.isabstract(int), _utils.isabstract(AbstractAttr), _utils.isabstract(ytk.YTKPart), _utils.isabstract(ytk.YTKPart1), _utils.isabstract(StructuredRecord))

    def noisy(value, category=UserWarning):
        """Docstring of noisy."""
        warnings.warn("warned {}".format(value), category)
        return value * 2

    for args, kwargs in [(("ignore",), {}), (("error",), {}), (("always",), {}), (("error",), {"category": DeprecationWarning}), (("ignore", UserWarning, 0, True), {}), (("bogus",), {})]:
        wrapped = _utils.catch_warnings(*args, **kwargs)(noisy)
        emit("K catch_warnings names", wrapped.__name__, wrapped.__doc__, wrapped.__wrapped__ is noisy)
        call("K catch_warnings {} {}".format(args[:1], sorted(kwargs)), lambda: wrapped(3))
        call("K catch_warnings dep {} {}".format(args[:1], sorted(kwargs)), lambda: wrapped(4, category=DeprecationWarning))
    call("K import none", lambda: _impl._import_from("surely_not_a_module_a", None))
    call("K import missing", lambda: _impl._import_from("surely_not_a_module_a", "surely_not_a_module_b"))
    call("K import first", lambda: _impl._import_from("surely_not_a_module_a", "json").__name__)
    call("K import empty", lambda: _impl._import_from())
    emit("K impl", _impl.bz2.__name__, _impl.json.__name__, _impl.ssl.__name__)
    emit("K version", moclo.__version__, moclo.__author__)


# --- Main -------------------------------------------------------------------


def main():
    warnings.simplefilter("ignore")
    registries = {}
    section_errors()
    section_record()
    section_regex()
    section_kits()
    section_custom_kits()
    section_assembly()
    section_embedded(registries)
    section_filesystem(registries)
    section_registry_assemblies(registries)
    REC.report()


if __name__ == "__main__":
    main()
