"""Differential digest of the assembly machinery and its supporting code through the existing API (pair 2)."""
import sys

sys.path.insert(0, "/tmp/agents7/C11")
import tests  # noqa: E402,F401  (splices the kit packages into the moclo namespace)

import warnings  # noqa: E402

# ---- construction helpers (shared verbatim by demo.py and equiv.py) ---------
import random
import re

from Bio.Seq import Seq
from Bio.SeqRecord import SeqRecord
from Bio.SeqFeature import SeqFeature, FeatureLocation, Reference

from moclo.record import CircularRecord

ENZ = {"BsaI": ("GGTCTC", 1), "BbsI": ("GAAGAC", 2), "BpiI": ("GAAGAC", 2), "BsmBI": ("CGTCTC", 1)}
SITES = ["GGTCTC", "GAGACC", "GAAGAC", "GTCTTC", "CGTCTC", "GAGACG"]


def rc(s):
    return str(Seq(s).reverse_complement())


def nsites(s):
    s = s.upper()
    s = s + s[:5]
    return sum(len(re.findall("(?=%s)" % site, s)) for site in SITES)


def dna(rng, n):
    """Random DNA that contains none of the Type IIS sites used by the kits."""
    while True:
        s = "".join(rng.choice("ACGT") for _ in range(n))
        if nsites(s + "AAAAA") == 0:
            return s


class Redraw(Exception):
    pass


def glue(rng, expect, *pieces):
    """Join pieces (an int means that many random bases) into a circular
    sequence carrying exactly `expect` Type IIS sites (those written in the
    pieces); raise Redraw when the given pieces create another one."""
    if nsites("".join("X" * p if isinstance(p, int) else p for p in pieces)) != expect:
        raise Redraw()
    for _ in range(200):
        s = "".join(dna(rng, p) if isinstance(p, int) else p for p in pieces)
        if nsites(s) == expect:
            return s
    raise Redraw()


def module_seq(rng, enz, o1, insert, o2, backbone=40):
    site, sp = ENZ[enz]
    return glue(rng, 2, site, sp, o1, insert, o2, sp, rc(site), backbone)


def vector_seq(rng, enz, d, u, outer=None, adjacent=None, placeholder=12, backbone=50):
    """enz: the vector's own enzyme; d/u: downstream/upstream overhangs (groups
    1 and 3); outer: next-level enzyme; adjacent: (O1, O2) next-level overhangs
    for the designs that put them next to the vector overhangs."""
    site, sp = ENZ[enz]
    core = [d, sp, rc(site), placeholder, site, sp, u]
    if outer is None:
        return glue(rng, 2, 1, *core, 1, backbone)
    osite, osp = ENZ[outer]
    if adjacent is None:
        return glue(rng, 4, osite, osp, *core, osp, rc(osite), backbone)
    return glue(rng, 4, osite, osp, adjacent[0], *core, adjacent[1], osp, rc(osite), backbone)


def ytk_product_seq(rng, ab, t1, tmpl, t2, backbone=30):
    return glue(rng, 4, "CGTCTC", 1, ab + "GG", "TCTC", 1, t1, tmpl, t2, 1, "GA", "GACC", 1, "GAGACG", backbone)


def record(seq, id_, rot=0, case=None, rng=None):
    rot %= len(seq)
    seq = seq[rot:] + seq[:rot]
    if case == "lower":
        seq = seq.lower()
    elif case == "mixed":
        seq = "".join(c.lower() if rng.random() < 0.5 else c for c in seq)
    return CircularRecord(Seq(seq), id=id_, name=id_)


def overhangs(rng, n):
    """n distinct 4-mers, none palindromic, none the reverse complement of
    another, none creating a site."""
    out = []
    while len(out) < n:
        o = dna(rng, 4)
        if o == rc(o) or any(o == p or o == rc(p) for p in out):
            continue
        out.append(o)
    return out


# ---- the kits: (vector class, module class, next-level class, design) --------
def stages():
    from moclo.kits import cidar, ecoflex, ytk
    from moclo.kits import moclo as omoclo
    from moclo.core import vectors as cv

    S = lambda v, m, n, enz, outer=None, adjacent=False: dict(  # noqa: E731
        vector=v, module=m, next=n, enz=enz, outer=outer, adjacent=adjacent)
    return {
        "cidar": [
            S(cidar.CIDAREntryVector, cidar.CIDARProduct, cidar.CIDAREntry, "BbsI", "BsaI"),
            S(cidar.CIDARCassetteVector, cidar.CIDAREntry, cidar.CIDARCassette, "BsaI", "BbsI"),
            S(cidar.CIDARDeviceVector, cidar.CIDARCassette, cidar.CIDARDevice, "BbsI", "BsaI"),
        ],
        "ecoflex": [
            S(ecoflex.EcoFlexCassetteVector, ecoflex.EcoFlexEntry, ecoflex.EcoFlexCassette, "BsaI", "BsmBI", True),
            S(ecoflex.EcoFlexDeviceVector, ecoflex.EcoFlexCassette, ecoflex.EcoFlexDevice, "BsmBI", "BsaI", True),
        ],
        "moclo": [
            S(omoclo.MoCloEntryVector, omoclo.MoCloProduct, omoclo.MoCloEntry, "BpiI", "BsaI"),
            S(omoclo.MoCloCassetteVector, omoclo.MoCloEntry, omoclo.MoCloCassette, "BsaI", "BpiI", True),
            S(omoclo.MoCloDeviceVector, omoclo.MoCloCassette, None, "BpiI"),
        ],
        "ytk": [
            S(ytk.YTKEntryVector, ytk.YTKProduct, ytk.YTKEntry, "BsmBI"),
            S(ytk.YTKCassetteVector, ytk.YTKEntry, None, "BsaI"),
        ],
    }


class Built(object):
    """A module instance together with what its target must contain."""

    def __init__(self, module, content, d, u):
        self.module, self.content, self.d, self.u = module, content, d, u


class Scenario(object):
    def __init__(self, rng, kit, cases=(None,), rotate_products=False, cite=False, max_inserts=3,
                 on_product=None):
        self.rng, self.kit, self.cases = rng, kit, cases
        self.stages = stages()[kit]
        self.rotate_products = rotate_products
        self.cite = cite
        self.max_inserts = max_inserts
        self.on_product = on_product  # callback(stage, vector, builts, product)
        self.counter = 0
        self.pool = overhangs(rng, 40)

    def fresh(self):
        return self.pool.pop()

    def rec(self, seq, prefix):
        self.counter += 1
        r = record(seq, "%s%d" % (prefix, self.counter), self.rng.randrange(len(seq)),
                   self.rng.choice(self.cases), self.rng)
        if self.cite:
            ref = Reference()
            ref.title = "about %s" % r.id
            ref.authors = "Doe J."
            r.annotations["references"] = [ref]
            r.annotations["topology"] = "circular"
            r.features.append(SeqFeature(FeatureLocation(0, len(seq)), type="misc_feature",
                                         qualifiers={"label": [r.id], "citation": ["[1]"]}))
        return r

    def synth(self, stage, d, u):
        rng = self.rng
        if self.kit == "ytk" and stage is self.stages[0]:
            raise AssertionError("use ytk_entry")
        insert = dna(rng, rng.choice([2, 3, 7, 20]))
        seq = module_seq(rng, stage["enz"], d, insert, u, backbone=rng.choice([25, 40]))
        return Built(stage["module"](self.rec(seq, "m")), [d + insert], d, u)

    def vector(self, stage, d, u, adjacent=None):
        seq = vector_seq(self.rng, stage["enz"], d, u, outer=stage["outer"], adjacent=adjacent,
                         placeholder=self.rng.choice([0, 1, 12]), backbone=self.rng.choice([30, 50]))
        return stage["vector"](self.rec(seq, "v"))

    def compose(self, idx, d, u, depth):
        """A module of stages[idx]['module'] with overhangs (d, u), obtained by
        assembling `depth` levels below it (depth 0: synthetic record)."""
        stage = self.stages[idx]
        if depth == 0 or idx == 0:
            return self.synth(stage, d, u)
        lower = self.stages[idx - 1]
        if self.kit == "ytk":
            return self.ytk_entry(d, u)
        if lower["adjacent"]:
            dv, uv, adjacent = self.fresh(), self.fresh(), (d, u)
        else:
            dv, uv, adjacent = d, u, None
        vec = self.vector(lower, dv, uv, adjacent)
        builts = self.chain(idx - 1, dv, uv, depth - 1)
        return self.product(lower, vec, builts, d, u)

    def chain(self, idx, d, u, depth):
        n = self.rng.randint(1, self.max_inserts)
        ovs = [d] + [self.fresh() for _ in range(n - 1)] + [u]
        return [self.compose(idx, ovs[i], ovs[i + 1], depth) for i in range(n)]

    def product(self, stage, vec, builts, d, u):
        mods = [b.module for b in builts]
        self.rng.shuffle(mods)
        prod = vec.assemble(*mods)
        if self.on_product is not None:
            self.on_product(stage, vec, builts, prod)
        if self.rotate_products:
            prod = prod >> self.rng.randrange(len(prod))
        content = [c for b in builts for c in b.content]
        return Built(stage["next"](prod), content, d, u)

    def ytk_entry(self, t1, t2):
        rng = self.rng
        stage = self.stages[0]
        ab = dna(rng, 2)
        while ab == "CC":  # CCGG is its own reverse complement
            ab = dna(rng, 2)
        tmpl = dna(rng, rng.choice([2, 5, 20]))
        mod = stage["module"](self.rec(ytk_product_seq(rng, ab, t1, tmpl, t2), "m"))
        vec = stage["vector"](self.rec(vector_seq(rng, "BsmBI", ab + "GG", "GACC",
                                                  placeholder=rng.choice([0, 12])), "v"))
        built = Built(mod, [t1 + tmpl], ab + "GG", "GACC")
        return self.product(stage, vec, [built], t1, t2)

    def top(self, idx, depth):
        """Assemble at stage idx modules that are `depth` levels deep."""
        stage = self.stages[idx]
        d, u = self.fresh(), self.fresh()
        adjacent = (self.fresh(), self.fresh()) if stage["adjacent"] else None
        if self.kit == "ytk" and idx == 0:
            b = self.ytk_entry(d, u)
            return b
        vec = self.vector(stage, d, u, adjacent)
        builts = self.chain(idx, d, u, depth)
        if stage["next"] is None:
            mods = [b.module for b in builts]
            self.rng.shuffle(mods)
            prod = vec.assemble(*mods)
            if self.on_product is not None:
                self.on_product(stage, vec, builts, prod)
            return Built(None, [c for b in builts for c in b.content], d, u), prod
        nd, nu = adjacent if adjacent else (d, u)
        return self.product(stage, vec, builts, nd, nu)


def in_order(chunks, text, circular=False):
    """Do the chunks occur in text one after the other (in this order)?"""
    text = text.upper()
    starts = range(len(text)) if circular else [0]
    for s in starts:
        t = text[s:] + text[:s] if circular else text
        pos = 0
        for c in chunks:
            pos = t.find(c.upper(), pos)
            if pos < 0:
                break
            pos += len(c)
        else:
            return True
    return False


def check_built(b, where):
    """The C11 statement for one product wrapped in its next-level class."""
    m = b.module
    if not m.is_valid():
        return "%s: product is not a valid %s" % (where, type(m).__name__)
    if str(m.overhang_start()).upper() != b.d or str(m.overhang_end()).upper() != b.u:
        return "%s: overhangs %s/%s instead of %s/%s" % (where, m.overhang_start(), m.overhang_end(), b.d, b.u)
    if not in_order(b.content, str(m.target_sequence().seq)):
        return "%s: the target of the %s does not contain the inserts in chain order" % (where, type(m).__name__)
    return None


# ---- differential digest -----------------------------------------------------
import hashlib  # noqa: E402

from moclo import errors  # noqa: E402

LOG = []


def emit(*items):
    LOG.append(" | ".join(str(i) for i in items))


def show_record(rec):
    if rec is None:
        return "None"
    ants = []
    for k in sorted(rec.annotations):
        v = rec.annotations[k]
        if k == "references":
            v = [r.title if isinstance(r, Reference) else r for r in v]
        if k == "comment":
            v = [c for c in v if not c.startswith("Generated with")] + [len(v)]
        ants.append("%s=%r" % (k, v))
    feats = []
    for f in rec.features:
        quals = []
        for k in sorted(f.qualifiers):
            v = f.qualifiers[k]
            if k == "citation":
                v = [r.title if isinstance(r, Reference) else r for r in v]
            quals.append("%s=%r" % (k, v))
        feats.append("%s@%s{%s}" % (f.type, f.location, ",".join(quals)))
    return "%s %s %s %s [%s] [%s]" % (type(rec).__name__, rec.id, rec.name, str(rec.seq), "; ".join(ants), "; ".join(feats))


def show_exc(exc):
    extra = []
    for attr in ("details", "start_overhang"):
        if hasattr(exc, attr):
            extra.append("%s=%r" % (attr, getattr(exc, attr)))
    for attr in ("duplicates", "remaining"):
        if hasattr(exc, attr):
            extra.append("%s=%r" % (attr, [m.record.id for m in getattr(exc, attr)]))
    msg = re.sub(r"0x[0-9a-fA-F]+", "0x?", str(exc))
    if len(msg) > 300:
        msg = msg[:120] + "..." + hashlib.sha256(msg.encode()).hexdigest()[:12]
    return "%s: %s (%s) cause=%r suppress=%r" % (
        type(exc).__name__, msg, ", ".join(extra), exc.__cause__, exc.__suppress_context__)


def call(label, fn, *inputs):
    """Run fn, log the result or the exception, the warnings, and the state of
    the input records afterwards."""
    with warnings.catch_warnings(record=True) as caught:
        warnings.simplefilter("always")
        try:
            res = fn()
            emit(label, "->", show_record(res) if hasattr(res, "seq") else repr(res))
        except Exception as exc:
            res = None
            emit(label, "raised", show_exc(exc))
    for w in caught:
        if issubclass(w.category, errors.MocloError):
            emit(label, "warning", w.category.__name__, str(w.message),
                 [m.record.id for m in getattr(w.message, "remaining", ())])
    for x in inputs:
        emit(label, "input after", show_record(x.record))
    return res


def wrapped(label, cls, rec):
    if cls is None:
        return
    m = cls(rec)
    emit(label, cls.__name__, "valid", m.is_valid())
    if m.is_valid():
        emit(label, "overhangs", m.overhang_start(), m.overhang_end(), "target", show_record(m.target_sequence()))


def equiv_scenarios():
    n = 0
    for seed in range(3):
        for kit, sts in stages().items():
            for idx in range(len(sts)):
                for depth in range(idx + 1):
                    for cases in [(None,), ("lower",), (None, "lower", "mixed")]:
                        for cite in (False, True):
                            rng = random.Random("eq/%s/%s/%s/%s/%s/%s" % (seed, kit, idx, depth, cases, cite))
                            label = "%s/%d/%d/%s/%s/%d" % (kit, idx, depth, cases, cite, seed)
                            local = []

                            def on_product(stage, vec, builts, prod, local=local, label=label):
                                local.append((label, "product of", type(vec).__name__, vec.record.id,
                                              [b.module.record.id for b in builts], show_record(prod)))
                                for x in [vec] + [b.module for b in builts]:
                                    local.append((label, "input after", show_record(x.record)))
                                if stage["next"] is not None:
                                    nxt = stage["next"](prod)
                                    local.append((label, "next", nxt.is_valid(), nxt.overhang_start(), nxt.overhang_end(),
                                                  show_record(nxt.target_sequence())))

                            for attempt in range(50):
                                try:
                                    sc = Scenario(rng, kit, cases=cases, rotate_products=bool(seed % 2), cite=cite,
                                                  on_product=on_product)
                                    sc.top(idx, depth)
                                except Redraw:
                                    del local[:]
                                    continue
                                except Exception as exc:
                                    local.append((label, "raised", show_exc(exc)))
                                break
                            for item in local:
                                emit(*item)
                            n += 1
    return n


def failing_assemblies():
    n = 0
    for seed in range(12):
        for kit, sts in stages().items():
            for idx, stage in enumerate(sts):
                if kit == "ytk" and idx == 0:
                    continue
                rng = random.Random("fail/%s/%s/%s" % (seed, kit, idx))
                case = [None, "lower", "mixed"][seed % 3]
                label = "F/%s/%d/%d" % (kit, idx, seed)
                for attempt in range(50):
                    try:
                        sc = Scenario(rng, kit, cases=(case,), cite=bool(seed % 2))
                        d, u = sc.fresh(), sc.fresh()
                        adjacent = (sc.fresh(), sc.fresh()) if stage["adjacent"] else None
                        vec = sc.vector(stage, d, u, adjacent)
                        ovs = [d, sc.fresh(), sc.fresh(), u]
                        mods = [sc.synth(stage, ovs[i], ovs[i + 1]).module for i in range(3)]
                        dup = sc.synth(stage, ovs[1], sc.fresh()).module
                        anti = sc.synth(stage, rc(ovs[2]), sc.fresh()).module
                        extra = sc.synth(stage, sc.fresh(), sc.fresh()).module
                        same = sc.vector(stage, d, d, adjacent)
                        site = ENZ[stage["enz"]][0]
                        illegal_seq = module_seq(rng, stage["enz"], ovs[0], dna(rng, 6), ovs[1])
                        illegal = stage["module"](record(illegal_seq[:-8] + site + illegal_seq[-8:], "illegal", 4))
                        nosite = stage["module"](record(dna(rng, 40), "nosite"))
                        plain = stage["module"](SeqRecord(Seq(str(mods[0].record.seq)), id="plain"))
                        short = stage["module"](record(
                            glue(rng, 2, site, ENZ[stage["enz"]][1], ovs[0], 1, ovs[1], ENZ[stage["enz"]][1], rc(site), 20),
                            "short"))
                    except Redraw:
                        continue
                    break
                call(label + "/ok", lambda: vec.assemble(mods[2], mods[0], mods[1], name="nm", id="ident", junk=1), vec, *mods)
                res = call(label + "/again", lambda: vec.assemble(*mods), vec, *mods)
                if res is not None:
                    wrapped(label + "/again", stage["next"], res)
                    wrapped(label + "/again-rot", stage["next"], res >> (seed + 3))
                call(label + "/missing-last", lambda: vec.assemble(mods[0], mods[1]), vec)
                call(label + "/missing-first", lambda: vec.assemble(mods[1], mods[2]), vec)
                call(label + "/missing-mid", lambda: vec.assemble(mods[2], mods[0]), vec)
                call(label + "/dup", lambda: vec.assemble(mods[0], mods[1], dup, mods[2]), vec, dup)
                call(label + "/anti", lambda: vec.assemble(mods[0], mods[1], mods[2], anti), vec, anti)
                call(label + "/unused", lambda: vec.assemble(extra, mods[0], mods[1], mods[2]), vec, extra)
                call(label + "/same-overhangs", lambda: same.assemble(*mods), same)
                call(label + "/illegal", lambda: vec.assemble(illegal, mods[1], mods[2]), illegal)
                call(label + "/nosite", lambda: vec.assemble(nosite, mods[1], mods[2]), nosite)
                call(label + "/plain", lambda: vec.assemble(plain, mods[1], mods[2]), plain, mods[1])
                call(label + "/short", lambda: vec.assemble(short, mods[1], mods[2]), short)
                emit(label, "short valid", short.is_valid())
                # a broken citation: raised before anything is built, inputs partly dereferenced
                def reset():
                    for x in [vec] + mods:
                        x.record.features[0].qualifiers["citation"] = ["[1]"]

                if seed % 2:
                    mods[1].record.features[0].qualifiers["citation"] = ["(1)"]
                    call(label + "/bad-citation", lambda: vec.assemble(*mods), vec, *mods)
                    reset()
                    mods[1].record.features[0].qualifiers["citation"] = ["[7]"]
                    call(label + "/dangling-citation", lambda: vec.assemble(*mods), vec, *mods)
                    reset()
                    call(label + "/restored", lambda: vec.assemble(*mods), vec, *mods)
                # the same module given twice (with citations: dereferenced twice)
                call(label + "/twice", lambda: vec.assemble(mods[0], mods[1], mods[0], mods[2]), vec, *mods)
                n += 1
    return n


def structures():
    for kit, sts in stages().items():
        for stage in sts:
            for cls in (stage["vector"], stage["module"], stage["next"]):
                if cls is not None:
                    emit("structure", cls.__name__, cls.structure(), cls._get_regex().regex.pattern)




# ---- the supporting code, called directly ------------------------------------
def extra_api():
    import inspect
    from Bio.Restriction import BsaI, BbsI, EcoRV
    from moclo.regex import DNARegex
    from moclo.core import modules as cm, vectors as cv, parts as cp
    from moclo.kits import cidar, ecoflex, ytk
    from moclo.kits import moclo as omoclo

    # every structure of every kit class
    for mod in (cidar, ecoflex, omoclo, ytk):
        for name, cls in sorted(inspect.getmembers(mod, inspect.isclass)):
            if cls.__module__ != mod.__name__:
                continue
            try:
                emit("kit", mod.__name__, name, [b.__name__ for b in cls.__mro__], cls.structure(), cls._get_regex().regex.pattern)
            except Exception as exc:
                emit("kit", mod.__name__, name, "raised", show_exc(exc))
        emit("kit", mod.__name__, "version", mod.__version__)

    # classes without cutter / with unusable cutters
    class NoCutter(cm.Entry):
        pass

    class Blunt(cv.EntryVector):
        cutter = EcoRV

    class NoSignature(cp.AbstractPart, cm.Entry):
        cutter = BsaI

    for cls in (NoCutter, Blunt):
        call("new " + cls.__name__, lambda: cls(CircularRecord(Seq("ATGC"), id="x")))
    call("NoSignature.structure", NoSignature.structure)

    rng = random.Random("extra")
    # DNARegex / SeqMatch, with matches before, across and past the origin
    rx = DNARegex("GGTCTCN(NNNN)(NN*N)(NNNN)NGAGACC")
    emit("regex", rx.pattern, rx.regex.pattern, [(q.name, str(q.kind), q.default) for q in inspect.signature(rx.search).parameters.values()])
    call("regex str", lambda: rx.search("GGTCTC"))
    core = "GGTCTCaTTGCacgtacgtCCATtGAGACC"
    for rot in range(0, len(core) + 12, 3):
        s = core + "ttttccccaaaa"
        s = s[rot:] + s[:rot]
        for kind, obj in (("seq", Seq(s)), ("rec", SeqRecord(Seq(s), id="r")), ("circ", CircularRecord(Seq(s), id="c"))):
            for linear in (True, False):
                m = rx.search(obj, linear=linear)
                if m is None:
                    emit("regex", rot, kind, linear, None)
                    continue
                groups = [m.group(i) for i in range(4)]
                emit("regex", rot, kind, linear, m.start(), m.end(), [m.span(i) for i in range(4)],
                     [str(getattr(g, "seq", g)) for g in groups], [type(g).__name__ for g in groups], m.shift)
        m = rx.search(CircularRecord(Seq(s), id="c"), pos=5, endpos=20)
        emit("regex pos", rot, None if m is None else m.span(0))

    # CircularRecord
    rec = CircularRecord(Seq("ATGCATGCAATTGGCC"), id="rec", name="rec", annotations={"topology": "circular"},
                         letter_annotations={"q": list(range(16))})
    rec.features.append(SeqFeature(FeatureLocation(2, 6, 1), type="misc_feature", qualifiers={"label": ["a"]}))
    rec.features.append(SeqFeature(FeatureLocation(0, 16), type="source"))
    for k in (-20, -3, 0, 5, 16, 21):
        emit("rot >>", k, show_record(rec >> k), (rec >> k).letter_annotations)
        emit("rot <<", k, show_record(rec << k))
    emit("slice", show_record(rec[3:9]), rec[4], "ATGCA" in rec, "CCAT" in rec, "A" * 20 in rec)
    emit("revcomp", show_record(rec.reverse_complement(id=True)))
    call("add", lambda: rec + rec)
    call("radd", lambda: "AT" + rec)
    call("linear", lambda: CircularRecord(Seq("AT"), annotations={"topology": "linear"}))
    emit("copy", show_record(CircularRecord(SeqRecord(Seq("ATTA"), id="plain", annotations={"a": 1}))))

    # errors
    from moclo import errors as E
    fake = type("Fake", (), {})()
    fake.record = SeqRecord(Seq("A"), id="fake")
    for exc in (E.InvalidSequence("ATG"), E.InvalidSequence("ATG", details="why"), E.IllegalSite("ATG"),
                E.DuplicateModules(fake, fake, details="d"), E.DuplicateModules(fake), E.MissingModule("ATGC"),
                E.MissingModule(Seq("ATGC"), details="d"), E.UnusedModules(fake), E.UnusedModules(fake, fake, details=3)):
        emit("error", type(exc).__name__, str(exc), re.sub(r"0x[0-9a-fA-F]+", "0x?", repr(exc.args)), [c.__name__ for c in type(exc).__mro__])

    # characterize
    for attempt in range(20):
        try:
            s = module_seq(rng, "BsaI", "AATG", dna(rng, 12), "AGGT")
            break
        except Redraw:
            continue
    r = record(s, "cds", 7)
    call("characterize", lambda: type(cidar.CIDARPart.characterize(r)).__name__)
    call("characterize none", lambda: type(ecoflex.EcoFlexPart.characterize(r)).__name__)


def main():
    structures()
    extra_api()
    a = equiv_scenarios()
    b = failing_assemblies()
    text = "\n".join(LOG)
    if "--dump" in sys.argv:
        print(text)
    print("scenarios: %d + %d, log lines: %d" % (a, b, len(LOG)))
    print("digest:", hashlib.sha256(text.encode()).hexdigest())


if __name__ == "__main__":
    main()
