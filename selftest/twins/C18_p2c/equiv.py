# coding: utf-8
"""Differential test for the C18 refactorings.

Run as ``cd /tmp/agents5/C18 && /venv/bin/python pairs_out/C18_p2/equiv.py``.
It drives the pattern matcher, the structured records and the assembly manager
with a few hundred generated inputs and prints a digest of everything that can
be observed from outside (results, exception types and messages, warnings and
the state of the inputs afterwards).  The digest has to be identical on the
pristine tree and on a behaviour-preserving refactoring of it.
"""
import sys

sys.path.insert(0, "/tmp/agents5/C18")
import tests  # noqa: F401,E402

import copy  # noqa: E402
import hashlib  # noqa: E402
import random  # noqa: E402
import re  # noqa: E402
import warnings  # noqa: E402

from Bio.Restriction import BpiI, BsaI, BsmBI, BtsI  # noqa: E402
from Bio.Seq import Seq  # noqa: E402
from Bio.SeqFeature import SeqFeature, FeatureLocation, Reference  # noqa: E402
from Bio.SeqRecord import SeqRecord  # noqa: E402

from moclo.core.modules import AbstractModule  # noqa: E402
from moclo.core.vectors import AbstractVector  # noqa: E402
from moclo.core._assembly import AssemblyManager  # noqa: E402
from moclo.kits import ytk  # noqa: E402
from moclo.record import CircularRecord  # noqa: E402
from moclo.regex import DNARegex, SeqMatch  # noqa: E402

RNG = random.Random(180018)
LINES = []
STATS = {}


def emit(tag, *values):
    text = "{}|{}".format(tag, "|".join(scrub(repr(v)) for v in values))
    LINES.append(text)
    STATS[tag] = STATS.get(tag, 0) + 1


def scrub(text):
    return re.sub(r"0x[0-9a-fA-F]+", "0x?", text)


def outcome(func, *args, **kwargs):
    """Call ``func`` and describe what happened, warnings included."""
    with warnings.catch_warnings(record=True) as caught:
        warnings.simplefilter("always")
        try:
            result = ("ok", func(*args, **kwargs))
        except BaseException as exc:  # noqa: B902
            result = ("err", type(exc).__name__, scrub(str(exc)), scrub(repr(exc.args)))
    warned = [
        (w.category.__name__, scrub(str(w.message)))
        for w in caught
        if "pkg_resources" not in str(w.message)
    ]
    return result, warned


# --- Generators of inputs ---------------------------------------------------

SITES = {"BpiI": ("GAAGAC", 2), "BsaI": ("GGTCTC", 1), "BsmBI": ("CGTCTC", 1)}
ALL_SITES = [s for s, _ in SITES.values()]
ALL_SITES += [str(Seq(s).reverse_complement()) for s in ALL_SITES]


def rc(text):
    return str(Seq(text).reverse_complement())


def rand_dna(n, rng=RNG, alphabet="ACGT"):
    return "".join(rng.choice(alphabet) for _ in range(n))


def clean_dna(n, rng=RNG):
    """Random DNA without any of the recognition sites used here."""
    while True:
        text = rand_dna(n, rng)
        if not any(site in "C" + text + "C" for site in ALL_SITES):
            return text


def recase(text, mode, rng=RNG):
    if mode == "upper":
        return text.upper()
    if mode == "lower":
        return text.lower()
    if mode == "swap":
        return text.swapcase()
    return "".join(rng.choice((c.lower(), c.upper())) for c in text)


CASES = ["upper", "lower", "random", "random"]


def module_text(enzyme, start, end, insert, backbone):
    site, gap = SITES[enzyme]
    return "".join(
        [site, "T" * gap, start, insert, end, "A" * gap, rc(site), backbone]
    )


def vector_text(enzyme, start, end, placeholder, backbone):
    # the downstream overhang (overhang_end) comes first in a vector
    site, gap = SITES[enzyme]
    return "".join(
        ["C", end, "T" * gap, rc(site), placeholder, site, "A" * gap, start, "G", backbone]
    )


def rotate(text, k):
    k %= len(text)
    return text[k:] + text[:k]


def features_for(text, rng, n_refs):
    feats = []
    for k in range(rng.randint(0, 3)):
        a = rng.randrange(0, len(text))
        b = rng.randrange(a, len(text)) + 1
        quals = {"label": ["f{}".format(k)]}
        if n_refs and rng.random() < 0.7:
            quals["citation"] = [
                "[{}]".format(rng.randint(1, n_refs)) for _ in range(rng.randint(1, 2))
            ]
        feats.append(
            SeqFeature(FeatureLocation(a, b, rng.choice((1, -1))), type="misc_feature", qualifiers=quals)
        )
    return feats


def references_for(rid, n):
    refs = []
    for k in range(n):
        ref = Reference()
        ref.title = "paper {} of {}".format(k, rid) if k else "shared paper"
        ref.authors = "Doe J."
        refs.append(ref)
    return refs


def make_record(text, rid, kind, rng, with_refs=True):
    """kind: circular | plain | linear | topo-circular | topo-upper"""
    n_refs = rng.randint(0, 2) if with_refs else 0
    annotations = {}
    if n_refs:
        annotations["references"] = references_for(rid, n_refs)
    if kind == "linear":
        annotations["topology"] = "linear"
    elif kind == "topo-circular":
        annotations["topology"] = "circular"
    elif kind == "topo-upper":
        annotations["topology"] = "Circular"
    cls = SeqRecord if kind in ("plain", "linear") else CircularRecord
    return cls(
        Seq(text),
        id=rid,
        name=rid,
        description="record " + rid,
        features=features_for(text, rng, n_refs),
        annotations=annotations,
    )


def describe_feature(feature):
    return (
        feature.type,
        str(feature.location),
        sorted((k, repr(v)) for k, v in feature.qualifiers.items()),
    )


def describe_record(record):
    if record is None:
        return None
    return (
        type(record).__name__,
        str(record.seq),
        record.id,
        record.name,
        record.description,
        list(record.dbxrefs),
        [(k, scrub(repr(v))) for k, v in record.annotations.items()],
        [describe_feature(f) for f in record.features],
    )


# --- A. the pattern matcher -------------------------------------------------

def describe_match(match):
    if match is None:
        return None
    ngroups = match.match.re.groups
    out = [match.start(), match.end(), match.shift, type(match.rec).__name__]
    for g in range(ngroups + 1):
        res, _ = outcome(match.group, g)
        if res[0] == "ok":
            value = res[1]
            text = str(value.seq) if isinstance(value, SeqRecord) else str(value)
            res = ("ok", type(value).__name__, text)
        out.append((match.span(g), res))
    return out


def part_a():
    patterns = [
        "AA(NN)",
        "aa(nn)",
        "A(C)?(G)",
        "R(YK)MS*W(BDHV)",
        "GGTCTCN(NNNN)(NN*N)(NNNN)NGAGACC",
        "N(NNNN)(NNGTCTTCN*GAAGACNN)(NNNN)N",
        "(N*)",
        "",
    ]
    for pattern in patterns:
        rx = DNARegex(pattern)
        emit("A.rx", pattern, rx.pattern, rx.regex.pattern, rx.regex.flags, rx.regex.groups)
        emit("A.tr", DNARegex._transcribe(pattern))
        for bad in ("ATGC", None, b"ATGC", 12):
            emit("A.bad", pattern, outcome(rx.search, bad))
    for n in range(260):
        pattern = RNG.choice(patterns[:6])
        rx = DNARegex(pattern)
        size = RNG.choice((0, 1, 3, 8, 12, 20, 40))
        text = recase(rand_dna(size, alphabet="ACGTACGTN"), RNG.choice(CASES + ["swap"]))
        if RNG.random() < 0.5 and size >= 12:
            # plant a match, possibly across the origin
            planted = recase(RNG.choice(("AAGC", "ACG", "GGTCTCAATGCTTTTCGTATGAGACC")), "random")
            text = rotate((planted + text)[: max(size, len(planted))], RNG.randrange(0, size))
        kind = RNG.choice(("seq", "plain", "circular", "linear"))
        if kind == "seq":
            target = Seq(text)
        elif kind == "circular":
            target = CircularRecord(Seq(text), id="c{}".format(n))
        else:
            target = SeqRecord(Seq(text), id="s{}".format(n))
        kwargs = {}
        if RNG.random() < 0.5:
            kwargs["linear"] = RNG.choice((True, False))
        if RNG.random() < 0.3:
            kwargs["pos"] = RNG.randint(0, size + 1)
        if RNG.random() < 0.3:
            kwargs["endpos"] = RNG.randint(0, 2 * size + 1)
        res, warned = outcome(rx.search, target, **kwargs)
        if res[0] == "ok":
            res = ("ok", describe_match(res[1]))
        emit("A.search", pattern, text, kind, sorted(kwargs.items()), res, warned)
        emit("A.after", str(target.seq) if kind != "seq" else str(target))
    # hand-made matches, to reach every branch of SeqMatch.group
    raw = re.compile("(?i)(A+)(C)?(G*)")
    for n in range(60):
        size = RNG.choice((1, 4, 9))
        text = recase(rand_dna(size, alphabet="ACG"), "random")
        rec = RNG.choice((Seq(text), SeqRecord(Seq(text), id="h"), CircularRecord(Seq(text), id="h")))
        start = RNG.randint(0, 3 * size)
        m = raw.match(text * 4, start)
        if m is None:
            emit("A.hand", text, start, None)
            continue
        emit("A.hand", text, start, describe_match(SeqMatch(m, rec, shift=n % 3)))


# --- B. structured records --------------------------------------------------

class BpiVector(AbstractVector):
    cutter = BpiI


class BpiModule(AbstractModule):
    cutter = BpiI


class BsaVector(AbstractVector):
    cutter = BsaI


class BsaModule(AbstractModule):
    cutter = BsaI


class BsmVector(AbstractVector):
    cutter = BsmBI


class BsmModule(AbstractModule):
    cutter = BsmBI


CLASSES = {
    "BpiI": (BpiVector, BpiModule),
    "BsaI": (BsaVector, BsaModule),
    "BsmBI": (BsmVector, BsmModule),
}

OVERHANGS = ["ATGC", "CGTA", "GGAA", "TACA", "CCTG", "AATT", "GCAT", "TTCC", "AGGT"]


def describe_structured(entity):
    out = [type(entity).__name__, outcome(entity.is_valid)]
    for name in ("overhang_start", "overhang_end"):
        res, warned = outcome(getattr(entity, name))
        if res[0] == "ok":
            res = ("ok", type(res[1]).__name__, str(res[1]))
        out.append((name, res, warned))
    names = ["target_sequence"]
    if isinstance(entity, AbstractVector):
        names.append("placeholder_sequence")
    for name in names:
        res, warned = outcome(getattr(entity, name))
        if res[0] == "ok":
            res = ("ok", describe_record(res[1]))
        out.append((name, res, warned))
    out.append(describe_record(entity.record))
    return out


def part_b():
    for n in range(150):
        enzyme = RNG.choice(sorted(SITES))
        vcls, mcls = CLASSES[enzyme]
        start, end = RNG.sample(OVERHANGS, 2)
        flavour = RNG.choice(("module", "vector", "broken", "illegal", "foreign"))
        if flavour == "vector":
            text = vector_text(enzyme, start, end, clean_dna(RNG.randint(0, 12)), clean_dna(RNG.randint(3, 20)))
        else:
            insert = clean_dna(RNG.randint(1, 12))
            if flavour == "illegal":
                insert = insert + SITES[enzyme][0] + "AC" + insert
            text = module_text(enzyme, start, end, insert, clean_dna(RNG.randint(3, 20)))
        if flavour == "broken":
            text = text.replace(SITES[enzyme][0], "TTTTTT", 1)
        elif flavour == "foreign":
            other = RNG.choice([e for e in sorted(SITES) if e != enzyme])
            vcls, mcls = CLASSES[other]
        text = recase(rotate(text, RNG.choice((0, 0, 3, 7, len(text) - 4))), RNG.choice(CASES))
        kind = RNG.choice(("circular", "circular", "plain", "linear", "topo-circular", "topo-upper"))
        record = make_record(text, "r{}".format(n), kind, RNG)
        for cls in (vcls, mcls):
            emit("B.rec", flavour, enzyme, kind, describe_structured(cls(record)))
    # non-text topology
    record = SeqRecord(Seq("ATGC"), id="odd", annotations={"topology": 3})
    emit("B.odd", describe_structured(BpiModule(record)))
    # typed parts of a real kit
    for n in range(60):
        part = RNG.choice((ytk.YTKPart1, ytk.YTKPart2, ytk.YTKPart3, ytk.YTKPart4, ytk.YTKPart8))
        up, down = part.signature
        if issubclass(part, AbstractVector):
            text = vector_text("BsaI", up, down, clean_dna(8), clean_dna(15))
        else:
            text = module_text("BsaI", up, down, clean_dna(8), clean_dna(15))
        text = recase(rotate(text, RNG.randrange(len(text))), RNG.choice(CASES))
        record = make_record(text, "y{}".format(n), "circular", RNG)
        res, warned = outcome(ytk.YTKPart.characterize, record)
        if res[0] == "ok":
            res = ("ok", describe_structured(res[1]))
        emit("B.ytk", part.__name__, res, warned)
        emit("B.ytk2", [c(record).is_valid() for c in (ytk.YTKPart1, ytk.YTKPart2, ytk.YTKPart8, ytk.YTKEntry)])


# --- C. assemblies ----------------------------------------------------------

def build_scenario(n):
    enzyme = RNG.choice(sorted(SITES))
    vcls, mcls = CLASSES[enzyme]
    flavour = RNG.choice(
        ("ok", "ok", "ok", "missing", "dup", "revcomp", "palindrome", "unused",
         "selfvector", "broken", "illegal", "badcite", "strcite")
    )
    size = RNG.randint(1, 4)
    hangs = RNG.sample(["ATGC", "CGTA", "GGAA", "TACA", "CCTG", "AGGT", "CTGA"], size + 1)
    vec = (hangs[-1], hangs[0])  # (overhang_start, overhang_end)
    mods = [(hangs[k], hangs[k + 1]) for k in range(size)]
    if flavour == "missing":
        del mods[RNG.randrange(len(mods))]
        if not mods:
            mods = [("TTGA", "GTCA")]
    elif flavour == "dup":
        mods.append((mods[RNG.randrange(len(mods))][0], "TTGA"))
    elif flavour == "revcomp":
        mods.append((rc(mods[RNG.randrange(len(mods))][0]), "TTGA"))
    elif flavour == "palindrome":
        mods.append(("AATT", "TTGA"))
    elif flavour == "unused":
        mods.append(("TTGA", "GTCA"))
    elif flavour == "selfvector":
        vec = (hangs[0], hangs[0])
    RNG.shuffle(mods)
    inserts = [clean_dna(RNG.randint(0, 9))] + [clean_dna(RNG.randint(2, 9)) for _ in mods]
    if flavour == "illegal":
        k = RNG.randrange(len(inserts))
        inserts[k] = clean_dna(3) + SITES[enzyme][0] + "AC" + clean_dna(4)
    texts = [(vector_text(enzyme, vec[0], vec[1], inserts[0], clean_dna(RNG.randint(4, 16))), "vec")]
    for k, (a, b) in enumerate(mods):
        text = module_text(enzyme, a, b, inserts[k + 1], clean_dna(RNG.randint(4, 16)))
        texts.append((text, "mod{}".format(k)))
    if flavour == "broken":
        k = RNG.randrange(len(texts))
        texts[k] = (texts[k][0].replace(SITES[enzyme][0], "TTTTTT", 1), texts[k][1])
    records = []
    for text, rid in texts:
        text = recase(rotate(text, RNG.choice((0, 0, 5, len(text) - 3))), RNG.choice(CASES))
        kind = RNG.choice(("circular",) * 8 + ("topo-circular",) * 2 + ("topo-upper", "plain"))
        records.append(make_record(text, "{}_{}".format(rid, n), kind, RNG))
    if flavour in ("badcite", "strcite"):
        victim = RNG.choice(records)
        feat = SeqFeature(FeatureLocation(0, 3, 1), type="misc_feature")
        if flavour == "strcite":
            feat.qualifiers["citation"] = "[1]"
            victim.annotations.setdefault("references", references_for("x", 1))
        else:
            feat.qualifiers["citation"] = [RNG.choice(("[x]", "[]", "[99]", "1", "[1"))]
        victim.features.append(feat)
    return flavour, enzyme, vcls, mcls, records


def part_c():
    for n in range(240):
        flavour, enzyme, vcls, mcls, records = build_scenario(n)
        vector = vcls(records[0])
        modules = [mcls(r) for r in records[1:]]
        kwargs = {}
        if n % 3 == 0:
            kwargs = {"id": "asm{}".format(n), "name": "name{}".format(n)}
        res, warned = outcome(vector.assemble, *modules, **kwargs)
        if res[0] == "ok":
            res = ("ok", describe_record(res[1]))
        emit("C.asm", flavour, enzyme, res, warned)
        emit("C.after", [describe_record(r) for r in records])
        if n % 4 == 0:
            # the same objects can be assembled again
            res, warned = outcome(vector.assemble, *modules)
            if res[0] == "ok":
                res = ("ok", describe_record(res[1]))
            emit("C.again", res, warned, [describe_record(r) for r in records])
    # the manager used directly, step by step
    for n in range(40):
        flavour, enzyme, vcls, mcls, records = build_scenario(1000 + n)
        vector = vcls(records[0])
        modules = [mcls(r) for r in records[1:]]
        res, warned = outcome(AssemblyManager, vector, modules)
        if res[0] != "ok":
            emit("C.mgr", flavour, res, warned)
            continue
        mgr = res[1]
        emit("C.mgr", flavour, mgr.id, mgr.name, len(mgr.elements), mgr.elements[-1] is vector)
        res, warned = outcome(mgr._generate_modules_map)
        if res[0] == "ok":
            res = ("ok", [(type(k).__name__, str(k), v.record.id) for k, v in res[1].items()])
        emit("C.map", flavour, res, warned)
        for r in records:
            snapshot = copy.deepcopy(r)
            res, warned = outcome(mgr._deref_citations, snapshot)
            emit("C.deref", res, warned, describe_record(snapshot))
            res, warned = outcome(mgr._ref_citations, snapshot)
            emit("C.ref", res, warned, describe_record(snapshot))


def part_d():
    """A real assembly of registry plasmids, spelled in several ways."""
    from moclo.registry.ytk import YTKRegistry

    registry = YTKRegistry()
    names = ["pYTK095", "pYTK002", "pYTK009", "pYTK032", "pYTK051", "pYTK067"]
    for mode in ("asis", "lower", "random"):
        entities = []
        for name in names:
            entity = registry[name].entity
            record = copy.deepcopy(entity.record)
            if mode != "asis":
                record.seq = Seq(recase(str(record.seq), mode))
            if record.annotations.get("references"):
                record.features[0].qualifiers["citation"] = ["[1]"]
            entities.append(type(entity)(record))
        res, warned = outcome(entities[0].assemble, *entities[1:])
        if res[0] == "ok":
            res = ("ok", describe_record(res[1]))
        emit("D.ytk", mode, res, warned)
        emit("D.after", [describe_record(e.record) for e in entities])


class BtsDefaultModule(AbstractModule):
    cutter = BtsI


class BtsDefaultVector(AbstractVector):
    cutter = BtsI


class BtsModule(AbstractModule):
    """A module cut by an enzyme that leaves 3' overhangs."""

    cutter = BtsI

    @staticmethod
    def structure():
        return "GCAGTG(NN)(NN*N)(NN)CACTGC"


class BtsVector(AbstractVector):
    """A vector cut by an enzyme that leaves 3' overhangs."""

    cutter = BtsI

    @staticmethod
    def structure():
        return "(NN)(CACTGCN*GCAGTG)(NN)"


def part_e():
    """Enzymes leaving 3' overhangs: the other branch of the span helpers."""
    for cls in (BtsDefaultModule, BtsDefaultVector):
        record = CircularRecord(Seq("GCAGTGAACCCCTTCACTGCAAAA"), id="bts")
        emit("E.default", cls.__name__, outcome(cls.structure), outcome(cls(record).is_valid))
    hangs = ["AC", "GA", "CT", "AA", "CA"]
    for n in range(60):
        size = RNG.randint(1, 3)
        chosen = RNG.sample(hangs, size + 1)
        flavour = RNG.choice(("ok", "ok", "missing", "dup", "palindrome", "illegal"))
        mods = [(chosen[k], chosen[k + 1]) for k in range(size)]
        if flavour == "missing":
            mods[RNG.randrange(size)] = ("GG", "CC")
        elif flavour == "dup":
            mods.append((mods[0][0], "GG"))
        elif flavour == "palindrome":
            mods.append(("AT" if "AT" not in chosen else "TA", "GG"))
        texts = ["".join(["C", chosen[0], "CACTGC", clean_dna(RNG.randint(0, 6)), "GCAGTG", chosen[-1], clean_dna(RNG.randint(3, 9))])]
        for a, b in mods:
            insert = clean_dna(RNG.randint(2, 7))
            if flavour == "illegal" and RNG.random() < 0.6:
                insert += "GCAGTGAA"
            texts.append("".join(["GCAGTG", a, insert, b, "CACTGC", clean_dna(RNG.randint(3, 9))]))
        records = [
            make_record(recase(rotate(t, RNG.choice((0, 0, 4, len(t) - 2))), RNG.choice(CASES)), "e{}_{}".format(n, k), "circular", RNG)
            for k, t in enumerate(texts)
        ]
        vector = BtsVector(records[0])
        modules = [BtsModule(r) for r in records[1:]]
        emit("E.rec", flavour, [describe_structured(e) for e in [vector] + modules])
        res, warned = outcome(vector.assemble, *modules)
        if res[0] == "ok":
            res = ("ok", describe_record(res[1]))
        emit("E.asm", flavour, res, warned, [describe_record(r) for r in records])


def main():
    part_a()
    part_b()
    part_c()
    part_d()
    part_e()
    digest = hashlib.sha256("\n".join(LINES).encode("utf-8")).hexdigest()
    if "--dump" in sys.argv:
        print("\n".join(LINES))
    print("observations:", len(LINES))
    print("by kind:", sorted(STATS.items()))
    kinds = {}
    for line in LINES:
        if line.startswith("C.asm"):
            m = re.search(r"\('(ok|err)', '?(\w+)?", line)
            key = "ok" if m.group(1) == "ok" else m.group(2)
            kinds[key] = kinds.get(key, 0) + 1
    print("assembly outcomes:", sorted(kinds.items()))
    print("DIGEST", digest)


if __name__ == "__main__":
    main()
