# coding: utf-8
# --- common differential-test harness (inlined in every equiv.py) ------------
import sys

sys.path.insert(0, "/tmp/agentsR3/R13")
import tests  # noqa: F401,E402  (splices the kit packages into the moclo namespace)

import atexit  # noqa: E402
import hashlib  # noqa: E402
import io  # noqa: E402
import os  # noqa: E402
import random  # noqa: E402
import shutil  # noqa: E402
import tarfile  # noqa: E402
import tempfile  # noqa: E402
import warnings  # noqa: E402

import Bio.SeqIO  # noqa: E402
import fs  # noqa: E402
from Bio.Seq import Seq  # noqa: E402
from Bio.SeqFeature import SeqFeature, FeatureLocation  # noqa: E402
from Bio.SeqRecord import SeqRecord  # noqa: E402

from tests._utils import build_registries  # noqa: E402

warnings.simplefilter("ignore")

RNG = random.Random(0x5EED13)
RESULTS = []

LABELS = [
    "KanR", "CamR", "CmR", "KnR", "AmpR", "SmR", "SpecR",  # known cassettes
    "kanr", "AMPR", "ampR", "Kanr", "specr",  # wrong letter case: not recognised
    "GFP", "ori", "AmpR promoter", "KanR-like", "",  # unrelated
]

PKG_NAME = "equivpkg_r13"
PKG_DIR = tempfile.mkdtemp(prefix="r13_equiv_")
atexit.register(shutil.rmtree, PKG_DIR, True)
os.mkdir(os.path.join(PKG_DIR, PKG_NAME))
with open(os.path.join(PKG_DIR, PKG_NAME, "__init__.py"), "w") as _f:
    _f.write("")
sys.path.insert(0, PKG_DIR)
_ARCHIVES = [0]


def log(*values):
    RESULTS.append(repr(values))


def attempt(tag, func, *args, **kwargs):
    """Run func, record either its described result or its exception."""
    try:
        out = func(*args, **kwargs)
    except BaseException as err:  # noqa: B902 (StopIteration & co. included)
        if isinstance(err, (KeyboardInterrupt, SystemExit)):
            raise
        log(tag, "EXC", type(err).__name__, str(err).replace(PKG_DIR, "<PKG>"))
        return None
    else:
        log(tag, "OK", describe(out))
        return out


def describe_record(rec):
    return (
        type(rec).__name__,
        rec.id,
        rec.name,
        rec.description,
        str(rec.seq),
        sorted((k, repr(v)) for k, v in rec.annotations.items()),
        [
            (f.type, str(f.location), sorted((k, list(v)) for k, v in f.qualifiers.items()))
            for f in rec.features
        ],
    )


def describe(obj):
    from moclo.registry.base import Item

    if isinstance(obj, Item):
        ent = obj.entity
        try:
            valid = ent.is_valid()
        except Exception as err:
            valid = (type(err).__name__, str(err))
        return (
            "Item",
            obj.id,
            obj.name,
            obj.resistance,
            type(ent).__module__,
            type(ent).__name__,
            valid,
            describe_record(ent.record),
            obj.record is ent.record,
        )
    if isinstance(obj, SeqRecord):
        return describe_record(obj)
    if isinstance(obj, (list, tuple)):
        return [describe(x) for x in obj]
    if isinstance(obj, dict):
        return [(k, describe(v)) for k, v in obj.items()]
    if isinstance(obj, type):
        return "<class {}.{}>".format(obj.__module__, obj.__name__)
    if obj is None or isinstance(obj, (str, bytes, int, float, bool)):
        return repr(obj)
    return "<{} object>".format(type(obj).__name__)  # no memory addresses in the digest


def rand_seq(n):
    return "".join(RNG.choice("ACGT") for _ in range(n))


def make_record(
    id_,
    name=None,
    description="synthetic",
    labels=(),
    comment=None,
    seq=None,
    upper=True,
):
    """Build a small annotated circular record.

    ``labels`` is a list of label lists: one feature per inner list.
    """
    seq = seq if seq is not None else rand_seq(RNG.randint(40, 120))
    if not upper:
        seq = "".join(RNG.choice((c, c.lower())) for c in seq)
    rec = SeqRecord(Seq(seq), id=id_, name=name or id_[:16], description=description)
    rec.annotations["molecule_type"] = "DNA"
    rec.annotations["topology"] = "circular"
    if comment is not None:
        rec.annotations["comment"] = comment
    for i, lbls in enumerate(labels):
        start = RNG.randint(0, len(seq) - 10)
        end = RNG.randint(start + 1, len(seq))
        quals = {"note": ["feature {}".format(i)]}
        if lbls:
            quals["label"] = list(lbls)
        rec.features.append(
            SeqFeature(
                FeatureLocation(start, end, RNG.choice((1, -1))),
                type=RNG.choice(("CDS", "misc_feature", "promoter")),
                qualifiers=quals,
            )
        )
    return rec


def rand_labels(kind=None):
    """Label lists for the features of a record.

    kind: "one" (exactly one cassette overall), "none", "multi" (one feature
    holding two cassettes), "two" (two features with one cassette each) or
    None (anything).
    """
    known = LABELS[:7]
    other = LABELS[7:]
    kind = kind or RNG.choice(("one", "one", "one", "none", "multi", "two", "any"))
    feats = [[RNG.choice(other)] if RNG.random() < 0.7 else [] for _ in range(RNG.randint(0, 2))]
    if kind == "one":
        feats.insert(RNG.randint(0, len(feats)), [RNG.choice(known)] + RNG.sample(other, RNG.randint(0, 2)))
    elif kind == "multi":
        feats.insert(RNG.randint(0, len(feats)), RNG.sample(known, 2) + RNG.sample(other, RNG.randint(0, 1)))
        if RNG.random() < 0.5:
            feats.append([RNG.choice(known)])
    elif kind == "two":
        feats.insert(RNG.randint(0, len(feats)), [RNG.choice(known)])
        feats.append([RNG.choice(known)] if RNG.random() < 0.5 else RNG.sample(known, 2))
    elif kind == "any":
        feats = [RNG.sample(LABELS, RNG.randint(0, 3)) for _ in range(RNG.randint(0, 4))]
    return feats


def to_genbank(rec):
    buff = io.StringIO()
    Bio.SeqIO.write([rec], buff, "genbank")
    return buff.getvalue()


def make_archive(records, names=None):
    """Write the records to a new tar.gz of the scratch package; return its name."""
    _ARCHIVES[0] += 1
    fname = "archive{:04d}.tar.gz".format(_ARCHIVES[0])
    with tarfile.open(os.path.join(PKG_DIR, PKG_NAME, fname), "w:gz") as tar:
        for i, rec in enumerate(records):
            data = (rec if isinstance(rec, str) else to_genbank(rec)).encode("utf-8")
            info = tarfile.TarInfo(names[i] if names else getattr(rec, "id", "entry{}".format(i)))
            info.size = len(data)
            tar.addfile(info, io.BytesIO(data))
    return fname


def subregistry(base, records, names=None, **attrs):
    """A user-defined subclass of an embedded registry over a scratch archive."""
    attrs.update(_module=PKG_NAME, _file=make_archive(records, names))
    return type(str("User" + base.__name__), (base,), attrs)


def dump_registry(tag, reg, extra_keys=("missing", "", None, 0)):
    """Exercise the whole Mapping API of a registry."""
    attempt((tag, "len"), len, reg)
    keys = attempt((tag, "iter"), lambda: list(reg)) or []
    attempt((tag, "keys"), lambda: list(reg.keys()))
    for key in list(keys) + list(extra_keys):
        attempt((tag, "getitem", key), reg.__getitem__, key)
        attempt((tag, "contains", key), reg.__contains__, key)
        attempt((tag, "get", key), reg.get, key)
    attempt((tag, "values"), lambda: list(reg.values()))
    attempt((tag, "items"), lambda: list(reg.items()))
    attempt((tag, "hash"), lambda: hash(reg) == hash(type(reg)()))
    attempt((tag, "eq"), lambda: (reg == type(reg)(), reg != type(reg)(), reg == 1))


def finish():
    digest = hashlib.sha256("\n".join(RESULTS).encode("utf-8")).hexdigest()
    print("{} results, digest {}".format(len(RESULTS), digest))
    if os.environ.get("EQUIV_DUMP"):  # debugging aid: keep the raw results
        with open(os.environ["EQUIV_DUMP"], "w") as out:
            out.write("\n".join(RESULTS))


# --- end of the common harness -----------------------------------------------
# --- R13_2: FilesystemRegistry._files moved to registry._utils.glob_patterns --
from moclo.kits import ytk, cidar
from moclo.core import AbstractPart, AbstractModule, AbstractVector
from moclo.registry.base import FilesystemRegistry, CombinedRegistry
from moclo.registry.ytk import YTKRegistry

build_registries("ytk")
real_items = list(YTKRegistry().values())

EXTENSIONS = [
    None,  # -> keep the default value of the argument
    ("gb", "gbk"),
    ("gb",),
    ["gbk"],
    ("genbank", "txt", "gb"),
    (),
    [],
    ("g*",),
    ("GB",),
    ("gb", "gb"),
    ("?b",),
    ("[gt]b",),
    ("",),
    "gb",  # a plain string: iterated letter by letter
    ("tar.gz", "gb"),
    ("{}", "gb"),
    (1, 2),
    (None,),
    {"gb": 1, "gbk": 2},
    frozenset(["gb"]),
]
BAD_EXTENSIONS = [0, 3.5, object]
FILENAMES = ["{}.gb", "{}.gbk", "{}.GB", "{}.Gb", "{}.genbank", "{}.txt", "{}", "{}.tar.gz",
             "{}.gb.bak", ".{}.gb", "{} copy.gb", "{}.xb", "{}.tb", "{}.", "{}.1"]


def populate(target, n):
    names = []
    for k in range(n):
        if RNG.random() < 0.6:
            rec = RNG.choice(real_items).entity.record
        else:
            rec = make_record("SYN{}".format(k), labels=rand_labels())
        name = RNG.choice(FILENAMES).format(RNG.choice((rec.id, "f{}".format(k), "F{}".format(k))))
        if RNG.random() < 0.15:
            target.makedirs("sub{}.gb".format(k), recreate=True)
            name = "sub{}.gb/{}".format(k, name)
        with target.open(name, "w") as f:
            f.write(to_genbank(rec) if RNG.random() < 0.9 else "not a genbank file")
        names.append(name)
    return names


def exercise(tag, reg, names):
    attempt((tag, "len"), len, reg)
    attempt((tag, "len again"), len, reg)
    keys = attempt((tag, "iter"), lambda: sorted(reg)) or []
    attempt((tag, "iter again"), lambda: sorted(reg))
    attempt((tag, "keys"), lambda: sorted(reg.keys()))
    it = attempt((tag, "lazy iter"), iter, reg)  # nothing evaluated before next()
    attempt((tag, "lazy next"), lambda: next(it))
    probes = set(keys)
    for name in names:
        base = name.rsplit("/", 1)[-1]
        probes.update((base, base.split(".")[0], base.rsplit(".", 1)[0]))
    for key in sorted(probes, key=repr) + ["missing", "", None, 0]:
        attempt((tag, "getitem", key), reg.__getitem__, key)
        attempt((tag, "contains", key), reg.__contains__, key)
    attempt((tag, "values"), lambda: sorted(describe(list(reg.values()))))
    attempt((tag, "items"), lambda: len(reg.items()))
    attempt((tag, "attrs"), lambda: (reg.base.__name__, type(reg.fs).__name__))
    comb = CombinedRegistry()
    attempt((tag, "combined"), lambda: sorted((comb << reg).keys()))


# A. in-memory filesystems, every kind of extension list
for n in range(160):
    mem = fs.open_fs("mem://")
    names = populate(mem, RNG.randint(0, 6))
    ext = EXTENSIONS[n % len(EXTENSIONS)]
    base = RNG.choice((ytk.YTKPart, ytk.YTKPart, ytk.YTKPart1, cidar.CIDARPart, ytk.YTKCassetteVector, AbstractPart))
    log("memfs", n, sorted(names), repr(ext), base.__name__)
    if ext is None:
        reg = attempt(("mem", n, "new"), lambda: FilesystemRegistry(mem, base) and None) or FilesystemRegistry(mem, base)
    else:
        reg = FilesystemRegistry(mem, base, ext)
    exercise(("mem", n), reg, names)
    mem.close()

# B. one-shot iterables and wrong types given as extensions
for n in range(30):
    mem = fs.open_fs("mem://")
    names = populate(mem, RNG.randint(1, 5))
    reg = FilesystemRegistry(mem, ytk.YTKPart, extensions=iter(["gb", "gbk"]))
    exercise(("oneshot", n), reg, names)
    reg = FilesystemRegistry(mem, ytk.YTKPart, extensions=(e for e in ("gbk", "gb", "txt")))
    attempt(("oneshot-gen", n, "getitem"), reg.__getitem__, "f0")
    exercise(("oneshot-gen", n), reg, names)
    for bad in BAD_EXTENSIONS[: 3 if n < 4 else 0]:
        reg = FilesystemRegistry(mem, ytk.YTKPart, bad)
        exercise(("bad", n, repr(bad)), reg, names[:1])
    mem.close()

# C. a real directory, given by path and by FS URL; constructor errors
tmp = tempfile.mkdtemp(prefix="r13_fs_")
atexit.register(shutil.rmtree, tmp, True)
with fs.open_fs(tmp) as target:
    names = populate(target, 12)
log("osfs", sorted(names))
for n, url in enumerate((tmp, "osfs://" + tmp)):
    for ext in EXTENSIONS[:8]:
        reg = FilesystemRegistry(url, ytk.YTKPart) if ext is None else FilesystemRegistry(url, ytk.YTKPart, ext)
        exercise(("osfs", n, repr(ext)), reg, names)
for bad in (None, "YTKPart", object, int, 1, (ytk.YTKPart,), [ytk.YTKPart1]):
    attempt(("bad base", repr(bad)[:30]), FilesystemRegistry, "mem://", bad)
for ok in (AbstractPart, AbstractModule, AbstractVector, ytk.YTKPart8, ytk.YTKEntryVector):
    attempt(("ok base", ok.__name__), lambda: len(FilesystemRegistry("mem://", ok)))


# D. a user subclass
class Upper(FilesystemRegistry):
    def __init__(self, url):
        super(Upper, self).__init__(url, ytk.YTKPart, extensions=("gb",))

    def __getitem__(self, item):
        return super(Upper, self).__getitem__(item)._replace(name="UPPER")


for n in range(20):
    mem = fs.open_fs("mem://")
    names = populate(mem, 4)
    exercise(("upper", n), Upper(mem), names)
    mem.close()

finish()
